"""Overlay generator: rename every function-local variable (not parameters, not names used by nested
functions) to <name>_rn in all sources.  Behaviour-preserving; used to measure name dependence of the rules."""
import ast
import os
import sys

sys.path.insert(0, os.path.dirname(os.path.dirname(os.path.abspath(__file__))))
from sa.cfg import target_names


class Renamer(ast.NodeTransformer):
    def __init__(self, names):
        self.names = names

    def visit_Name(self, node):
        if node.id in self.names:
            node.id = node.id + "_rn"
        return node


def rename_module(src: str, parity=None) -> str:
    """parity None: every function; 0 / 1: only every other function (in source order) - a one-sided rename that
    separates the names used by sibling implementations."""
    tree = ast.parse(src)
    fns = sorted([n for n in ast.walk(tree) if isinstance(n, (ast.FunctionDef, ast.AsyncFunctionDef))], key=lambda n: n.lineno)
    for k, fn in enumerate(fns):
        if parity is not None and k % 2 != parity:
            continue
        nested = [n for n in ast.walk(fn) if n is not fn and isinstance(n, (ast.FunctionDef, ast.Lambda, ast.ClassDef))]
        if nested:
            continue
        parent_nested = False
        params = {a.arg for a in fn.args.posonlyargs + fn.args.args + fn.args.kwonlyargs}
        if fn.args.vararg: params.add(fn.args.vararg.arg)
        if fn.args.kwarg: params.add(fn.args.kwarg.arg)
        assigned = set()
        for n in ast.walk(fn):
            if isinstance(n, ast.Assign):
                for t in n.targets: assigned |= set(target_names(t))
            elif isinstance(n, (ast.AugAssign, ast.AnnAssign)):
                assigned |= set(target_names(n.target))
            elif isinstance(n, (ast.For, ast.comprehension)):
                assigned |= set(target_names(n.target))
            elif isinstance(n, ast.With):
                for it in n.items:
                    if it.optional_vars is not None: assigned |= set(target_names(it.optional_vars))
            elif isinstance(n, (ast.Global, ast.Nonlocal)):
                params |= set(n.names)
            elif isinstance(n, (ast.Import, ast.ImportFrom)):
                params |= {(a.asname or a.name).split(".")[0] for a in n.names}
        # keyword argument names equal to local names must stay: only Name nodes are renamed
        names = assigned - params
        Renamer(names).visit(fn)
    return ast.unparse(tree) + "\n"




def keywordize_module(repo, path: str) -> str:
    """Every positional argument of a call that resolves to a repository *function* (not a method, no *args)
    is written as a keyword argument."""
    from sa.model import Func

    m = repo.modules[path]
    tree = ast.parse(m.source)
    # map (lineno, col) of calls in the original tree -> callee
    targets = {}
    for f in m.all_funcs:
        for call in repo.calls_in(f):
            ts = [t for t in repo.resolve_call(f, call) if isinstance(t, Func)]
            if len(ts) == 1 and ts[0].cls is None and ts[0].parent is None and ts[0].node.args.vararg is None and isinstance(call.func, ast.Name):
                targets[(call.lineno, call.col_offset)] = ts[0]
    for node in ast.walk(tree):
        if isinstance(node, ast.Call) and (node.lineno, node.col_offset) in targets:
            t = targets[(node.lineno, node.col_offset)]
            if any(isinstance(a, ast.Starred) for a in node.args) or any(k.arg is None for k in node.keywords):
                continue
            params = t.positional_params
            if len(node.args) > len(params):
                continue
            # keep the first (data) argument positional, as a developer would
            new_kw = [ast.keyword(arg=params[i], value=a) for i, a in enumerate(node.args) if i >= 1]
            node.args = node.args[:1]
            node.keywords = new_kw + node.keywords
    return ast.unparse(ast.fix_missing_locations(tree)) + "\n"


def _trivial(e):
    return isinstance(e, (ast.Name, ast.Constant)) or (
        isinstance(e, ast.UnaryOp) and isinstance(e.operand, ast.Constant)
    )


class _Hoister(ast.NodeTransformer):
    """'Extract variable' refactoring: the non-trivial arguments of the call on the right-hand side of a simple
    statement are computed into fresh locals first (left to right, so evaluation order is unchanged)."""

    def __init__(self):
        self.n = 0

    def _hoist_stmt(self, st):
        if isinstance(st, (ast.Assign, ast.Return, ast.Expr, ast.AugAssign, ast.AnnAssign)):
            call = st.value
        else:
            return [st]
        if not isinstance(call, ast.Call):
            return [st]
        if any(isinstance(a, ast.Starred) for a in call.args) or any(k.arg is None for k in call.keywords):
            return [st]
        f = call.func
        while isinstance(f, ast.Attribute):
            f = f.value
        if not isinstance(f, ast.Name):
            return [st]
        slots = [("a", i, a) for i, a in enumerate(call.args)] + [("k", i, k.value) for i, k in enumerate(call.keywords)]
        complex_idx = [j for j, (_, _, e) in enumerate(slots) if not _trivial(e) and not isinstance(e, ast.Attribute)]
        if not complex_idx:
            return [st]
        # generator expressions / lambdas as arguments stay in place (their evaluation is lazy)
        last = max(complex_idx)
        pre = []
        for j, (kind, i, e) in enumerate(slots):
            if j > last:
                break
            if _trivial(e) or isinstance(e, (ast.GeneratorExp, ast.Lambda)):
                continue
            self.n += 1
            name = "_h%d" % self.n
            pre.append(ast.Assign(targets=[ast.Name(id=name, ctx=ast.Store())], value=e, lineno=st.lineno))
            ref = ast.Name(id=name, ctx=ast.Load())
            if kind == "a":
                call.args[i] = ref
            else:
                call.keywords[i].value = ref
        return pre + [st]

    def _block(self, stmts):
        out = []
        for st in stmts:
            st = self.generic_visit(st)
            out.extend(self._hoist_stmt(st))
        return out

    def generic_visit(self, node):
        for fld in ("body", "orelse", "finalbody"):
            v = getattr(node, fld, None)
            if isinstance(v, list) and v and isinstance(v[0], ast.stmt):
                setattr(node, fld, self._block(v))
        for h in getattr(node, "handlers", []) or []:
            h.body = self._block(h.body)
        return node


def hoist_module(src: str) -> str:
    tree = ast.parse(src)
    h = _Hoister()
    for fn in [n for n in ast.walk(tree) if isinstance(n, (ast.FunctionDef, ast.AsyncFunctionDef))]:
        # only outermost functions are entered here; nested ones are reached through generic_visit
        pass
    for node in tree.body:
        if isinstance(node, (ast.FunctionDef, ast.AsyncFunctionDef)):
            h.generic_visit(node)
        elif isinstance(node, ast.ClassDef):
            for sub in node.body:
                if isinstance(sub, (ast.FunctionDef, ast.AsyncFunctionDef)):
                    h.generic_visit(sub)
    return ast.unparse(ast.fix_missing_locations(tree)) + "\n"


class _Mirror(ast.NodeTransformer):
    """`a < b` -> `b > a` (and <=, >=, ==, !=) for every single-operator comparison."""

    M = {ast.Lt: ast.Gt, ast.Gt: ast.Lt, ast.LtE: ast.GtE, ast.GtE: ast.LtE, ast.Eq: ast.Eq, ast.NotEq: ast.NotEq}

    def visit_Compare(self, node):
        self.generic_visit(node)
        if len(node.ops) == 1 and type(node.ops[0]) in self.M:
            return ast.copy_location(ast.Compare(left=node.comparators[0], ops=[self.M[type(node.ops[0])]()], comparators=[node.left]), node)
        return node


def mirror_module(src: str) -> str:
    tree = ast.parse(src)
    _Mirror().visit(tree)
    return ast.unparse(ast.fix_missing_locations(tree)) + "\n"


class _FlipElse(ast.NodeTransformer):
    """`if c: A else: B` -> `if not c: B else: A` for every if statement with a plain else block."""

    def visit_If(self, node):
        self.generic_visit(node)
        if node.orelse and not (len(node.orelse) == 1 and isinstance(node.orelse[0], ast.If)):
            t = node.test
            if isinstance(t, ast.UnaryOp) and isinstance(t.op, ast.Not):
                nt = t.operand
            else:
                nt = ast.UnaryOp(op=ast.Not(), operand=t)
            node.test, node.body, node.orelse = nt, node.orelse, node.body
        return node


def flip_else_module(src: str) -> str:
    tree = ast.parse(src)
    _FlipElse().visit(tree)
    return ast.unparse(ast.fix_missing_locations(tree)) + "\n"


def _pure(e: ast.AST) -> bool:
    return not any(isinstance(x, (ast.Call, ast.Await, ast.Yield, ast.YieldFrom, ast.NamedExpr, ast.Lambda, ast.ListComp, ast.SetComp,
                                  ast.DictComp, ast.GeneratorExp)) for x in ast.walk(e))


def _names(e: ast.AST):
    return {x.id for x in ast.walk(e) if isinstance(x, ast.Name)}


class _Swapper(ast.NodeTransformer):
    """Adjacent independent assignments `a = e1; b = e2` (plain names, call-free values, neither reads the other's
    target) are exchanged."""

    def __init__(self):
        self.n = 0

    def _block(self, stmts):
        out = list(stmts)
        i = 0
        while i + 1 < len(out):
            a, b = out[i], out[i + 1]
            if all(isinstance(s, ast.Assign) and len(s.targets) == 1 and isinstance(s.targets[0], ast.Name) and _pure(s.value) for s in (a, b)):
                ta, tb = a.targets[0].id, b.targets[0].id
                if ta != tb and ta not in _names(b.value) and tb not in _names(a.value):
                    out[i], out[i + 1] = b, a
                    self.n += 1
                    i += 2
                    continue
            i += 1
        return out

    def generic_visit(self, node):
        super().generic_visit(node)
        for fld in ("body", "orelse", "finalbody"):
            v = getattr(node, fld, None)
            if isinstance(v, list) and v and isinstance(v[0], ast.stmt) and not isinstance(node, ast.Module) and not isinstance(node, ast.ClassDef):
                setattr(node, fld, self._block(v))
        return node


def swap_module(src: str) -> str:
    tree = ast.parse(src)
    sw = _Swapper()
    sw.visit(tree)
    return ast.unparse(ast.fix_missing_locations(tree)) + "\n"


class _Noop(ast.NodeTransformer):
    """A harmless statement (`assert True`) is inserted at the start of every function body (after the docstring) and of
    every loop body: rules must not depend on a construct being the *first* statement of its block."""

    def _stmt(self, at):
        return ast.copy_location(ast.Assert(test=ast.Constant(value=True), msg=None), at)

    def visit_FunctionDef(self, node):
        self.generic_visit(node)
        k = 1 if node.body and isinstance(node.body[0], ast.Expr) and isinstance(node.body[0].value, ast.Constant) and isinstance(node.body[0].value.value, str) else 0
        if len(node.body) > k:
            node.body.insert(k, self._stmt(node.body[k]))
        return node

    def visit_For(self, node):
        self.generic_visit(node)
        node.body.insert(0, self._stmt(node.body[0]))
        return node

    visit_While = visit_For


def noop_module(src: str) -> str:
    tree = ast.parse(src)
    _Noop().visit(tree)
    return ast.unparse(ast.fix_missing_locations(tree)) + "\n"


class _NoElseReturn(ast.NodeTransformer):
    """pylint's no-else-return / no-else-raise / no-else-continue: `if c: ...; return x  else: B` -> `if c: ...; return x` + B."""

    def _block(self, stmts):
        out = []
        for st in stmts:
            st = self.visit(st)
            if isinstance(st, ast.If) and st.orelse and st.body and isinstance(st.body[-1], (ast.Return, ast.Raise, ast.Continue, ast.Break)) \
                    and not (len(st.orelse) == 1 and isinstance(st.orelse[0], ast.If)):
                tail = st.orelse
                st.orelse = []
                out.append(st)
                out.extend(tail)
            else:
                out.append(st)
        return out

    def generic_visit(self, node):
        super().generic_visit(node)
        for fld in ("body", "orelse", "finalbody"):
            v = getattr(node, fld, None)
            if isinstance(v, list) and v and isinstance(v[0], ast.stmt):
                setattr(node, fld, self._block(v))
        return node


def no_else_return_module(src: str) -> str:
    tree = ast.parse(src)
    t = _NoElseReturn()
    t.generic_visit(tree)
    return ast.unparse(ast.fix_missing_locations(tree)) + "\n"
