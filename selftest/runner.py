"""Self-test of the analyser (thorough tier): every rule must fire on a variant of
/repo's *current* source with one instance broken, and stay silent on a
behaviour-preserving rewrite.  Variants are applied to an in-memory copy of the
sources (nothing is written to disk, /repo is never touched).

A variant whose anchor text is not present in the current tree is *skipped* and
reported as such (the tree has changed under the corpus); it never turns into a
verdict about the repository.
"""
from __future__ import annotations

import ast
import importlib
import os
import sys
import time
import traceback
from concurrent.futures import ProcessPoolExecutor
from typing import Dict, List, Optional, Tuple

HERE = os.path.dirname(os.path.dirname(os.path.abspath(__file__)))
if HERE not in sys.path:
    sys.path.insert(0, HERE)

from sa.model import AnalysisError, Repo, load_sources  # noqa: E402


def _func_span(src: str, qualname: str) -> Optional[Tuple[int, int]]:
    """(start, end) character offsets of a function / method / class given by qualname."""
    tree = ast.parse(src)
    parts = qualname.split(".")
    node = tree
    for p in parts:
        found = None
        for n in ast.walk(node) if node is tree else ast.iter_child_nodes(node):
            if isinstance(n, (ast.FunctionDef, ast.AsyncFunctionDef, ast.ClassDef)) and n.name == p:
                found = n
                break
        if found is None:
            # nested defs may sit inside compound statements
            for n in ast.walk(node):
                if isinstance(n, (ast.FunctionDef, ast.AsyncFunctionDef, ast.ClassDef)) and n.name == p and n is not node:
                    found = n
                    break
        if found is None:
            return None
        node = found
    lines = src.splitlines(keepends=True)
    start = sum(len(l) for l in lines[: node.lineno - 1])
    end = sum(len(l) for l in lines[: node.end_lineno])
    return start, end


def apply_variant(sources: Dict[str, str], v: dict) -> Optional[Dict[str, str]]:
    if v.get("global") == "reformat":
        # every file re-printed from its syntax tree: comments gone, layout and line numbers changed
        return {k: ast.unparse(ast.parse(t)) + "\n" for k, t in sources.items()}
    if v.get("global") == "rename-locals":
        from selftest.transforms import rename_module

        return {k: rename_module(t) for k, t in sources.items()}
    if v.get("global") == "mirror":
        from selftest.transforms import mirror_module

        return {k: mirror_module(t) for k, t in sources.items()}
    if v.get("global") == "flip-else":
        from selftest.transforms import flip_else_module

        return {k: flip_else_module(t) for k, t in sources.items()}
    if v.get("global") == "all-together":
        from selftest.transforms import (flip_else_module, hoist_module, mirror_module, no_else_return_module, noop_module,
                                         rename_module, swap_module)

        cur = dict(sources)
        for t in (hoist_module, mirror_module, flip_else_module, noop_module, swap_module, no_else_return_module, rename_module):
            cur = {k: t(x) for k, x in cur.items()}
        return cur
    if v.get("global") == "noop":
        from selftest.transforms import noop_module

        return {k: noop_module(t) for k, t in sources.items()}
    if v.get("global") == "noelse":
        from selftest.transforms import no_else_return_module

        return {k: no_else_return_module(t) for k, t in sources.items()}
    if v.get("global") == "swap":
        from selftest.transforms import swap_module

        return {k: swap_module(t) for k, t in sources.items()}
    if v.get("global") == "hoist":
        from selftest.transforms import hoist_module

        return {k: hoist_module(t) for k, t in sources.items()}
    if v.get("global") in ("rename-even", "rename-odd"):
        from selftest.transforms import rename_module

        return {k: rename_module(t, 0 if v["global"] == "rename-even" else 1) for k, t in sources.items()}
    if v.get("global") == "keywordize":
        from selftest.transforms import keywordize_module

        r0 = Repo(sources=sources)
        return {k: keywordize_module(r0, k) for k in sources}
    out = dict(sources)
    for edit in v["edits"]:
        path = edit["file"]
        src = out.get(path)
        if src is None:
            return None
        if edit.get("func"):
            span = _func_span(src, edit["func"])
            if span is None:
                return None
            a, b = span
        else:
            a, b = 0, len(src)
        seg = src[a:b]
        if seg.count(edit["old"]) != edit.get("count", 1):
            return None
        seg = seg.replace(edit["old"], edit["new"])
        src = src[:a] + seg + src[b:]
        try:
            compile(src, path, "exec")
        except SyntaxError as e:
            raise AssertionError("variant %s does not compile: %s" % (v["id"], e))
        out[path] = src
    return out


def violations_of(prop: str, sources: Dict[str, str]):
    mod = importlib.import_module("sa.rules.%s" % prop.lower())
    repo = Repo(sources=sources)
    found = []
    errors = []
    for rule in mod.RULES:
        try:
            rr = rule(repo)
            rr.check_floor()
        except AnalysisError as e:
            errors.append(str(e))
            continue
        for i in rr.violations:
            found.append((i.rule, i.file, i.function, i.construct, i.what))
    if errors and not found:
        raise AnalysisError("; ".join(errors))
    return found


def _run_one(args):
    prop, v, sources, baseline = args
    t0 = time.time()
    res = {"id": v["id"], "kind": v["kind"], "expect": v.get("rule"), "note": v.get("note", "")}
    try:
        overlay = apply_variant(sources, v)
        if overlay is None:
            res.update(status="skipped", detail="anchor text not present in the current tree")
            return res
        try:
            found = violations_of(prop, overlay)
            err = None
        except AnalysisError as e:
            found, err = [], str(e)
        base = set(x[:4] for x in baseline)
        new = [x for x in found if x[:4] not in base]
        if v["kind"] == "fire":
            hit = [x for x in new if x[0] == v["rule"] and (not v.get("construct") or v["construct"] in x[3] or v["construct"] in x[2])]
            if hit:
                res.update(status="pass", detail="%s %s::%s [%s]" % (hit[0][0], hit[0][1], hit[0][2], hit[0][3]))
            elif err and v.get("allow_error"):
                res.update(status="pass", detail="analysis error (accepted for this variant): %s" % err)
            else:
                res.update(status="FAIL", detail="expected %s to fire; new violations: %s; error: %s" % (v["rule"], [x[:4] for x in new], err))
        else:
            if err:
                res.update(status="FAIL", detail="analysis error on a behaviour-preserving variant: %s" % err)
            elif new:
                res.update(status="FAIL", detail="false alarm on a behaviour-preserving variant: %s" % [x[:4] for x in new])
            else:
                res.update(status="pass", detail="silent")
    except Exception as e:  # analyser crash
        res.update(status="FAIL", detail="crash: %r\n%s" % (e, traceback.format_exc()[-600:]))
    res["wall_s"] = round(time.time() - t0, 2)
    return res


def run_for(prop: str, seed: int = 0, jobs: int = 16) -> dict:
    from selftest.corpus import VARIANTS

    sources = load_sources()
    variants = [v for v in VARIANTS if v["property"] == prop]
    variants.append({"property": prop, "id": "%s-reformat-all" % prop, "kind": "silent", "rule": None, "edits": [], "global": "reformat",
                     "note": "all sources re-printed by ast.unparse (layout, comments and line numbers change, behaviour does not)"})
    variants.append({"property": prop, "id": "%s-keyword-arguments" % prop, "kind": "silent", "rule": None, "edits": [], "global": "keywordize",
                     "note": "positional arguments of calls to repository functions (all but the first) written as keywords"})
    variants.append({"property": prop, "id": "%s-rename-all-locals" % prop, "kind": "silent", "rule": None, "edits": [], "global": "rename-locals",
                     "note": "every function-local variable of every function without closures renamed (<name>_rn)"})
    variants.append({"property": prop, "id": "%s-extract-variables" % prop, "kind": "silent", "rule": None, "edits": [], "global": "hoist",
                     "note": "'extract variable' refactoring everywhere: non-trivial arguments of statement-level calls are computed into fresh locals first"})
    variants.append({"property": prop, "id": "%s-mirror-comparisons" % prop, "kind": "silent", "rule": None, "edits": [], "global": "mirror",
                     "note": "every comparison written the other way round (a < b -> b > a, a == b -> b == a)"})
    variants.append({"property": prop, "id": "%s-flip-else" % prop, "kind": "silent", "rule": None, "edits": [], "global": "flip-else",
                     "note": "every if/else with a plain else block written with the negated test and the arms swapped"})
    variants.append({"property": prop, "id": "%s-swap-independent-assignments" % prop, "kind": "silent", "rule": None, "edits": [], "global": "swap",
                     "note": "adjacent independent call-free assignments exchanged"})
    variants.append({"property": prop, "id": "%s-insert-noop-statements" % prop, "kind": "silent", "rule": None, "edits": [], "global": "noop",
                     "note": "`assert True` inserted at the start of every function body and every loop body"})
    variants.append({"property": prop, "id": "%s-no-else-after-return" % prop, "kind": "silent", "rule": None, "edits": [], "global": "noelse",
                     "note": "else blocks after a branch that ends in return / raise / continue / break are un-nested"})
    variants.append({"property": prop, "id": "%s-all-transformations-composed" % prop, "kind": "silent", "rule": None, "edits": [], "global": "all-together",
                     "note": "extract-variables, mirror-comparisons, flip-else, insert-noop, swap-assignments, no-else-after-return and rename-all-locals applied one after the other"})
    for par in ("even", "odd"):
        variants.append({"property": prop, "id": "%s-rename-locals-%s-functions" % (prop, par), "kind": "silent", "rule": None, "edits": [], "global": "rename-%s" % par,
                         "note": "function-local variables renamed in every other function only (one-sided for sibling implementations)"})
    baseline = violations_of(prop, sources)
    # the self-test presupposes a tree on which the rules are silent (known findings aside); otherwise a rule that
    # raises a false alarm on the unmodified tree would hide behind the baseline
    from sa.report import Instance, is_known, load_known

    known = load_known()
    unexpected = [b for b in baseline if not is_known(prop, Instance(b[0], b[1], b[2], b[3], "violation"), known)]
    tasks = [(prop, v, sources, baseline) for v in variants]
    results = []
    if tasks:
        with ProcessPoolExecutor(max_workers=min(jobs, len(tasks))) as ex:
            results = list(ex.map(_run_one, tasks))
    failed = [r for r in results if r["status"] == "FAIL"]
    summary = {
        "baseline_violations_not_in_known_findings": [list(b[:4]) for b in unexpected],
        "variants": len(results),
        "passed": sum(1 for r in results if r["status"] == "pass"),
        "skipped": sum(1 for r in results if r["status"] == "skipped"),
        "failed": len(failed),
        "must_fire": sum(1 for r in results if r["kind"] == "fire"),
        "must_stay_silent": sum(1 for r in results if r["kind"] == "silent"),
        "results": results,
    }
    if failed:
        raise AnalysisError(
            "self-test: the analyser misbehaves on %d variant(s): %s"
            % (len(failed), "; ".join("%s (%s)" % (r["id"], r["detail"][:200]) for r in failed))
        )
    return summary


if __name__ == "__main__":
    props = sys.argv[1:] or sorted({v["property"] for v in importlib.import_module("selftest.corpus").VARIANTS})
    bad = 0
    for p in props:
        try:
            s = run_for(p)
            print("%s: %d variants, %d passed, %d skipped" % (p, s["variants"], s["passed"], s["skipped"]))
            for r in s["results"]:
                if r["status"] != "pass":
                    print("   ", r["id"], r["status"], r["detail"][:160])
        except AnalysisError as e:
            bad += 1
            print("%s: SELF-TEST FAILURE %s" % (p, e))
    sys.exit(2 if bad else 0)
