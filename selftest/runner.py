"""Runs the variant corpus of one property (filled in below)."""


def run_for(prop, seed):
    return {"variants": 0, "note": "corpus not built yet"}
