"""Variant corpus for the analyser's self-test.

Each variant is a small edit of /repo's current source (applied in memory, inside
the named function) with the verdict the rules must give: kind 'fire' - the named
rule must report a *new* violation; kind 'silent' - behaviour-preserving, no new
violation and no analysis error.  Many 'fire' variants are the exact reverse of a
`fix:` commit (the defect returns); the others are realistic slips.
"""
V = []
LOT = "vectorizers/linear_optimal_transport.py"
PP = "vectorizers/preprocessing.py"
MG = "vectorizers/mixed_gram_vectorizer.py"
BASE = "vectorizers/base_cooccurrence_vectorizer.py"
WK = "vectorizers/_window_kernels.py"
NG = "vectorizers/ngram_vectorizer.py"
TOK = "vectorizers/token_cooccurrence_vectorizer.py"
NGC = "vectorizers/ngram_token_cooccurence_vectorizer.py"
TIMED = "vectorizers/timed_token_cooccurrence_vectorizer.py"
MULTI = "vectorizers/multi_token_cooccurence_vectorizer.py"
COO = "vectorizers/coo_utils.py"
EL = "vectorizers/edge_list_vectorizer.py"
SG = "vectorizers/skip_gram_vectorizer.py"
DIST = "vectorizers/distances.py"
IW = "vectorizers/transformers/info_weight.py"
SW = "vectorizers/transformers/sliding_windows.py"
RD = "vectorizers/transformers/row_desnoise.py"
CFC = "vectorizers/transformers/count_feature_compression.py"
VEC = "vectorizers/_vectorizers.py"
TREE = "vectorizers/tree_token_cooccurrence.py"
_NG_W = "            shape=(\n                len(indptr) - 1,\n                max(self.column_label_dictionary_.values(), default=-1) + 1,\n            ),\n"


def E(file, func, old, new, count=1):
    return {"file": file, "func": func, "old": old, "new": new, "count": count}


def fire(prop, vid, rule, edits, note, construct=None, allow_error=False):
    V.append({"property": prop, "id": "%s-%s" % (prop, vid), "kind": "fire", "rule": rule, "edits": edits if isinstance(edits, list) else [edits],
              "note": note, "construct": construct, "allow_error": allow_error})


def silent(prop, vid, edits, note):
    V.append({"property": prop, "id": "%s-%s" % (prop, vid), "kind": "silent", "rule": None, "edits": edits if isinstance(edits, list) else [edits], "note": note})


# ------------------------------------------------------------------------------------------------ C01
_EL_SHAPE = E(EL, "EdgeListVectorizer.transform", "            shape=self._train_matrix.shape,\n", "")
fire("C01", "edgelist-noshape", "R1.1", _EL_SHAPE, "revert of d4888b1: transform without shape=")
fire("C01", "ngram-noshape", "R1.1", E(NG, "NgramVectorizer.transform", _NG_W, ""), "drop shape= from NgramVectorizer.transform")
fire("C01", "buildcoo-noshape", "R1.1", E(BASE, "BaseCooccurrenceVectorizer._build_coo",
     "            shape=(\n                self._n_rows,\n                len(self.token_label_dictionary_) * self._n_wide,\n            ),\n", ""), "drop shape= from _build_coo")
fire("C01", "ngram-width-from-input", "R1.1", E(NG, "NgramVectorizer.transform", _NG_W, "            shape=(len(indptr) - 1, max(indices) + 1),\n"),
     "width computed from the columns present in the input")
fire("C01", "skipgram-noshape", "R1.1", E(SG, "SkipgramVectorizer.transform", "            (data, (row, col)),\n            shape=(len(token_sequences), n_unique_tokens ** 2),\n", "            (data, (row, col)),\n"), "revert of 88b0ada (transform side)")
fire("C01", "lz-pointer", "R1.2", E(MG, "LZCompressionVectorizer.transform", "indptr.append(len(indices))", "indptr.append(indptr[-1] + len(encoding_dict))"), "revert of bb1fd4c")
fire("C01", "ngram-skip-empty-rows", "R1.3", E(NG, "NgramVectorizer.transform", "            counter = {}\n            numba_sequence = np.array(sequence)\n",
     "            if len(sequence) == 0:\n                continue\n            counter = {}\n            numba_sequence = np.array(sequence)\n"), "empty documents skipped: fewer rows than items")
fire("C01", "bpe-unguarded-lookup", "R1.4", E(MG, "BytePairEncodingVectorizer.transform", "                    for x in row\n                    if x in self.column_label_dictionary_\n", "                    for x in row\n"), "revert of the look-up guard of ed85843")
fire("C01", "lz-unguarded-lookup", "R1.4", E(MG, "LZCompressionVectorizer.transform", "if ngram in self.column_label_dictionary_:", "if len(ngram) >= 0:"), "membership guard replaced by a vacuous test")
fire("C01", "bpe-no-oor-mapping", "R1.5", E(MG, "bpe_encode", "compressed_chars[i] = code if code <= max_char_code else 0", "compressed_chars[i] = code"), "out-of-range characters no longer mapped to 0")
silent("C01", "shape-via-local", E(NG, "NgramVectorizer.transform", "        result = scipy.sparse.csr_matrix(\n            (data, indices, indptr),\n" + _NG_W,
       "        n_cols = max(self.column_label_dictionary_.values(), default=-1) + 1\n        result = scipy.sparse.csr_matrix(\n            (data, indices, indptr),\n            shape=(len(indptr) - 1, n_cols),\n"), "shape passed through a temporary")
silent("C01", "edgelist-explicit-tuple", E(EL, "EdgeListVectorizer.transform", "shape=self._train_matrix.shape,", "shape=(self._train_matrix.shape[0], self._train_matrix.shape[1]),"), "same fitted shape written as a tuple")
silent("C01", "lz-rename-loopvar", [E(MG, "LZCompressionVectorizer.transform", "for string in X:", "for text in X:"),
                                    E(MG, "LZCompressionVectorizer.transform", "lempel_ziv_based_encode(string, input_dict", "lempel_ziv_based_encode(text, input_dict")], "rename the loop variable")

# ------------------------------------------------------------------------------------------------ C02
fire("C02", "distribution-fit-none", "R2.1", E(VEC, "DistributionVectorizer.fit", "        self.metric_ = distances.hellinger\n        return self\n", "        self.metric_ = distances.hellinger\n"), "revert of dc05f01")
fire("C02", "histogram-fit-other", "R2.1", E(VEC, "HistogramVectorizer.fit", "        return self\n", "        return self.bin_intervals_\n"), "fit returns a fitted attribute instead of the estimator")
fire("C02", "cooc-fit-drops-param", "R2.2", E(BASE, "BaseCooccurrenceVectorizer.fit", "            max_document_frequency=self.max_document_frequency,\n", ""), "one copy of the duplicated pipeline loses a keyword")
fire("C02", "cooc-ft-reordered", "R2.2", E(BASE, "BaseCooccurrenceVectorizer.fit_transform",
     "        self._set_full_kernel_args()\n\n        # Set the coo_array size\n        self._set_coo_sizes(token_sequences)\n",
     "        # Set the coo_array size\n        self._set_coo_sizes(token_sequences)\n\n        self._set_full_kernel_args()\n"), "helper order changed in one copy only")
fire("C02", "wasserstein-ft-drops-arg", "R2.2", E(LOT, "WassersteinVectorizer.fit_transform", "            reference_vectors=reference_vectors,\n", ""), "fit_transform does not pass reference_vectors on to fit")
fire("C02", "wasserstein-spherical", "R2.3", E(LOT, "WassersteinVectorizer.transform", "                        chunk_size=chunk_size,\n                        spherical_vectors=(metric == cosine),\n                    )\n\n                    result_blocks.append(block @ self.components_.T)",
     "                        chunk_size=chunk_size,\n                    )\n\n                    result_blocks.append(block @ self.components_.T)"), "revert of d484da7 (spmatrix branch)")
fire("C02", "lz-unfitted-hash", "R2.3", E(MG, "LZCompressionVectorizer.transform", "self.hash_function_, self.max_dict_size", "self.hash_function, self.max_dict_size"), "transform uses the configured instead of the fitted hash function")
fire("C02", "ngram-masking", "R2.3", E(NG, "NgramVectorizer.transform", "X, self._token_dictionary_, masking=self.mask_string,", "X, self._token_dictionary_,"), "revert of 5940064")
fire("C02", "cfc-identity", "R2.4", E(CFC, "CountFeatureCompressionTransformer.fit_transform", "            return self.transform(X)\n", "            return X\n"), "revert of 5b526c9")
fire("C02", "lil-whole-slice", "R2.5", E(LOT, "WassersteinVectorizer.transform", "tuple([np.ascontiguousarray(v) for v in vectors[start:end]])", "tuple(np.ascontiguousarray(vectors[start:end]))"), "revert of 041d1b5")
silent("C02", "positional-to-keyword", E(BASE, "BaseCooccurrenceVectorizer.fit_transform", "            X,\n            self.token_dictionary,\n", "            X,\n            token_dictionary=self.token_dictionary,\n"), "positional argument written as keyword")
silent("C02", "masking-via-local", E(NG, "NgramVectorizer.transform", "        (token_sequences, _, _, _) = preprocess_token_sequences(\n            X, self._token_dictionary_, masking=self.mask_string,\n        )",
       "        mask = self.mask_string\n        (token_sequences, _, _, _) = preprocess_token_sequences(\n            X, self._token_dictionary_, masking=mask,\n        )"), "argument passed through a local")

# ------------------------------------------------------------------------------------------------ C03
fire("C03", "float32-pairs", "R3.1", E(PP, "preprocess_timed_token_sequences", "                        if token[0] in token_dictionary\n                    ],\n                    dtype=np.float64,", "                        if token[0] in token_dictionary\n                    ],\n                    dtype=np.float32,"), "revert of ccde30f (one branch)")
fire("C03", "reversal-order", "R3.2", E(BASE, "BaseCooccurrenceVectorizer.__init__", "self._window_reversals.extend([True, False])", "self._window_reversals.extend([False, True])"), "directional windows expanded in the other order")
fire("C03", "prefix-swap", "R3.2", E(BASE, "BaseCooccurrenceVectorizer._set_column_dicts", "                        \"pre_\"\n                        + str(i)\n                        + \"_\"\n                        + str(token): index\n                        + colonnade * len(self.token_label_dictionary_)\n                        for token, index in self.token_label_dictionary_.items()\n                    }\n                )\n                colonnade += 1\n                self.column_label_dictionary_.update(\n                    {\n                        \"post_\"",
     "                        \"post_\"\n                        + str(i)\n                        + \"_\"\n                        + str(token): index\n                        + colonnade * len(self.token_label_dictionary_)\n                        for token, index in self.token_label_dictionary_.items()\n                    }\n                )\n                colonnade += 1\n                self.column_label_dictionary_.update(\n                    {\n                        \"pre_\""), "column labels of the directional blocks swapped")
fire("C03", "kernel-param-order", "R3.3", E(WK, "geometric_kernel", "    normalize=False,\n    offset=0,\n    power=0.9,", "    offset=0,\n    normalize=False,\n    power=0.9,"), "offset moved before normalize in one kernel's signature")
fire("C03", "timed-args-order", "R3.3", E(TIMED, "TimedTokenCooccurrenceVectorizer._set_full_kernel_args", "                \"delta\": self.delta_mean_,\n                \"mask_index\": self._mask_index,", "                \"mask_index\": self._mask_index,\n                \"delta\": self.delta_mean_,"), "default argument dict re-ordered")
fire("C03", "window-unclamped", "R3.4", E(WK, "window_at_index", "token_sequence[max(ind - window_size, 0) : ind]", "token_sequence[ind - window_size : ind]"), "lower bound of the 'before' window no longer clamped")
silent("C03", "max-args-swapped", E(WK, "window_at_index", "max(ind - window_size, 0)", "max(0, ind - window_size)"), "max(0, x) instead of max(x, 0)")

# ------------------------------------------------------------------------------------------------ C04
fire("C04", "token-drop-rebind", "R4.1", E(TOK, "numba_build_skip_grams", "coo_data[i] = coo_append(coo_data[i], (row, col, val, key))", "coo_append(coo_data[i], (row, col, val, key))"), "same slip as the multiset kernel had, in the token kernel")
fire("C04", "multi-drop-rebind", "R4.1", E(MULTI, "numba_build_multi_skip_grams", "coo_data[i] = coo_append(coo_data[i], (row, col, val, key))", "coo_append(coo_data[i], (row, col, val, key))"), "revert of 016e2be")
fire("C04", "key-not-injective", "R4.2", E(NGC, "numba_build_skip_grams", "array_mul = n_windows * n_unique_tokens + 1", "array_mul = n_unique_tokens + 1"), "key multiplier too small for more than one window")
fire("C04", "chunk-slice-off", "R4.3", E(BASE, "BaseCooccurrenceVectorizer._build_token_cooccurrence_matrix", "dask.delayed(self._build_coo)(\n                    token_sequences=token_sequences[chunk_start:chunk_end],", "dask.delayed(self._build_coo)(\n                    token_sequences=token_sequences[chunk_start : chunk_end + 1],"), "chunks overlap by one document")
fire("C04", "boundary-gap", "R4.3", E(BASE, "BaseCooccurrenceVectorizer._generate_chunk_boundaries", "                last_chunk_end = chunk_index\n", "                last_chunk_end = chunk_index + 1\n"), "a document is dropped between chunks")
fire("C04", "helper-order", "R4.4", [E(BASE, m, "        self._set_full_kernel_args()\n\n        # Set the coo_array size\n        self._set_coo_sizes(token_sequences)\n",
     "        # Set the coo_array size\n        self._set_coo_sizes(token_sequences)\n\n        self._set_full_kernel_args()\n") for m in ("BaseCooccurrenceVectorizer.fit", "BaseCooccurrenceVectorizer.fit_transform")],
     "_set_coo_sizes (reads _full_kernel_args for large corpora) moved before _set_full_kernel_args in both copies")
silent("C04", "key-commuted", E(TOK, "numba_build_skip_grams", "key = col + array_mul * row", "key = array_mul * row + col"), "commuted sum")

# ------------------------------------------------------------------------------------------------ C05
fire("C05", "unsorted-vocab", "R5.1", E(PP, "construct_token_dictionary_and_frequency", "unique_tokens = sorted(list(set(token_sequence)))", "unique_tokens = list(set(token_sequence))"), "sorted() removed: indices follow hash order")
fire("C05", "skipgram-drops-constraint", "R5.2", E(SG, "SkipgramVectorizer.fit", "            min_document_occurrences=self.min_document_occurrences,\n", ""), "a constructor constraint never reaches preprocessing")
fire("C05", "preprocess-drops-forward", "R5.2", E(PP, "preprocess_token_sequences", "            max_unique_tokens=max_unique_tokens,\n", ""), "max_unique_tokens accepted but not forwarded to pruning")
fire("C05", "min-bound-inclusive", "R5.3", E(PP, "prune_token_dictionary", "token_frequencies < min_frequency", "token_frequencies <= min_frequency"), "token exactly on the lower bound pruned")
fire("C05", "topk-ties", "R5.3", E(PP, "prune_token_dictionary", "new_inds = new_token_frequency > freq", "new_inds = new_token_frequency >= freq"), "top-k keeps ties with a dropped token")
fire("C05", "prune-supplied-dict", "R5.4", E(PP, "preprocess_timed_token_sequences", "    if token_dictionary is None:\n        if {", "    if True:\n        if {"), "a supplied dictionary is pruned too")
silent("C05", "sorted-of-set", E(PP, "construct_token_dictionary_and_frequency", "sorted(list(set(token_sequence)))", "sorted(set(token_sequence))"), "sorted(set(..)) without the list()")

# ------------------------------------------------------------------------------------------------ C06
fire("C06", "add-inverse", "R6.1", E(NG, "NgramVectorizer.__add__", "        joint_vectorizer._inverse_token_dictionary_ = (\n            joint_vectorizer.column_index_dictionary_\n        )", "        joint_vectorizer._inverse_token_dictionary_ = (\n            joint_vectorizer.column_label_dictionary_\n        )"), "revert of 8f5187a")
fire("C06", "edgelist-index-dict", "R6.1", E(EL, "EdgeListVectorizer.fit", "        self.row_index_dictionary_ = {\n            y: x for (x, y) in self.row_label_dictionary_.items()\n        }", "        self.row_index_dictionary_ = {\n            x: y for (x, y) in self.row_label_dictionary_.items()\n        }"), "index dictionary built without flipping")
silent("C06", "flip-renamed", E(EL, "EdgeListVectorizer.fit", "            y: x for (x, y) in self.row_label_dictionary_.items()", "            index: label for (label, index) in self.row_label_dictionary_.items()"), "same flip with other variable names")

# ------------------------------------------------------------------------------------------------ C07
fire("C07", "arc-linearisation", "R7.1", E(LOT, "get_transport_plan", "arc = i * m + j", "arc = i * n + j"), "reader uses the row count as stride")
fire("C07", "cost-orientation", "R7.2", E(LOT, "lot_vectors_sparse_internal", "                        reference_vectors, row_vectors, dist=metric\n                    ).T", "                        reference_vectors, row_vectors, dist=metric\n                    )"), "transpose removed from one branch of the size test")
fire("C07", "demand-sign", "R7.3", E(LOT, "transport_plan", "initialize_supply(p, -q, graph, node_arc_data.supply)", "initialize_supply(p, q, graph, node_arc_data.supply)"), "demand enters with positive sign")
silent("C07", "arc-commuted", E(LOT, "get_transport_plan", "arc = i * m + j", "arc = j + m * i"), "commuted linearisation")

# ------------------------------------------------------------------------------------------------ C08
fire("C08", "no-normalisation", "R8.1", E(LOT, "lot_vectors_sparse_internal", "                row_distribution /= row_sum\n", "                pass\n"), "row weights no longer divided by their sum")
fire("C08", "block-size-zero", "R8.2", E(LOT, "WassersteinVectorizer.transform", "            lot_dimension = self.reference_vectors_.size\n            block_size = max(1, memory_size // (lot_dimension * 8))\n\n            n_rows = len(X)",
     "            lot_dimension = self.reference_vectors_.size\n            block_size = memory_size // (lot_dimension * 8)\n\n            n_rows = len(X)"), "revert of c72e7b2 (lil branch)")
fire("C08", "dense-kernel-diverges", "R8.3", E(LOT, "lot_vectors_dense_internal", "                    l2_normalize(tangent_vectors)\n", ""), "one sibling kernel loses a normalisation step")
fire("C08", "spherical", "R8.4", E(LOT, "WassersteinVectorizer.transform", "                    chunk_size=chunk_size,\n                    spherical_vectors=(metric == cosine),\n                )\n\n                result_blocks.append(block @ self.components_.T)\n\n            return np.vstack(result_blocks)",
     "                    chunk_size=chunk_size,\n                )\n\n                result_blocks.append(block @ self.components_.T)\n\n            return np.vstack(result_blocks)"), "revert of d484da7 (lil branch)")
silent("C08", "normalise-not-in-place", E(LOT, "lot_vectors_sparse_internal", "                row_distribution /= row_sum\n", "                row_distribution = row_distribution / row_sum\n"), "division written as an assignment")

# ------------------------------------------------------------------------------------------------ C09
_TAIL_NEW = "    if not skip_char and len_char_list > 0:\n        new_char_list[new_char_index] = char_list[len_char_list - 1]\n"
_TAIL_OLD = "    if not skip_char:\n        new_char_list[new_char_index] = char_list[i + 1]\n"
fire("C09", "contract-pair-tail", "R9.1", E(MG, "contract_pair", _TAIL_NEW, _TAIL_OLD), "revert of 88e198c (encoder)")
fire("C09", "contract-count-tail", "R9.1", E(MG, "contract_and_count_pairs", _TAIL_NEW, _TAIL_OLD), "revert of 88e198c (trainer)")
fire("C09", "decode-offset", "R9.2", E(MG, "to_unicode", "tokens[code - max_char_code - 1]", "tokens[code - max_char_code]"), "decode offset off by one")
fire("C09", "budget", "R9.3", E(MG, "bpe_train", "while len(tokens) < vocab_size:", "while len(tokens) <= vocab_size:"), "one token more than max_vocab_size can be learned")
fire("C09", "oor-mapping", "R9.4", E(MG, "bpe_encode", "compressed_chars[i] = code if code <= max_char_code else 0", "compressed_chars[i] = code"), "out-of-range characters no longer mapped to 0")

# ------------------------------------------------------------------------------------------------ C10
fire("C10", "contract-pair-tail", "R10.1", E(MG, "contract_pair", _TAIL_NEW, _TAIL_OLD), "revert of 88e198c")
fire("C10", "em-unguarded", "R10.2", E(COO, "em_update_matrix", "                    context_ind[i + win_offset[w]] < col_ind.shape[0]\n                    and col_ind[context_ind[i + win_offset[w]]]", "                    col_ind[context_ind[i + win_offset[w]]]"), "revert of 3194bb9")
fire("C10", "multi-drop-rebind", "R10.3", E(MULTI, "numba_build_multi_skip_grams", "coo_data[i] = coo_append(coo_data[i], (row, col, val, key))", "coo_append(coo_data[i], (row, col, val, key))"), "revert of 016e2be")
fire("C10", "pair-loop-bound", "R10.4", E(MG, "count_pairs", "for i in range(array.shape[0] - 1):", "for i in range(array.shape[0]):"), "array[i + 1] read one past the end")
fire("C10", "prange-shared-slot", "R10.5", E(MG, "bpe_encode_all", "encodings[i] = bpe_encode(strings[i], code_list, max_char_code)", "encodings[0] = bpe_encode(strings[i], code_list, max_char_code)"), "all prange iterations write the same slot")
silent("C10", "guard-len-form", E(COO, "em_update_matrix", "context_ind[i + win_offset[w]] < col_ind.shape[0]", "context_ind[i + win_offset[w]] < len(col_ind)"), "len(A) instead of A.shape[0] in the range guard")

# ------------------------------------------------------------------------------------------------ C11
fire("C11", "em-unguarded", "R11.1", E(COO, "em_update_matrix", "                    context_ind[i + win_offset[w]] < col_ind.shape[0]\n                    and col_ind[context_ind[i + win_offset[w]]]", "                    col_ind[context_ind[i + win_offset[w]]]"), "revert of 3194bb9")
fire("C11", "no-initial-threshold", "R11.2", E(BASE, "BaseCooccurrenceVectorizer._build_token_cooccurrence_matrix", "if self.n_iter > 0 or self.epsilon > 0:", "if self.n_iter > 0:"), "epsilon > 0 with n_iter = 0 no longer normalises / thresholds")
fire("C11", "threshold-before-normalise", "R11.2", E(BASE, "BaseCooccurrenceVectorizer._build_token_cooccurrence_matrix",
     "            cooccurrence_matrix.data = new_data\n            cooccurrence_matrix = normalize(\n                cooccurrence_matrix, axis=0, norm=\"l1\"\n            ).tocsr()\n            cooccurrence_matrix.data[cooccurrence_matrix.data < self.epsilon] = 0\n",
     "            cooccurrence_matrix.data = new_data\n            cooccurrence_matrix.data[cooccurrence_matrix.data < self.epsilon] = 0\n            cooccurrence_matrix = normalize(\n                cooccurrence_matrix, axis=0, norm=\"l1\"\n            ).tocsr()\n"), "thresholding done on unnormalised posteriors")
fire("C11", "em-without-mix-weights", "R11.3", E(TOK, "numba_em_cooccurrence_iteration", "mix_weights[i] * kernel_functions[i](windows[i], *kernel_args[i])", "kernel_functions[i](windows[i], *kernel_args[i])"), "EM kernel drops the mix weights the build kernel applies")
fire("C11", "em-other-row", "R11.3", E(NGC, "numba_em_cooccurrence_iteration", "                    n_unique_tokens,\n                    target_gram_ind,\n", "                    n_unique_tokens,\n                    w_i,\n"), "EM credits another row id than the build kernel")

# ------------------------------------------------------------------------------------------------ C12
fire("C12", "ngram-counter-hoisted", "R12.1", E(NG, "NgramVectorizer.transform", "        for sequence in token_sequences:\n            counter = {}\n", "        counter = {}\n        for sequence in token_sequences:\n"), "per-row counter created once: counts leak into later rows")
fire("C12", "lz-dict-hoisted", "R12.1", [E(MG, "LZCompressionVectorizer.transform", "        for string in X:\n", "        input_dict = numba.typed.Dict.empty(numba.types.unicode_type, numba.types.int64)\n        for string in X:\n"),
     E(MG, "LZCompressionVectorizer.transform", "            if self.max_columns is not None:\n                input_dict = numba.typed.Dict.empty(numba.types.int32, numba.types.int64)\n            else:\n                input_dict = numba.typed.Dict.empty(numba.types.unicode_type, numba.types.int64)\n", "            pass\n")],
     "parse dictionary no longer reset per string")
fire("C12", "dense-kernel-carry", "R12.1", E(LOT, "lot_vectors_dense_internal", "            row_sum = row_distribution.sum()\n", "            row_sum = row_distribution.sum() + (row_sum if i > chunk_start else 0.0)\n"), "row sum accumulates across rows of a chunk", allow_error=False)
fire("C12", "prange-shared-slot", "R12.2", E(MG, "bpe_encode_all", "encodings[i] = bpe_encode(strings[i], code_list, max_char_code)", "encodings[0] = bpe_encode(strings[i], code_list, max_char_code)"), "all prange iterations write the same slot")
fire("C12", "new-batch-coupling", "R12.3", E(LOT, "sinkhorn_vectors_sparse_internal", "        transport_images = transport_image_sets[batch]\n", "        transport_images = transport_image_sets[batch]\n        if np.any(transport_image_sets > 1e6):\n            break\n"), "a row's processing depends on the other rows of its batch")
silent("C12", "rename-accumulator", [E(NG, "NgramVectorizer.transform", "indptr", "row_ptr", count=8)], "accumulator renamed")

# ------------------------------------------------------------------------------------------------ C13
fire("C13", "transform-writes-input", "R13.1", E(IW, "InformationWeightTransformer.transform", "        result = X @ scipy.sparse.diags(self.information_weights_)\n", "        X.data[X.data < 0] = 0\n        result = X @ scipy.sparse.diags(self.information_weights_)\n"), "transform clamps its input in place")
fire("C13", "info-weight-inplace-sort", "R13.1", E(IW, "information_weight", "    if not csc_data.has_sorted_indices:\n        # sorted_indices() returns a sorted copy; tocsc() may have returned the caller's own matrix\n        csc_data = csc_data.sorted_indices()\n", "    csc_data.sort_indices()\n"), "revert of fc7c904")
fire("C13", "preprocess-mutates-dict", "R13.1", E(PP, "preprocess_multi_token_sequences", "        token_dictionary = dict(token_dictionary)\n", ""), "revert of b8bbb59 (multiset variant)")
fire("C13", "dense-kernel-inplace", "R13.1", E(LOT, "lot_vectors_dense_internal", "                row_distribution = row_distribution / row_sum\n", "                row_distribution /= row_sum\n"), "revert of 667dc29")
fire("C13", "rowdenoise-eliminate", "R13.1", E(RD, "RowDenoisingTransformer.fit", "            if X.count_nonzero() == 0:", "            X.eliminate_zeros()\n            if X.nnz == 0:"), "revert of 49b60cb")
fire("C13", "transform-carries-state", "R13.2", E(NG, "NgramVectorizer.transform", "        indptr = [0]\n", "        self._token_frequencies_ = self._token_frequencies_ * 0.5\n        indptr = [0]\n"), "transform reads and rewrites a fitted attribute")
fire("C13", "new-mkdtemp", "R13.3", E(LOT, "lot_vectors_sparse", "    singular_values = None\n    components = None\n", "    singular_values = None\n    components = None\n    scratch_dir = tempfile.mkdtemp(dir=cachedir)\n"), "a further temporary directory that is never released")
fire("C13", "unseeded-svd", "R13.4", E(LOT, "lot_vectors_dense", "            n_iter=n_svd_iter,\n            random_state=random_state,\n        )\n        result, components = svd_flip(u, v)", "            n_iter=n_svd_iter,\n        )\n        result, components = svd_flip(u, v)"), "randomized_svd without the estimator's random_state")
silent("C13", "copy-then-mutate", E(IW, "InformationWeightTransformer.transform", "        result = X @ scipy.sparse.diags(self.information_weights_)\n", "        X = X.copy()\n        X.data[X.data < 0] = 0\n        result = X @ scipy.sparse.diags(self.information_weights_)\n"), "mutation of a private copy")

# ------------------------------------------------------------------------------------------------ C14
fire("C14", "mask-appended-early", "R14.1", E(PP, "preprocess_token_sequences",
     "        if masking in token_dictionary:\n            del token_dictionary[masking]\n\n        for sequence in token_sequences:",
     "        if masking in token_dictionary:\n            del token_dictionary[masking]\n        token_dictionary[masking] = len(token_dictionary)\n\n        for sequence in token_sequences:"), "mask appended before the replacement code is evaluated (and again after)", allow_error=True)
fire("C14", "masking-branch-filters", "R14.2", E(PP, "preprocess_token_sequences", "                        else token_dictionary[token]\n                        for token in sequence\n                    ],", "                        else token_dictionary[token]\n                        for token in sequence\n                        if token != masking\n                    ],"), "masking branch drops tokens")
fire("C14", "kernel-forgets-mask", "R14.3", E(WK, "harmonic_kernel", "    if mask_index is not None:\n        result[window == mask_index] = 0.0\n", ""), "one registered kernel does not zero masked contexts")
fire("C14", "mask-index-from-dict", "R14.3", E(BASE, "BaseCooccurrenceVectorizer._set_mask_indices", "np.int32(len(self._token_frequencies_))", "np.int32(len(self.token_label_dictionary_))"), "mask index computed after the mask was appended (off by one)")
fire("C14", "one-sided-projector", "R14.4", E(TREE, "sequence_tree_skip_grams", "global_counts = (M.dot(global_counts)).dot(M)", "global_counts = M.dot(global_counts)"), "mask column not zeroed")
fire("C14", "ngram-masking", "R14.5", E(NG, "NgramVectorizer.transform", "X, self._token_dictionary_, masking=self.mask_string,", "X, self._token_dictionary_,"), "revert of 5940064")

# ------------------------------------------------------------------------------------------------ C16
fire("C16", "lz-dict-hoisted", "R16.1", [E(MG, "LZCompressionVectorizer.transform", "        for string in X:\n", "        input_dict = numba.typed.Dict.empty(numba.types.unicode_type, numba.types.int64)\n        for string in X:\n"),
     E(MG, "LZCompressionVectorizer.transform", "            if self.max_columns is not None:\n                input_dict = numba.typed.Dict.empty(numba.types.int32, numba.types.int64)\n            else:\n                input_dict = numba.typed.Dict.empty(numba.types.unicode_type, numba.types.int64)\n", "            pass\n")],
     "parse dictionary no longer reset per string", allow_error=True)
fire("C16", "lz-pointer", "R16.2", E(MG, "LZCompressionVectorizer.transform", "indptr.append(len(indices))", "indptr.append(indptr[-1] + len(encoding_dict))"), "revert of bb1fd4c")
fire("C16", "lz-unfitted-hash", "R16.3", E(MG, "LZCompressionVectorizer.transform", "self.hash_function_, self.max_dict_size", "self.hash_function, self.max_dict_size"), "transform uses the configured instead of the fitted hash function")
fire("C16", "seeding-differs", "R16.3", E(MG, "LZCompressionVectorizer.transform", "                    input_dict[key] = val\n", "                    input_dict[key] = 0\n"), "base dictionary counts dropped in transform only")
fire("C16", "transform-grows-columns", "R16.4", E(MG, "LZCompressionVectorizer.transform", "            for ngram in encoding_dict.keys():\n", "            counts_to_csr_data(encoding_dict, self.column_label_dictionary_)\n            for ngram in encoding_dict.keys():\n"), "transform assigns new columns")
fire("C16", "hash-not-reduced", "R16.5", E(MG, "make_hash.hash", "return raw_hash % size", "return raw_hash"), "hash no longer reduced modulo max_columns")

# ------------------------------------------------------------------------------------------------ C17
fire("C17", "no-sort", "R17.1", E(IW, "information_weight", "        csc_data = csc_data.sorted_indices()\n", "        pass\n"), "indices never sorted before the binary search")
fire("C17", "no-clamp", "R17.2", E(IW, "InformationWeightTransformer.fit", "            self.supervised_weights_ = np.maximum(self.supervised_weights_, 0.0)\n", ""), "negative weights reach np.power")
fire("C17", "transform-not-diagonal", "R17.3", E(IW, "InformationWeightTransformer.transform", "        result = X @ scipy.sparse.diags(self.information_weights_)\n", "        result = X @ scipy.sparse.diags(self.information_weights_) + X\n"), "transform is no longer a pure column scaling")
silent("C17", "always-sort-copy", E(IW, "information_weight", "    if not csc_data.has_sorted_indices:\n        # sorted_indices() returns a sorted copy; tocsc() may have returned the caller's own matrix\n        csc_data = csc_data.sorted_indices()\n", "    csc_data = csc_data.sorted_indices()\n"), "sort unconditionally")

# ------------------------------------------------------------------------------------------------ C18
fire("C18", "hellinger-unclamped", "R18.1", E(DIST, "hellinger", "np.sqrt(max(1 - result / np.sqrt(l1_norm_x * l1_norm_y), 0.0))", "np.sqrt(1 - result / np.sqrt(l1_norm_x * l1_norm_y))"), "revert of d1392f9")
fire("C18", "sparse-hellinger-unguarded", "R18.1", E(DIST, "sparse_hellinger", "    elif result > sqrt_norm_prod:\n        return 0.0\n", ""), "guard of the sparse variant removed")
fire("C18", "tail-positions", "R18.2", E(DIST, "sparse_sum", "result_ind[nnz] = ind1[i1]", "result_ind[nnz] = i1"), "revert of 8484287 (first tail)")
fire("C18", "zero-case-differs", "R18.3", E(DIST, "sparse_hellinger", "    elif norm1 == 0.0 or norm2 == 0.0:\n        return 1.0", "    elif norm1 == 0.0 or norm2 == 0.0:\n        return 0.0"), "sparse and dense disagree on a zero-mass input")
silent("C18", "np-maximum-clamp", E(DIST, "hellinger", "np.sqrt(max(1 - result / np.sqrt(l1_norm_x * l1_norm_y), 0.0))", "np.sqrt(np.maximum(1 - result / np.sqrt(l1_norm_x * l1_norm_y), 0.0))"), "np.maximum instead of max")

# ------------------------------------------------------------------------------------------------ C19
fire("C19", "int-sample", "R19.1", E(SW, "SlidingWindowTransformer.fit", "np.arange(0, self.window_width, self.window_sample)", "np.arange(self.window_width, self.window_sample)"), "revert of 56244b0")
fire("C19", "pair-sample", "R19.1", E(SW, "SlidingWindowTransformer.fit", "np.arange(start, self.window_width, stride)", "np.arange(stride, self.window_width, start)"), "start and stride swapped")
fire("C19", "floor-under-ceil", "R19.2", E(WK, "difference_kernel", "(n_cols - start - step) / stride", "(n_cols - start - step) // stride"), "revert of 0df4bf2")
fire("C19", "window-too-wide", "R19.3", E(SW, "sliding_windows", "result[i] = kernel(sequence[i * stride : i * stride + width][sample])", "result[i] = kernel(sequence[i * stride : i * stride + width + 1][sample])"), "window includes an out-of-window element")
silent("C19", "none-sample-explicit", E(SW, "SlidingWindowTransformer.fit", "self.window_sample_ = np.arange(self.window_width)", "self.window_sample_ = np.arange(0, self.window_width, 1)"), "explicit start and step")

# ------------------------------------------------------------------------------------------------ later additions
KDE = "vectorizers/kde_vectorizer.py"
fire("C01", "kde-width-from-input", "R1.6", E(KDE, "KDEVectorizer.transform", "np.empty((len(X), self.n_components), dtype=np.float64)", "np.empty((len(X), len(X[0])), dtype=np.float64)"), "dense result width taken from the input")
fire("C02", "cfc-other-norm", "R2.6", E(CFC, "CountFeatureCompressionTransformer.transform", "        normed_data = normalize(X)\n", "        normed_data = normalize(X, norm=\"l1\")\n"), "transform normalises with another norm than fit")
fire("C02", "wasserstein-other-power", "R2.6", E(LOT, "WassersteinVectorizer.transform", "np.array(X.sum(axis=1)), self.heuristic_normalization_power", "np.array(X.sum(axis=1)), self.reference_scale"), "transform rescales with another exponent than fit")
fire("C03", "after-window-short", "R3.5", E(WK, "window_at_index", "min(ind + window_size + 1, len(token_sequence))", "min(ind + window_size, len(token_sequence))"), "the window after the index is one token short")
fire("C03", "before-window-unflipped", "R3.5", E(WK, "window_at_index", "return np.flipud(token_sequence[max(ind - window_size, 0) : ind])", "return token_sequence[max(ind - window_size, 0) : ind]"), "the 'before' window is not nearest-first")
fire("C04", "trigger-diverges", "R4.5", E(COO, "coo_append", "    if coo.ind[0] == coo.key.shape[0] - 1:\n        coo_sum_duplicates(coo)\n        if (coo.key.shape[0] - np.abs(coo.min[0])) <= COO_QUICKSORT_LIMIT:\n            merge_all_sum_duplicates(coo)\n            if coo.ind[0] >= 0.95 * coo.key.shape[0]:",
     "    if coo.ind[0] == coo.key.shape[0] - 1:\n        coo_sum_duplicates(coo)\n        if (coo.key.shape[0] - np.abs(coo.min[0])) <= COO_QUICKSORT_LIMIT:\n            merge_all_sum_duplicates(coo)\n            if coo.ind[0] > 0.95 * coo.key.shape[0]:"), "one of the two duplicated flush triggers changed")
fire("C04", "full-trigger-late", "R4.5", E(COO, "coo_append", "    if coo.ind[0] == coo.key.shape[0] - 1:", "    if coo.ind[0] == coo.key.shape[0]:"), "buffer-full test fires one append too late")
fire("C04", "merge-copy-diverges", "R4.5", E(COO, "merge_sum_duplicates", "                    if coo.key[this_ptr] == result_key[result_ptr]:\n                        result_val[result_ptr] += coo.val[this_ptr]\n                    else:\n                        result_ptr += 1\n                        result_val[result_ptr] = coo.val[this_ptr]\n                        result_row[result_ptr] = coo.row[this_ptr]\n                        result_col[result_ptr] = coo.col[this_ptr]\n                        result_key[result_ptr] = coo.key[this_ptr]\n            else:",
     "                    if coo.key[this_ptr] == result_key[result_ptr]:\n                        result_val[result_ptr] = coo.val[this_ptr]\n                    else:\n                        result_ptr += 1\n                        result_val[result_ptr] = coo.val[this_ptr]\n                        result_row[result_ptr] = coo.row[this_ptr]\n                        result_col[result_ptr] = coo.col[this_ptr]\n                        result_key[result_ptr] = coo.key[this_ptr]\n            else:"), "one tail of the merge overwrites instead of summing duplicates")
fire("C05", "ngram-stage-drops-bound", "R5.2", E(NGC, "NgramCooccurrenceVectorizer._process_n_grams", "            max_unique_tokens=self.max_unique_tokens,\n", ""), "second-stage n-gram pruning forgets max_unique_tokens")
fire("C06", "ngram-guard-strict", "R6.3", E(NG, "ngrams_of", "if i + ngram_size <= len(sequence):", "if i + ngram_size < len(sequence):"), "the last n-gram of every document is dropped")
fire("C16", "cap-off-by-one", "R16.6", E(MG, "lempel_ziv_based_encode", "elif current_size >= max_size:", "elif current_size > max_size:"), "the dictionary can hold one phrase more than max_dict_size")
silent("C04", "trigger-ge", E(COO, "coo_append", "    if coo.ind[0] == coo.key.shape[0] - 1:", "    if coo.ind[0] >= coo.key.shape[0] - 1:"), ">= instead of == in the buffer-full test")

fire("C06", "skipgram-decode-dict-size", "R6.2", E(SG, "SkipgramVectorizer.fit", "n_encoded_tokens = len(self._window_sizes) - 1", "n_encoded_tokens = len(self._token_dictionary_)"), "revert of 54088bc")
silent("C06", "skipgram-decode-freq-len", E(SG, "SkipgramVectorizer.fit", "n_encoded_tokens = len(self._window_sizes) - 1", "n_encoded_tokens = len(self._token_frequencies_)"), "same number written through the frequency table (needs the derived length fact)")

fire("C01", "tree-blocks-swapped", "R1.7", E(TREE, "sequence_tree_skip_grams", "scipy.sparse.hstack([global_counts.T, global_counts])", "scipy.sparse.hstack([global_counts, global_counts.T])"), "directional blocks stacked in the other order than they are labelled")

silent("C04", "rename-key-locals", [E(TOK, "numba_build_skip_grams", "array_mul", "stride_of_rows", count=2), E(TOK, "numba_build_skip_grams", "key = col + stride_of_rows * row", "cell_key = col + stride_of_rows * row"),
                                     E(TOK, "numba_build_skip_grams", "(row, col, val, key)", "(row, col, val, cell_key)")], "locals of the key computation renamed")

fire("C04", "merge-key-float32", "R4.6", E(COO, "merge_sum_duplicates", "result_key = np.zeros(array_len)", "result_key = np.zeros(array_len, dtype=np.float32)"), "merge buffer for the cell keys narrowed to float32")
silent("C04", "merge-key-float64-explicit", E(COO, "merge_sum_duplicates", "result_key = np.zeros(array_len)", "result_key = np.zeros(array_len, dtype=np.float64)"), "explicit float64")

fire("C01", "chunk-skipped-on-data", "R1.8", E(LOT, "SinkhornVectorizer.transform", "                    col_sums = np.squeeze(np.array(raw_chunk.sum(axis=0)))\n", "                    col_sums = np.squeeze(np.array(raw_chunk.sum(axis=0)))\n                    if not np.any(col_sums > 0):\n                        continue\n"), "a chunk whose rows are all empty is skipped: its rows are missing from the result")
silent("C01", "empty-block-skip", E(LOT, "SinkhornVectorizer.transform", "                block_end = min(n_rows, block_start + block_size)\n", "                block_end = min(n_rows, block_start + block_size)\n                if block_start == block_end:\n                    continue\n"), "skipping an empty block loses no rows")
fire("C08", "sparse-kernel-shortcut", "R8.3", E(LOT, "lot_vectors_sparse_internal", "                current_transport_plan = transport_plan(\n                    row_distribution, reference_distribution, cost\n                )\n",
     "                if row_vectors.shape[0] == 1:\n                    current_transport_plan = reference_distribution.reshape(1, -1) * 1.0\n                else:\n                    current_transport_plan = transport_plan(\n                        row_distribution, reference_distribution, cost\n                    )\n"), "one sibling kernel gets a special case the other does not have")

fire("C03", "total-without-mix-weights", "R3.6", E(TOK, "numba_build_skip_grams", "sums = np.array([np.sum(ker) for ker in kernels])", "sums = np.array([float(len(w)) for w in windows])"), "window total counts window positions instead of summing the weighted kernels")
silent("C03", "total-accumulated-weighted", [E(TOK, "numba_build_skip_grams", "                sums = np.array([np.sum(ker) for ker in kernels])\n                total = np.sum(sums)\n", "                for i in range(n_windows):\n                    total += np.sum(mix_weights[i] * kernel_functions[i](windows[i], *kernel_args[i]))\n")], "total accumulated directly from mix-weighted kernels")
fire("C05", "bound-numpy-scalar", "R5.5", E(PP, "prune_token_dictionary", "            min_frequency = min_occurrences / total_tokens\n", "            min_frequency = np.clip(min_occurrences / total_tokens, 0.0, 1.0)\n"), "bound becomes a NumPy float64 scalar: comparison leaves float32")
silent("C05", "bound-float-of-numpy", E(PP, "prune_token_dictionary", "            min_frequency = min_occurrences / total_tokens\n", "            min_frequency = float(np.clip(min_occurrences / total_tokens, 0.0, 1.0))\n"), "float(...) brings the bound back to a Python scalar")
fire("C06", "add-mutates-left-operand", "R6.4", E(NG, "NgramVectorizer.__add__", "joint_column_index_dictionary = self.column_index_dictionary_.copy()", "joint_column_index_dictionary = self.column_index_dictionary_"), "the merged dictionary is built in the left operand's own dictionary")
fire("C13", "add-mutates-left-operand", "R13.1", E(NG, "NgramVectorizer.__add__", "joint_column_index_dictionary = self.column_index_dictionary_.copy()", "joint_column_index_dictionary = self.column_index_dictionary_"), "the merged dictionary is built in the left operand's own dictionary")

fire("C10", "em-clamped-position", "R10.2", E(COO, "em_update_matrix", "                context_ind[i + win_offset[w]] = np.searchsorted(\n                    col_ind, context + w * n_unique_tokens\n                )\n", "                context_ind[i + win_offset[w]] = min(np.searchsorted(\n                    col_ind, context + w * n_unique_tokens\n                ), col_ind.shape[0] - 1)\n"),
     "range test replaced by a clamp that is -1 for an empty row", allow_error=False)
fire("C12", "lz-shared-base-dict", "R12.1", [E(MG, "LZCompressionVectorizer.transform", "        for string in X:\n", "        shared = numba.typed.Dict.empty(numba.types.unicode_type, numba.types.int64)\n        for string in X:\n"),
     E(MG, "LZCompressionVectorizer.transform", "            if self.max_columns is not None:\n                input_dict = numba.typed.Dict.empty(numba.types.int32, numba.types.int64)\n            else:\n                input_dict = numba.typed.Dict.empty(numba.types.unicode_type, numba.types.int64)\n", "            input_dict = shared\n")],
     "every string parses into one shared dictionary object through a local alias")
fire("C14", "mask-radius-bumped", "R14.3", E(WK, "variable_window_radii", "    result[(result > 0) * (result < 1)] = 1.0\n", "    result[result < 1] = 1.0\n"), "the zeroed radius of the mask token is raised to 1 again")

fire("C09", "token-without-pair", "R9.5", E(MG, "bpe_train", "            code_list.append(pair_to_replace)\n", ""), "the merge list misses a pair that has a token", allow_error=True)
fire("C09", "replay-configured-limit", "R9.5", E(MG, "BytePairEncodingVectorizer.transform", "bpe_encode_all(X, self.code_list_, self.max_char_code_)", "bpe_encode_all(X, self.code_list_, _named_limit_to_max_char_code(self.max_char_code))"), "transform replays with the configured instead of the fitted character limit")
fire("C11", "posterior-offset-next-row", "R11.4", E(COO, "em_update_matrix", "                posterior_data[\n                    prior_indptr[target_gram_ind] + context_ind[i + win_offset[w]]\n                ] += val", "                posterior_data[\n                    prior_indptr[target_gram_ind + 1] + context_ind[i + win_offset[w]]\n                ] += val"), "posterior mass written relative to the next row's start")

fire("C18", "js-asymmetric-mixture", "R18.4", E(DIST, "jensen_shannon_divergence", "m = 0.5 * (pdf_x + pdf_y)", "m = 0.5 * pdf_x + 0.5 * pdf_x"), "the mixture uses one argument twice")
fire("C18", "tv-one-sided-normalisation", "R18.4", E(DIST, "total_variation", "    y_pdf = y / y_sum\n", "    y_pdf = y / x_sum\n"), "second argument normalised by the first argument's mass")
fire("C18", "symkl-drops-term", "R18.4", E(DIST, "symmetric_kl_divergence", "        result += pdf_x[i] * np.log(pdf_x[i] / pdf_y[i]) + pdf_y[i] * np.log(\n            pdf_y[i] / pdf_x[i]\n        )", "        result += pdf_x[i] * np.log(pdf_x[i] / pdf_y[i])"), "only one direction of the KL divergence is summed")
silent("C18", "hellinger-commuted", E(DIST, "hellinger", "result += np.sqrt(x[i] * y[i])", "result += np.sqrt(y[i] * x[i])"), "commuted product")

_EM_OLD1 = '    col_ind = prior_indices[\n        prior_indptr[target_gram_ind] : prior_indptr[target_gram_ind + 1]\n    ]\n'
_EM_NEW1 = '    row_start = prior_indptr[target_gram_ind]\n    row_end = prior_indptr[target_gram_ind + 1]\n    col_ind = prior_indices[row_start:row_end]\n'
_EM_OLD2 = '                context_ind[i + win_offset[w]] = np.searchsorted(\n                    col_ind, context + w * n_unique_tokens\n                )\n                # assert(col_ind[context_ind[i + win_offset[w]]] == context+w * n_unique_tokens)\n                if (\n                    context_ind[i + win_offset[w]] < col_ind.shape[0]\n                    and col_ind[context_ind[i + win_offset[w]]]\n                    == context + w * n_unique_tokens\n                ):\n                    window_posterior[i + win_offset[w]] = (\n                        kernels[w][i]\n                        * prior_data[\n                            prior_indptr[target_gram_ind]\n                            + context_ind[i + win_offset[w]]\n                        ]\n                    )\n'
_EM_NEW2_OK = '                col = context + w * n_unique_tokens\n                ind = row_start + np.searchsorted(col_ind, col)\n                context_ind[i + win_offset[w]] = ind\n                if ind < row_end and prior_indices[ind] == col:\n                    window_posterior[i + win_offset[w]] = (\n                        kernels[w][i] * prior_data[ind]\n                    )\n'
_EM_NEW2_BAD = '                col = context + w * n_unique_tokens\n                ind = row_start + np.searchsorted(col_ind, col)\n                context_ind[i + win_offset[w]] = ind\n                if ind < prior_indices.shape[0] and prior_indices[ind] == col:\n                    window_posterior[i + win_offset[w]] = (\n                        kernels[w][i] * prior_data[ind]\n                    )\n'
_EM_OLD3 = '                posterior_data[\n                    prior_indptr[target_gram_ind] + context_ind[i + win_offset[w]]\n                ] += val\n'
_EM_NEW3 = '                posterior_data[context_ind[i + win_offset[w]]] += val\n'
for _p, _r in (("C10", "R10.2"), ("C11", "R11.1")):
    fire(_p, "em-global-position-whole-array-bound", _r, [E(COO, "em_update_matrix", _EM_OLD1, _EM_NEW1), E(COO, "em_update_matrix", _EM_OLD2, _EM_NEW2_BAD), E(COO, "em_update_matrix", _EM_OLD3, _EM_NEW3)],
         "position kept in whole-array coordinates and bounded by the whole array instead of the row")
    silent(_p, "em-global-position-row-bound", [E(COO, "em_update_matrix", _EM_OLD1, _EM_NEW1), E(COO, "em_update_matrix", _EM_OLD2, _EM_NEW2_OK), E(COO, "em_update_matrix", _EM_OLD3, _EM_NEW3)],
           "the same refactoring with the correct row-local bound")
fire("C09", "encoder-vectorised-differently", "R9.6", E(MG, "contract_pair", "        if skip_char:\n            skip_char = False\n            continue\n", "        if skip_char:\n            skip_char = False\n"), "the encoder no longer skips the second half of a contracted pair the way the trainer does", allow_error=True)

VARIANTS = V

# --- C17 / C10: the exact-prior kernel (seeded C17)
_IW_LOOP_OLD = """    count_indices_set = set(count_indices)
    for i in range(baseline_probabilities.shape[0]):
        if i in count_indices_set:
            idx = np.searchsorted(count_indices, i)
            observed_probability = (
                count_data[idx] + prior_strength * baseline_probabilities[i]
            ) / observed_norm
            if observed_probability > 0.0:
                result += observed_probability * np.log(
                    observed_probability / baseline_probabilities[i]
                )
        else:
            result += baseline_probabilities[i] * observed_zero_constant
"""
_IW_LOOP_NNZ = """    unobserved_mass = 1.0
    for i in range(count_indices.shape[0]):
        idx = count_indices[i]
        unobserved_mass -= baseline_probabilities[idx]
        observed_probability = (
            count_data[i] + prior_strength * baseline_probabilities[idx]
        ) / observed_norm
        if %s:
            result += observed_probability * np.log(
                observed_probability / baseline_probabilities[idx]
            )
    result += unobserved_mass * observed_zero_constant
"""
fire("C17", "term-skipped-on-raw-count", "R17.5", E(IW, "column_kl_divergence_exact_prior", "            if observed_probability > 0.0:", "            if count_data[idx] > 0.0:"),
     "a stored zero count loses its prior mass term")
fire("C17", "nnz-walk-skips-stored-zeros", "R17.5", E(IW, "column_kl_divergence_exact_prior", _IW_LOOP_OLD, _IW_LOOP_NNZ % "count_data[i] > 0.0"),
     "seeded C17: O(nnz) rewrite that subtracts the baseline mass of every stored entry but adds the term only for positive counts")
silent("C17", "nnz-walk-correct", E(IW, "column_kl_divergence_exact_prior", _IW_LOOP_OLD, _IW_LOOP_NNZ % "observed_probability > 0.0"),
       "the same O(nnz) rewrite done right")
silent("C10", "iw-nnz-walk-correct", E(IW, "column_kl_divergence_exact_prior", _IW_LOOP_OLD, _IW_LOOP_NNZ % "observed_probability > 0.0"),
       "the exact-prior kernel without a binary search: nothing to guard, no anchor lost")
fire("C17", "membership-guard-dropped", "R17.4", E(IW, "column_kl_divergence_exact_prior", "        if i in count_indices_set:", "        if i >= 0:"),
     "the binary-search position is used for rows that have no stored entry")
fire("C10", "iw-membership-guard-dropped", "R10.2", E(IW, "column_kl_divergence_exact_prior", "        if i in count_indices_set:", "        if i >= 0:"),
     "the binary-search position is used for rows that have no stored entry")
silent("C17", "membership-inline-set", [E(IW, "column_kl_divergence_exact_prior", "    count_indices_set = set(count_indices)\n", ""),
                                       E(IW, "column_kl_divergence_exact_prior", "        if i in count_indices_set:", "        if i in set(count_indices):")],
       "membership test written in place")

# --- C18: value buffers of the sparse helpers (seeded C18)
fire("C18", "sum-buffer-borrows-dtype", "R18.5", E(DIST, "sparse_sum", "result_data = np.zeros(result_ind.shape[0], dtype=np.float32)", "result_data = np.zeros(result_ind.shape[0], dtype=data1.dtype)"),
     "seeded C18: an integer first operand truncates the sums")
fire("C18", "mul-buffer-borrows-dtype", "R18.5", E(DIST, "sparse_mul", "result_data = np.zeros(result_ind.shape[0], dtype=np.float32)", "result_data = np.zeros(result_ind.shape[0], dtype=data2.dtype)"),
     "an integer second operand truncates the products")
silent("C18", "union-buffers-own-dtype", [E(DIST, "dense_union", "result_data1 = np.zeros(result_ind.shape[0], dtype=np.float32)", "result_data1 = np.zeros(result_ind.shape[0], dtype=data1.dtype)"),
                                         E(DIST, "dense_union", "result_data2 = np.zeros(result_ind.shape[0], dtype=np.float32)", "result_data2 = np.zeros(result_ind.shape[0], dtype=data2.dtype)")],
       "each buffer of dense_union holds one operand's values only: borrowing that operand's dtype loses nothing")
silent("C18", "sum-buffer-float64", E(DIST, "sparse_sum", "result_data = np.zeros(result_ind.shape[0], dtype=np.float32)", "result_data = np.zeros(result_ind.shape[0], dtype=np.float64)"),
       "a wider floating buffer")

# --- C19: sampled positions taken in one step (seeded C19)
fire("C19", "sampled-window-offset-i", "R19.3", E(SW, "sliding_windows", "result[i] = kernel(sequence[i * stride : i * stride + width][sample])", "result[i] = kernel(sequence[sample + i])"),
     "seeded C19: the offset is the window number, not the window start")
silent("C19", "sampled-window-one-step", E(SW, "sliding_windows", "result[i] = kernel(sequence[i * stride : i * stride + width][sample])", "result[i] = kernel(sequence[sample + i * stride])"),
       "the same optimisation done right")
silent("C19", "sampled-window-one-step-commuted", E(SW, "sliding_windows", "result[i] = kernel(sequence[i * stride : i * stride + width][sample])", "result[i] = kernel(sequence[stride * i + sample])"),
       "the same, operands commuted")

# --- C07: what the solver is handed (seeded C07)
fire("C07", "cost-rescaled-unguarded", "R7.4", E(LOT, "transport_plan", "    initialize_cost(cost, graph, node_arc_data.cost)", "    initialize_cost(cost / cost.max(), graph, node_arc_data.cost)"),
     "seeded C07: an all-zero cost matrix becomes NaN")
fire("C07", "cost-rescaled-unguarded-local", "R7.4", E(LOT, "transport_plan", "    initialize_cost(cost, graph, node_arc_data.cost)", "    scale = cost.sum()\n    cost = cost / scale\n    initialize_cost(cost, graph, node_arc_data.cost)"),
     "the same through locals")
silent("C07", "cost-rescaled-guarded", E(LOT, "transport_plan", "    initialize_cost(cost, graph, node_arc_data.cost)", "    scale = cost.max()\n    if scale > 0.0:\n        cost = cost / scale\n    initialize_cost(cost, graph, node_arc_data.cost)"),
       "rescaling under a non-zero test of the scale")
silent("C07", "cost-halved", E(LOT, "transport_plan", "    initialize_cost(cost, graph, node_arc_data.cost)", "    initialize_cost(cost / 2.0, graph, node_arc_data.cost)"),
       "division by a non-zero constant")

# --- C19: difference kernel content
fire("C19", "difference-sign-swapped", "R19.4", [E(WK, "difference_kernel", "result[i, start + i * stride] = -1", "result[i, start + i * stride] = 1"),
                                                E(WK, "difference_kernel", "result[i, start + i * stride + step] = 1", "result[i, start + i * stride + step] = -1")],
     "x[c] - x[c + step] instead of x[c + step] - x[c]", allow_error=True)
fire("C19", "difference-gap-is-stride", "R19.4", E(WK, "difference_kernel", "result[i, start + i * stride + step] = 1", "result[i, start + i * stride + stride] = 1"),
     "gap between the two entries is the stride, not the step")
fire("C19", "difference-transformer-width", "R19.4", E(SW, "SequentialDifferenceTransformer.fit", "window_width=self.stride + 1,", "window_width=self.stride,"),
     "window too narrow for a difference over `stride` positions")
silent("C19", "difference-commuted", E(WK, "difference_kernel", "result[i, start + i * stride + step] = 1", "result[i, step + stride * i + start] = 1"), "same column, operands commuted")

# --- C08: definite assignment over the format / reference dispatch (found by R8.5, repaired in 85bd1b1)
fire("C08", "block-size-unassigned-wasserstein", "R8.5", E(LOT, "WassersteinVectorizer.fit", "                    self.reference_vectors_ = reference_vectors\n                    lot_dimension = self.reference_vectors_.size\n                    block_size = max(1, memory_size // (lot_dimension * 8))\n", "                    self.reference_vectors_ = reference_vectors\n"),
     "revert of 85bd1b1 (WassersteinVectorizer)")
fire("C08", "block-size-unassigned-sinkhorn", "R8.5", E(LOT, "SinkhornVectorizer.fit", "                self.reference_vectors_ = reference_vectors\n                lot_dimension = self.reference_vectors_.size\n                block_size = max(1, memory_size // (lot_dimension * 8))\n", "                self.reference_vectors_ = reference_vectors\n"),
     "revert of 85bd1b1 (SinkhornVectorizer)")

# --- C01: the validity mask moved into a helper (seeded r2_C01)
_EL_HELPER = '''    def _valid_edges(self, edge_list):
        if %s:
            valid_rows = np.repeat(True, edge_list.shape[0])
        else:
            valid_rows = np.isin(edge_list[:, 0], list(self.row_label_dictionary_.keys()))
        valid_cols = np.isin(edge_list[:, 1], list(self.column_label_dictionary_.keys()))
        return valid_rows & valid_cols

    def fit(self, X, y=None, **fit_params):
'''
_EL_TR_OLD = '''        valid_rows = np.isin(edge_list[:, 0], list(self.row_label_dictionary_.keys()))
        valid_cols = np.isin(
            edge_list[:, 1], list(self.column_label_dictionary_.keys())
        )
        valid_edges = valid_rows & valid_cols
'''
fire("C01", "edgelist-mask-helper-keeps-fit-shortcut", "R1.4",
     [E(EL, "EdgeListVectorizer", "    def fit(self, X, y=None, **fit_params):\n", _EL_HELPER % "self.row_label_dictionary is None"),
      E(EL, "EdgeListVectorizer.transform", _EL_TR_OLD, "        valid_edges = self._valid_edges(edge_list)\n")],
     "seeded r2_C01: the shared helper skips the row filter when the dictionary was learned - valid for the training edges only")
silent("C01", "edgelist-mask-helper", 
       [E(EL, "EdgeListVectorizer", "    def fit(self, X, y=None, **fit_params):\n",
          "    def _valid_edges(self, edge_list):\n        valid_rows = np.isin(edge_list[:, 0], list(self.row_label_dictionary_.keys()))\n"
          "        valid_cols = np.isin(edge_list[:, 1], list(self.column_label_dictionary_.keys()))\n        return valid_rows & valid_cols\n\n"
          "    def fit(self, X, y=None, **fit_params):\n"),
        E(EL, "EdgeListVectorizer.transform", _EL_TR_OLD, "        valid_edges = self._valid_edges(edge_list)\n")],
       "the same de-duplication with a helper that always filters")

# --- C06 / C02: the duplicated n-gram look-up loop (seeded r2_C02; R6.5 known finding)
silent("C06", "subgram-keys-repaired", [E(NG, "NgramVectorizer.fit", "                    if len(index_gram) == 1:", "                    if self.ngram_size == 1:"),
                                       E(NG, "NgramVectorizer.transform", "                    if len(index_gram) == 1:", "                    if self.ngram_size == 1:")],
       "the repair of the known finding R6.5 (both copies): nothing new may be reported")
silent("C02", "subgram-keys-repaired", [E(NG, "NgramVectorizer.fit", "                    if len(index_gram) == 1:", "                    if self.ngram_size == 1:"),
                                       E(NG, "NgramVectorizer.transform", "                    if len(index_gram) == 1:", "                    if self.ngram_size == 1:")],
       "both copies of the look-up loop changed alike")
fire("C02", "subgram-keys-transform-only", "R2.8", E(NG, "NgramVectorizer.transform", "                    if len(index_gram) == 1:", "                    if self.ngram_size == 1:"),
     "seeded r2_C02: only the transform copy changed - fit drops the unigrams of subgrams mode, transform counts them")
fire("C02", "lookup-loop-fit-only", "R2.8", E(NG, "NgramVectorizer.fit", "                    if not (self.nullify_mask and col_index is self._mask_ngram_index):", "                    if not self.nullify_mask:"),
     "only the fit copy changed")

# --- C13 / C03: refit carries state (seeded r2_C03)
fire("C13", "delta-mean-not-reset", "R13.5", E(TIMED, "TimedTokenCooccurrenceVectorizer._set_additional_params", "        self.delta_mean_ = 0.0\n", ""),
     "seeded r2_C03: the accumulator is initialised in __init__ only")
fire("C03", "delta-mean-not-reset", "R3.7", E(TIMED, "TimedTokenCooccurrenceVectorizer._set_additional_params", "        self.delta_mean_ = 0.0\n", ""),
     "seeded r2_C03: the second fit's mean gap includes the first fit's")
silent("C13", "delta-mean-local-accumulator", [E(TIMED, "TimedTokenCooccurrenceVectorizer._set_additional_params", "        self.delta_mean_ = 0.0\n", "        gap_sum = 0.0\n"),
                                              E(TIMED, "TimedTokenCooccurrenceVectorizer._set_additional_params", "self.delta_mean_ += ", "gap_sum += "),
                                              E(TIMED, "TimedTokenCooccurrenceVectorizer._set_additional_params", "self.delta_mean_ /= total_t", "self.delta_mean_ = gap_sum / total_t")],
       "the accumulator as a local, the attribute assigned once")

# --- C04: chunk boundaries kept in an attribute (seeded r2_C04)
_CB_OLD = """                for chunk_start, chunk_end in self._generate_chunk_boundaries(
                    token_sequences, self.n_threads
                )
"""
_CB_NEW = "                for chunk_start, chunk_end in self._chunk_boundaries\n"
_CB_OLD2 = """                    for chunk_start, chunk_end in self._generate_chunk_boundaries(
                        token_sequences, self.n_threads
                    )
"""
_CB_NEW2 = "                    for chunk_start, chunk_end in self._chunk_boundaries\n"
_CB_SET = """        self._set_coo_sizes(token_sequences)
        if self.n_threads > 1:
            self._chunk_boundaries = self._generate_chunk_boundaries(
                token_sequences, self.n_threads
            )
"""
_CB_BUILD = [E(BASE, "BaseCooccurrenceVectorizer._build_token_cooccurrence_matrix", _CB_OLD, _CB_NEW),
             E(BASE, "BaseCooccurrenceVectorizer._build_token_cooccurrence_matrix", _CB_OLD2, _CB_NEW2),
             E(BASE, "BaseCooccurrenceVectorizer.fit", "        self._set_coo_sizes(token_sequences)\n", _CB_SET),
             E(BASE, "BaseCooccurrenceVectorizer.fit_transform", "        self._set_coo_sizes(token_sequences)\n", _CB_SET)]
fire("C04", "chunk-boundaries-stored-by-fit-only", "R4.3", _CB_BUILD,
     "seeded r2_C04: transform slices its corpus with the boundaries of the training corpus")
silent("C04", "chunk-boundaries-stored-by-every-entry", _CB_BUILD + [
    E(BASE, "BaseCooccurrenceVectorizer.transform", "        cooccurrences_ = self._build_token_cooccurrence_matrix(\n",
      "        if self.n_threads > 1:\n            self._chunk_boundaries = self._generate_chunk_boundaries(\n                token_sequences, self.n_threads\n            )\n        cooccurrences_ = self._build_token_cooccurrence_matrix(\n")],
       "the same hoist with transform regenerating the boundaries for its own corpus")

# --- round 2: C06 skip-gram list, C05 frequency tables, C09/C10 placeholder lists
fire("C06", "skipgram-seed-entry-skipped", "R6.6", E(SG, "skip_grams_matrix_coo_data", "        for i, skip_gram in enumerate(skip_gram_data):", "        for skip_gram in skip_gram_data[1:]:"),
     "seeded r2_C06: the seed entry has been merged with the real (0, 0) pairs; skipping it drops their weight")
silent("C06", "skipgram-loop-without-enumerate", E(SG, "skip_grams_matrix_coo_data", "        for i, skip_gram in enumerate(skip_gram_data):", "        for skip_gram in skip_gram_data:"),
       "the unused counter dropped, the whole list still iterated")
fire("C05", "docfreq-sum-of-fractions", "R5.6", [E(PP, "construct_document_frequency", "    doc_freq = np.zeros(n_tokens)\n", "    doc_freq = np.zeros(n_tokens)\n    doc_weight = 1.0 / len(token_by_doc_sequence)\n"),
                                                E(PP, "construct_document_frequency", "        doc_freq += np.bincount(\n            [token_dictionary[token] for token in set(doc)], minlength=n_tokens\n        )\n",
                                                  "        doc_freq[[token_dictionary[token] for token in set(doc)]] += doc_weight\n"),
                                                E(PP, "construct_document_frequency", "    return doc_freq / len(token_by_doc_sequence)", "    return doc_freq")],
     "seeded r2_C05: k copies of 1/n are not k/n")
silent("C05", "docfreq-count-then-divide", [E(PP, "construct_document_frequency", "        doc_freq += np.bincount(\n            [token_dictionary[token] for token in set(doc)], minlength=n_tokens\n        )\n",
                                              "        doc_freq[[token_dictionary[token] for token in set(doc)]] += 1\n")],
       "the same optimisation counting integers and dividing once")
fire("C09", "bpe-empty-string-keeps-placeholder", "R9.7", E(MG, "bpe_encode_all", "        encodings[i] = bpe_encode(strings[i], code_list, max_char_code)\n", "        if len(strings[i]) > 0:\n            encodings[i] = bpe_encode(strings[i], code_list, max_char_code)\n"),
     "seeded r2_C09: an empty string keeps the uninitialised one-element placeholder")
fire("C10", "bpe-empty-string-keeps-placeholder", "R10.6", E(MG, "bpe_encode_all", "        encodings[i] = bpe_encode(strings[i], code_list, max_char_code)\n", "        if len(strings[i]) > 0:\n            encodings[i] = bpe_encode(strings[i], code_list, max_char_code)\n"),
     "seeded r2_C09")
silent("C09", "bpe-empty-string-explicit", E(MG, "bpe_encode_all", "        encodings[i] = bpe_encode(strings[i], code_list, max_char_code)\n", "        if len(strings[i]) > 0:\n            encodings[i] = bpe_encode(strings[i], code_list, max_char_code)\n        else:\n            encodings[i] = np.zeros(0, dtype=np.int64)\n"),
       "both arms store the slot")

# --- C10: merge-loop cursors (from the mutation smoke test)
fire("C10", "merge-cursor-nonstrict", "R10.7", E(DIST, "dense_union", "    while i1 < ind1.shape[0] and i2 < ind2.shape[0]:", "    while i1 < ind1.shape[0] and i2 <= ind2.shape[0]:"),
     "the last iteration reads ind2[len(ind2)]")
fire("C10", "merge-cursor-unbounded", "R10.7", E(DIST, "sparse_mul", "    while i1 < ind1.shape[0] and i2 < ind2.shape[0]:", "    while i1 < ind1.shape[0]:"),
     "i2 runs past the shorter input")
silent("C10", "merge-cursor-len", E(DIST, "sparse_sum", "    while i1 < ind1.shape[0] and i2 < ind2.shape[0]:", "    while len(ind2) > i2 and i1 < len(ind1):"),
       "same bounds spelled with len() and the other way round")

# --- C03: orientation dispatch evaluated, not pattern-matched (from the mutation smoke test)
fire("C03", "orientation-test-negated", "R3.2", E(BASE, "BaseCooccurrenceVectorizer.__init__", '            elif w == "before":', '            elif w != "before":'),
     "'after' takes the 'before' arm")
silent("C03", "orientation-test-membership", E(BASE, "BaseCooccurrenceVectorizer.__init__", '            elif w == "before":', '            elif w in ("before",):'),
       "the same dispatch written as a membership test")
fire("C03", "radii-expansion-negated", "R3.8", E(BASE, "BaseCooccurrenceVectorizer.__init__", '            self._window_radii.append(radius)\n            if self.window_orientations[i] == "directional":', '            self._window_radii.append(radius)\n            if self.window_orientations[i] != "directional":'),
     "a plain orientation gets two radii, a directional one only one")
fire("C03", "kernel-args-expansion-dropped", "R3.8", E(BASE, "BaseCooccurrenceVectorizer.__init__", '                self._kernel_args.append(args)\n                if self.window_orientations[i] == "directional":\n                    self._kernel_args.append(args)\n', '                self._kernel_args.append(args)\n'),
     "directional windows share one kernel-args entry: later windows shift", allow_error=True)

# --- C01: CSR data / indices lockstep (from the mutation smoke test)
fire("C01", "bpe-data-not-extended", "R1.2b", E(MG, "BytePairEncodingVectorizer.transform", "                data.extend([1 for i in range(len(row_indices))])\n", ""),
     "indices grow, data does not: the constructor raises on every transform")
silent("C01", "bpe-data-ones", E(MG, "BytePairEncodingVectorizer.transform", "                data.extend([1 for i in range(len(row_indices))])\n", "                data.extend([1] * len(row_indices))\n"),
       "the same ones written as a repeated list")

# --- C08: number of blocks (seeded r2_C08)
_NB = "            n_rows = X.indptr.shape[0] - 1\n            n_blocks = (n_rows // block_size) + 1\n"
fire("C08", "last-partial-block-dropped", "R8.2", E(LOT, "WassersteinVectorizer.transform", _NB, "            n_rows = X.indptr.shape[0] - 1\n            n_blocks = max(1, n_rows // block_size)\n"),
     "seeded r2_C08: the rows of the last partial block are never embedded")
silent("C08", "block-count-ceil", E(LOT, "WassersteinVectorizer.transform", _NB, "            n_rows = X.indptr.shape[0] - 1\n            n_blocks = (n_rows + block_size - 1) // block_size\n"),
       "exact number of blocks")
silent("C08", "block-count-np-ceil", E(LOT, "WassersteinVectorizer.transform", _NB, "            n_rows = X.indptr.shape[0] - 1\n            n_blocks = int(np.ceil(n_rows / block_size))\n"),
       "exact number of blocks through np.ceil")

# --- C12 / C08 / C01: preallocated result filled by block slices (the correct half of seeded r2_C08)
_PRE = [E(LOT, "WassersteinVectorizer.transform", "            n_blocks = (n_rows // block_size) + 1\n\n            result_blocks = []\n            if self.method == \"LOT_exact\":\n                chunk_size = max(256, block_size // 64)\n\n                for i in range(n_blocks):",
          "            n_blocks = (n_rows // block_size) + 1\n\n            result = np.zeros((n_rows, self.components_.shape[0]), dtype=np.float64)\n            if self.method == \"LOT_exact\":\n                chunk_size = max(256, block_size // 64)\n\n                for i in range(n_blocks):"),
        E(LOT, "WassersteinVectorizer.transform", "                    result_blocks.append(block @ self.components_.T)\n", "                    result[block_start:block_end] = block @ self.components_.T\n", count=2),
        E(LOT, "WassersteinVectorizer.transform", "                    result[block_start:block_end] = block @ self.components_.T\n            return np.vstack(result_blocks)\n", "                    result[block_start:block_end] = block @ self.components_.T\n            return result\n")]
for _p in ("C12", "C08", "C01", "C02", "C13"):
    silent(_p, "preallocated-result-block-slices", _PRE, "result preallocated and filled block by block through slices bounded by the block (behaviour-preserving)")

# --- C15: structural clauses of the labelled-tree vectorizer
fire("C15", "before-not-transposed", "R15.1", E(TREE, "sequence_tree_skip_grams", '        global_counts = global_counts.T\n', '        pass\n'), "'before' returns the 'after' matrix")
fire("C15", "directional-blocks-swapped", "R15.1", E(TREE, "sequence_tree_skip_grams", "scipy.sparse.hstack([global_counts.T, global_counts])", "scipy.sparse.hstack([global_counts, global_counts.T])"),
     "post block first, labels say pre first")
fire("C15", "symmetric-doubles", "R15.1", E(TREE, "sequence_tree_skip_grams", "        global_counts += global_counts.T\n", "        global_counts += global_counts\n"), "symmetric is 2M, not M + M^T")
fire("C15", "orientation-test-negated", "R15.1", E(TREE, "sequence_tree_skip_grams", '    elif window_orientation == "after":', '    elif window_orientation != "after":'), "'directional' takes the 'after' arm")
fire("C15", "walk-added-before-step", "R15.2", E(TREE, "build_tree_skip_grams", "        walk = walk @ adjacency_matrix\n        count_matrix += walk * weights[i]\n", "        count_matrix += walk * weights[i]\n        walk = walk @ adjacency_matrix\n"),
     "the k-step walks get the (k+1)-th weight")
fire("C15", "walk-loop-from-zero", "R15.2", E(TREE, "build_tree_skip_grams", "    for i in range(1, window_size):", "    for i in range(window_size):"), "one step too many, weight 0 used twice")
fire("C15", "relabel-cols-from-row", "R15.3", E(TREE, "sequence_tree_skip_grams", "        cols = [label_dictionary[unique_labels[x]] for x in count_matrix.col]", "        cols = [label_dictionary[unique_labels[x]] for x in count_matrix.row]"),
     "columns re-indexed from the row ids")
fire("C15", "counts-overwritten", "R15.3", E(TREE, "sequence_tree_skip_grams", "        global_counts += reordered_matrix\n", "        global_counts = reordered_matrix\n"), "only the last tree counts")
fire("C15", "splice-data-shifted", "R15.4", E(PP, "remove_node", "                adj.data[i][index_to_modify : index_to_modify + 1] = data_to_remove", "                adj.data[i][index_to_modify + 1 : index_to_modify + 2] = data_to_remove"),
     "values spliced one position off their indices")
fire("C15", "removed-row-kept", "R15.4", E(PP, "remove_node", "            adj.rows[i] = []\n            adj.data[i] = []\n", "            adj.data[i] = []\n"), "the removed node keeps its successor indices", allow_error=True)
silent("C15", "transpose-method", E(TREE, "sequence_tree_skip_grams", '        global_counts = global_counts.T\n', '        global_counts = global_counts.transpose()\n'), "transpose spelled as a method")
silent("C15", "symmetric-assignment", E(TREE, "sequence_tree_skip_grams", "        global_counts += global_counts.T\n", "        global_counts = global_counts.T + global_counts\n"), "sum written as an assignment, operands commuted")

# --- round 4 seeds
_FKA_OLD = '        for i, args in enumerate(self._kernel_args):\n            default_kernel_array_args = {\n                "mask_index": self._mask_index,\n                "normalize": False,\n                "offset": 0,\n            }\n            default_kernel_array_args.update(args)\n'
fire("C03", "kernel-defaults-shared-across-windows", "R3.11", E(BASE, "BaseCooccurrenceVectorizer._set_full_kernel_args", _FKA_OLD,
     '        default_kernel_array_args = {\n            "mask_index": self._mask_index,\n            "normalize": False,\n            "offset": 0,\n        }\n        for i, args in enumerate(self._kernel_args):\n            default_kernel_array_args.update(args)\n'),
     "seeded r4_C03: the defaults dict hoisted out of the window loop; one window's kernel arguments leak into the next")
silent("C03", "kernel-defaults-hoisted-and-copied", E(BASE, "BaseCooccurrenceVectorizer._set_full_kernel_args", _FKA_OLD,
     '        defaults = {\n            "mask_index": self._mask_index,\n            "normalize": False,\n            "offset": 0,\n        }\n        for i, args in enumerate(self._kernel_args):\n            default_kernel_array_args = dict(defaults)\n            default_kernel_array_args.update(args)\n'),
     "defaults hoisted, a fresh copy per window: behaviour-preserving")
fire("C13", "transform-reads-conditionally-what-it-rewrites", "R13.2", E(TREE, "LabelledTreeCooccurrenceVectorizer.transform",
     "        raw_token_sequences = [label_sequence for adjacency, label_sequence in X]\n",
     "        if self.nullify_mask:\n            self._mask_index = np.int32(len(self._token_frequencies_))\n        raw_token_sequences = [label_sequence for adjacency, label_sequence in X]\n"),
     "seeded r4_C13: the mask index recomputed in transform from frequencies that the previous transform overwrote; the read sits under a condition")
fire("C01", "ngram-width-by-len-of-supplied-dictionary", "R1.1", E(NG, "NgramVectorizer.transform", _NG_W, "            shape=(len(indptr) - 1, len(self.column_label_dictionary_)),\n"),
     "revert of 9fa0875: a supplied ngram_dictionary with indices {0, 3} gives a 2-column matrix holding column id 3")
fire("C01", "edgelist-shape-by-len-of-dictionaries", "R1.1", E(EL, "EdgeListVectorizer.transform", "            shape=self._train_matrix.shape,\n",
     "            shape=(len(self.row_label_dictionary_), len(self.column_label_dictionary_)),\n"),
     "seeded r4_C02: supplied label dictionaries with sparse indices; transform's matrix is narrower than fit_transform's")
silent("C01", "edgelist-shape-by-largest-index", E(EL, "EdgeListVectorizer.transform", "            shape=self._train_matrix.shape,\n",
     "            shape=(max(self.row_index_dictionary_) + 1, max(self.column_index_dictionary_) + 1),\n"),
     "the extent recomputed the way fit computes it")
_NGC_OLD = "                    this_ker = kernels[i]\n                    for j, context in enumerate(window):\n                        val = np.float32(this_ker[j] / total)\n                        if val > 0:\n                            row = target_gram_ind\n                            col = context + i * n_unique_tokens\n                            key = col + array_mul * row\n                            coo_data[i] = coo_append(coo_data[i], (row, col, val, key))\n"
_NGC_NEW = "                    this_ker = kernels[i]\n                    coo = coo_data[i]\n                    for j, context in enumerate(window):\n                        val = np.float32(this_ker[j] / total)\n                        if val > 0:\n                            row = target_gram_ind\n                            col = context + i * n_unique_tokens\n                            key = col + array_mul * row\n                            coo = coo_append(coo, (row, col, val, key))\n"
fire("C04", "accumulator-slot-written-back-after-the-window-loop", "R4.1", E(NGC, "numba_build_skip_grams", _NGC_OLD, _NGC_NEW + "                coo_data[i] = coo\n"),
     "seeded r4_C04: the local accumulator is stored back once, after the loop over the windows - only the last window's buffer survives a growth", allow_error=True)
silent("C04", "accumulator-slot-written-back-per-window", E(NGC, "numba_build_skip_grams", _NGC_OLD, _NGC_NEW + "                    coo_data[i] = coo\n"),
     "the same hoisting with the store inside the loop over the windows")
# --- C20: bookkeeping clauses of the histogram / KDE vectorizers
KDEF = "vectorizers/kde_vectorizer.py"
fire("C20", "left-outlier-overlaps", "R20.1", E(VEC, "add_outier_bins", "left_outlier = pd.Interval(left=absolute_range[0], right=interval_list[0].left)", "left_outlier = pd.Interval(left=absolute_range[0], right=interval_list[0].right)"),
     "the lower outlier bin overlaps the first learned bin")
fire("C20", "right-outlier-gap", "R20.1", E(VEC, "add_outier_bins", "            left=interval_list[last].right, right=absolute_range[1]", "            left=interval_list[last].left, right=absolute_range[1]"),
     "the upper outlier bin starts at the last bin's left edge")
fire("C20", "outlier-bin-appended", "R20.1", E(VEC, "add_outier_bins", "        interval_list.insert(0, left_outlier)", "        interval_list.append(left_outlier)"),
     "bins no longer increasing")
fire("C20", "widen-loses-inner-edge", "R20.1", E(VEC, "expand_boundaries", "            left=absolute_range[0], right=interval_list[0].right", "            left=absolute_range[0], right=interval_list[0].left"),
     "the widened first bin ends where it used to start: a gap")
fire("C20", "outlier-guard-flipped", "R20.1", E(VEC, "add_outier_bins", "    if interval_list[0].left > absolute_range[0]:", "    if interval_list[0].left < absolute_range[0]:"),
     "outlier bin added exactly when it is not needed")
fire("C20", "histogram-row-from-wrong-sequence", "R20.2", E(VEC, "HistogramVectorizer.transform", "            result[i, :] = self._vector_transform(seq).values", "            result[i, :] = self._vector_transform(X[0]).values"),
     "every row computed from the first sequence")
fire("C20", "kde-bandwidth-unfitted", "R20.3", E(KDEF, "KDEVectorizer.transform", "KernelDensity(bandwidth=self.bandwidth_, kernel=self.kernel)", "KernelDensity(bandwidth=self.bandwidth, kernel=self.kernel)"),
     "the constructor parameter (possibly None) instead of the fitted bandwidth")
silent("C20", "kde-hoisted-estimator", [E(KDEF, "KDEVectorizer.transform", "        for i, sample in enumerate(X):\n            kde = KernelDensity(bandwidth=self.bandwidth_, kernel=self.kernel)\n", "        kde = KernelDensity(bandwidth=self.bandwidth_, kernel=self.kernel)\n        for i, sample in enumerate(X):\n")],
     "one estimator object re-fitted per row: fit() discards the previous sample, behaviour-preserving")
silent("C20", "outlier-guard-mirrored", E(VEC, "add_outier_bins", "    if interval_list[0].left > absolute_range[0]:", "    if absolute_range[0] < interval_list[0].left:"), "same test the other way round")
_EXP_OLD = "    # Check if the right boundary needs expanding\n    last = len(interval_list) - 1\n    if interval_list[last].right < absolute_range[1]:\n        interval_list[last] = pd.Interval(\n            left=interval_list[last].left, right=absolute_range[1]\n        )\n"
fire("C20", "widen-from-stale-alias", "R20.1", [E(VEC, "expand_boundaries", "    interval_list = my_interval_index.to_list()\n", "    interval_list = my_interval_index.to_list()\n    first, last_bin = interval_list[0], interval_list[-1]\n"),
     E(VEC, "expand_boundaries", _EXP_OLD, "    if last_bin.right < absolute_range[1]:\n        interval_list[-1] = pd.Interval(left=last_bin.left, right=absolute_range[1])\n")],
     "seeded r4_C20: the last bin is snapshotted before the first is widened; with one learned bin the lower widening is lost")
silent("C20", "widen-from-fresh-alias", [E(VEC, "expand_boundaries", _EXP_OLD, "    last_bin = interval_list[-1]\n    if last_bin.right < absolute_range[1]:\n        interval_list[-1] = pd.Interval(left=last_bin.left, right=absolute_range[1])\n")],
     "the same tidy-up with the alias taken after the lower widening")
fire("C20", "kde-fit-on-all", "R20.3", E(KDEF, "KDEVectorizer.transform", "            kde.fit(sample[:, None])", "            kde.fit(np.hstack(X)[:, None])"),
     "every row's density fitted on the whole batch")

# --- C14: polarity of the mask comparison (from the mutation smoke test)
fire("C14", "mask-comparison-negated", "R14.3", E(WK, "geometric_kernel", "        result[window == mask_index] = 0.0", "        result[window != mask_index] = 0.0"),
     "everything except the mask is zeroed")
silent("C14", "mask-comparison-mirrored", E(WK, "geometric_kernel", "        result[window == mask_index] = 0.0", "        result[mask_index == window] = 0.0"), "same mask the other way round")

# --- C03: window total only under the normalisation flag (from the mutation smoke test)
fire("C03", "normalisation-always-on", "R3.6", E(TOK, "numba_build_skip_grams", "            if normalize_windows:\n", "            if True:\n"),
     "weights divided by the window total although normalize_windows is off")

# --- C03: from the third mutant batch
fire("C03", "mix-weight-not-expanded", "R3.8", E(BASE, "BaseCooccurrenceVectorizer.__init__", '                self._window_orientations.append("before")\n                self._mix_weights.append(self.mix_weights[i])\n', '                self._window_orientations.append("before")\n'),
     "a 'before' window gets no mix weight: later windows take their neighbour's")
fire("C03", "multiset-windows-exchanged", "R3.9", E(MULTI, "numba_build_multi_skip_grams", "                if not window_reversals[i]:", "                if window_reversals[i]:"),
     "multiset build kernel: before / after windows exchanged relative to the flags")
silent("C03", "multiset-window-test-positive", [E(MULTI, "numba_build_multi_skip_grams", """                if not window_reversals[i]:
                    multi_window = token_sequences[
                        d_i : min(
                            [len(token_sequences), d_i + window_size_array[i, 0] + 1]
                        )
                    ]
                else:
                    multi_window = token_sequences[
                        max([0, d_i - window_size_array[i, 0]]) : d_i + 1
                    ]
                    multi_window.reverse()
""", """                if window_reversals[i]:
                    multi_window = token_sequences[
                        max([0, d_i - window_size_array[i, 0]]) : d_i + 1
                    ]
                    multi_window.reverse()
                else:
                    multi_window = token_sequences[
                        d_i : min(
                            [len(token_sequences), d_i + window_size_array[i, 0] + 1]
                        )
                    ]
""")], "the same selection with the arms exchanged and the test positive")
fire("C03", "window-args-always-doubled", "R3.8", E(BASE, "BaseCooccurrenceVectorizer.__init__", '                self._window_args.append(tuple(args.values()))\n                if self.window_orientations[i] == "directional":', '                self._window_args.append(tuple(args.values()))\n                if True:'),
     "every orientation gets two window-argument entries")

# --- C10: last-element read (seeded r2_C10)
fire("C10", "tail-copy-unguarded", "R10.8", E(MG, "contract_pair", "    if not skip_char and len_char_list > 0:", "    if not skip_char:"),
     "seeded r2_C10: an empty code array reads char_list[-1]")
silent("C10", "tail-copy-guard-nested", E(MG, "contract_pair", "    if not skip_char and len_char_list > 0:\n        new_char_list[new_char_index] = char_list[len_char_list - 1]\n        new_char_index += 1\n",
                                          "    if len_char_list > 0:\n        if not skip_char:\n            new_char_list[new_char_index] = char_list[len_char_list - 1]\n            new_char_index += 1\n"),
       "the same guard as a nested if")

# --- C12 / C08: nested chunk offsets (seeded r2_C12)
_NC_OLD = "                    chunk_start = j * self.chunk_size + block_start\n                    chunk_end = min(block_end, chunk_start + self.chunk_size)\n"
_NC_REL = "                    chunk_start = j * self.chunk_size\n                    chunk_end = min(block_end - block_start, chunk_start + self.chunk_size)\n"
for _p, _r in (("C12", "R12.4"), ("C08", "R8.2")):
    fire(_p, "chunk-offset-lost", _r, E(LOT, "SinkhornVectorizer.transform", _NC_OLD, _NC_REL),
         "seeded r2_C12: block-relative chunk positions used on the whole matrix")
    silent(_p, "chunk-relative-on-block", [E(LOT, "SinkhornVectorizer.transform", _NC_OLD, _NC_REL),
                                           E(LOT, "SinkhornVectorizer.transform", "                    raw_chunk = X[chunk_start:chunk_end]\n", "                    raw_chunk = X_block[chunk_start:chunk_end]\n"),
                                           E(LOT, "SinkhornVectorizer.transform", "                completed_chunks = []\n", "                completed_chunks = []\n                X_block = X[block_start:block_end]\n")],
           "block-relative positions on the block's own slice")

# --- C02: configuration guard of a library transformation (mutation smoke test)
fire("C02", "cosine-normalisation-negated-in-transform", "R2.6", E(LOT, "SinkhornVectorizer.transform", "            if metric == cosine:\n                vectors = normalize(vectors, norm=\"l2\")", "            if metric != cosine:\n                vectors = normalize(vectors, norm=\"l2\")"),
     "transform l2-normalises the vectors exactly when the metric is not cosine; fit does the opposite")

# --- C08: the SVD tail of the four fit-side drivers (mutation smoke test, seeded r2_C13)
fire("C08", "svd-flip-swapped-in-one-driver", "R8.6", E(LOT, "lot_vectors_dense", "        u, components = svd_flip(u, v)", "        u, components = svd_flip(v, u)"),
     "sign fixing with exchanged factors in the dense driver only")
fire("C08", "svd-iterations-dropped-in-one-driver", "R8.6", E(LOT, "sinkhorn_vectors_sparse", "n_iter=n_svd_iter,", "", count=2),
     "the Sinkhorn driver runs the SVD with the library default number of iterations")

# --- C15: zero weights skipped together with the walk step (seeded C15)
fire("C15", "zero-weight-skips-walk-step", "R15.2", E(TREE, "build_tree_skip_grams", "        walk = walk @ adjacency_matrix\n", "        if weights[i] == 0:\n            continue\n        walk = walk @ adjacency_matrix\n"),
     "seeded C15: the walk power no longer advances on a zero weight")
silent("C15", "zero-weight-skips-only-the-add", E(TREE, "build_tree_skip_grams", "        count_matrix += walk * weights[i]\n", "        if weights[i] != 0:\n            count_matrix += walk * weights[i]\n"),
       "the same optimisation done right: the walk still advances")

# --- round 2 seeds: C14 dispatch, C17 driver, C07 / C10 narrow locals, C20 counting
for _fn in ("preprocess_token_sequences", "preprocess_tree_sequences"):
    fire("C14", "mask-dispatch-truthiness-%s" % _fn, "R14.6", E(PP, _fn, "    if masking is None:", "    if not masking:"),
         "seeded r2_C14: mask_string='' takes the unmasked branch")
silent("C14", "mask-dispatch-is-not-none", E(PP, "preprocess_token_sequences", "    if masking is None:", "    if not (masking is not None):"),
       "the same identity test spelled negatively")
fire("C17", "empty-columns-keep-one", "R17.6", E(IW, "column_weights", """        weights[i] = column_kl_divergence_func(
            indices[indptr[i] : indptr[i + 1]],
            data[indptr[i] : indptr[i + 1]],
            baseline_probabilities,
            prior_strength=prior_strength,
            target=target,
        )
""", """        if indptr[i + 1] > indptr[i]:
            weights[i] = column_kl_divergence_func(
                indices[indptr[i] : indptr[i + 1]],
                data[indptr[i] : indptr[i + 1]],
                baseline_probabilities,
                prior_strength=prior_strength,
                target=target,
            )
"""), "seeded r2_C17: skipped empty columns keep the initial weight 1")
silent("C17", "empty-columns-skipped-in-zeros", [E(IW, "column_weights", "    weights = np.ones(n_cols)", "    weights = np.zeros(n_cols)"),
                                                E(IW, "column_weights", """        weights[i] = column_kl_divergence_func(
            indices[indptr[i] : indptr[i + 1]],
            data[indptr[i] : indptr[i + 1]],
            baseline_probabilities,
            prior_strength=prior_strength,
            target=target,
        )
""", """        if indptr[i + 1] > indptr[i]:
            weights[i] = column_kl_divergence_func(
                indices[indptr[i] : indptr[i + 1]],
                data[indptr[i] : indptr[i + 1]],
                baseline_probabilities,
                prior_strength=prior_strength,
                target=target,
            )
""")], "the same skip over a buffer of zeros: an empty column's divergence is 0")
for _p, _r in (("C07", "R7.5"), ("C10", "R10.9")):
    fire(_p, "arc-number-uint16", _r, E(LOT, None, "@numba.njit(nogil=True)\ndef get_transport_plan", '@numba.njit(nogil=True, locals={"i": numba.uint16, "j": numba.uint16, "arc": numba.uint16})\ndef get_transport_plan'),
         "seeded r2_C07: the flat arc number wraps at 65536")
    silent(_p, "loop-counters-uint32", E(LOT, None, "@numba.njit(nogil=True)\ndef get_transport_plan", '@numba.njit(nogil=True, locals={"i": numba.uint32, "j": numba.uint32})\ndef get_transport_plan'),
           "only the loop counters are pinned; the arc number keeps full width")
fire("C20", "no-bin-code-counted-in-last-bin", "R20.2", [E(VEC, "HistogramVectorizer._vector_transform", "        return pd.cut(vector, self.bin_intervals_).value_counts()",
                                                          "        bin_codes = pd.cut(np.asarray(vector), self.bin_intervals_).codes\n        counts = np.zeros(len(self.bin_intervals_))\n        np.add.at(counts, bin_codes, 1)\n        return counts"),
                                                        E(VEC, "HistogramVectorizer.transform", "self._vector_transform(seq).values", "self._vector_transform(seq)")],
     "seeded C20: pd.cut's code -1 lands in the last bin")
silent("C20", "codes-filtered", [E(VEC, "HistogramVectorizer._vector_transform", "        return pd.cut(vector, self.bin_intervals_).value_counts()",
                                   "        bin_codes = pd.cut(np.asarray(vector), self.bin_intervals_).codes\n        bin_codes = bin_codes[bin_codes >= 0]\n        counts = np.zeros(len(self.bin_intervals_))\n        np.add.at(counts, bin_codes, 1)\n        return counts"),
                                 E(VEC, "HistogramVectorizer.transform", "self._vector_transform(seq).values", "self._vector_transform(seq)")],
       "the same speed-up with the no-bin code removed")

# --- C03: n-gram window anchors (seeded r3_C03)
_NG_LOOP = "        for w_i in range(ngram_size - 1, len(seq)):\n            ngram = array_to_tuple(seq[w_i - ngram_size + 1 : w_i + 1])\n"
_NG_LOOP_S = "        for s_i in range(len(seq) - ngram_size + 1):\n            ngram = array_to_tuple(seq[s_i : s_i + ngram_size])\n"
_NG_ANCHOR = "                        w_i - window_reversal_const[i] * (ngram_size - 1),\n"
for _fn in ("numba_build_skip_grams",):
    fire("C03", "ngram-anchor-inside-the-gram", "R3.10", [E(NGC, _fn, _NG_LOOP, _NG_LOOP_S), E(NGC, _fn, _NG_ANCHOR, "                        s_i + ngram_size - 1 - window_reversal_const[i],\n")],
         "seeded r3_C03: right for bigrams only", allow_error=True)
    silent("C03", "ngram-loop-over-start-index", [E(NGC, _fn, _NG_LOOP, _NG_LOOP_S), E(NGC, _fn, _NG_ANCHOR, "                        s_i + (1 - window_reversal_const[i]) * (ngram_size - 1),\n")],
           "the same re-parametrisation done right")

# --- round 3: C05 sort key, C06 edge-list precision
fire("C05", "vocabulary-sorted-by-str", "R5.1", E(PP, "construct_token_dictionary_and_frequency", "        unique_tokens = sorted(list(set(token_sequence)))", "        unique_tokens = sorted(set(token_sequence), key=str)"),
     "seeded r3_C05: numeric tokens sort as strings")
silent("C05", "vocabulary-sorted-without-list", E(PP, "construct_token_dictionary_and_frequency", "        unique_tokens = sorted(list(set(token_sequence)))", "        unique_tokens = sorted(set(token_sequence))"),
       "the redundant list() dropped, natural order kept")
fire("C06", "edge-matrix-float32", "R6.7", E(EL, "EdgeListVectorizer.fit", "            shape=(max_row, max_col),\n", "            shape=(max_row, max_col),\n            dtype=np.float32,\n"),
     "seeded r3_C06: sums above 2**24 are rounded")
silent("C06", "edge-matrix-float64-explicit", E(EL, "EdgeListVectorizer.fit", "            shape=(max_row, max_col),\n", "            shape=(max_row, max_col),\n            dtype=np.float64,\n"),
       "the precision of the values spelled out")

# --- C04: coo_sum_duplicates (genuine defect c71e6d2; seeded r3_C04)
_CSD_OLD = '    sum_ind = lower_lim\n    this_row = coo.row[lower_lim]\n    this_col = coo.col[lower_lim]\n    this_val = np.float32(0)\n    this_key = coo.key[lower_lim]\n\n    for i in range(lower_lim, upper_lim):\n        if coo.key[i] == this_key:\n            this_val += coo.val[i]\n        else:\n            coo.row[sum_ind] = this_row\n            coo.col[sum_ind] = this_col\n            coo.val[sum_ind] = this_val\n            coo.key[sum_ind] = this_key\n            this_row = coo.row[i]\n            this_col = coo.col[i]\n            this_val = coo.val[i]\n            this_key = coo.key[i]\n            sum_ind += 1\n\n    if upper_lim > lower_lim:\n        coo.row[sum_ind] = this_row\n        coo.col[sum_ind] = this_col\n        coo.val[sum_ind] = this_val\n        coo.key[sum_ind] = this_key\n        sum_ind += 1\n\n    coo.ind[0] = sum_ind\n'
_CSD_BAD = '    sum_ind = lower_lim\n    for i in range(lower_lim + 1, upper_lim):\n        if coo.key[i] == coo.key[sum_ind]:\n            coo.val[sum_ind] += coo.val[i]\n        else:\n            sum_ind += 1\n            coo.row[sum_ind] = coo.row[i]\n            coo.col[sum_ind] = coo.col[i]\n            coo.val[sum_ind] = coo.val[i]\n            coo.key[sum_ind] = coo.key[i]\n\n    coo.ind[0] = sum_ind + 1\n'
_CSD_GOOD = '    sum_ind = lower_lim\n    for i in range(lower_lim + 1, upper_lim):\n        if coo.key[i] == coo.key[sum_ind]:\n            coo.val[sum_ind] += coo.val[i]\n        else:\n            sum_ind += 1\n            coo.row[sum_ind] = coo.row[i]\n            coo.col[sum_ind] = coo.col[i]\n            coo.val[sum_ind] = coo.val[i]\n            coo.key[sum_ind] = coo.key[i]\n\n    if upper_lim > lower_lim:\n        sum_ind += 1\n    coo.ind[0] = sum_ind\n'
fire("C04", "last-run-compared-with-stale-slot", "R4.7", E(COO, "coo_sum_duplicates", "    if upper_lim > lower_lim:\n        coo.row[sum_ind] = this_row", "    if this_key != coo.key[upper_lim]:\n        coo.row[sum_ind] = this_row"),
     "revert of c71e6d2: the last run is dropped when the stale slot past the live region holds the same key")
fire("C04", "compaction-advances-on-empty-flush", "R4.8", E(COO, "coo_sum_duplicates", _CSD_OLD, _CSD_BAD),
     "seeded r3_C04: in-place unique compaction ending in ind = sum_ind + 1 - an empty flush makes a stale slot live")
silent("C04", "compaction-guarded", E(COO, "coo_sum_duplicates", _CSD_OLD, _CSD_GOOD),
       "the same compaction with the advance under a non-empty test")

# --- C09: max_char_code must cover every character (seeded r3_C09)
fire("C09", "max-char-code-from-pairs", "R9.5", [E(MG, "bpe_train", "            c_val = ord(c)\n            compressed_chars[i][j] = c_val\n            if c_val > max_char_code:\n                max_char_code = c_val\n", "            compressed_chars[i][j] = ord(c)\n"),
                                                E(MG, "bpe_train", "    new_code = max_char_code + 1\n    pair_counts = count_pairs(compressed_chars)\n", "    pair_counts = count_pairs(compressed_chars)\n    for pair in pair_counts.keys():\n        max_char_code = max(max_char_code, pair[0], pair[1])\n    new_code = max_char_code + 1\n")],
     "seeded r3_C09: one-character strings form no pair, their code points are missed", allow_error=True)
silent("C09", "max-char-code-with-max", E(MG, "bpe_train", "            if c_val > max_char_code:\n                max_char_code = c_val\n", "            max_char_code = max(max_char_code, c_val)\n"),
       "the running maximum written with max()")

# --- round 3: vectorised histogram transform (seeded r3_C12), SVD scaling (seeded r3_C02)
_HT_OLD = "        result = np.ndarray((len(X), len(self.bin_intervals_)))\n        for i, seq in enumerate(X):\n            result[i, :] = self._vector_transform(seq).values\n        return result\n"
_HT_NEW = "        n_bins = len(self.bin_intervals_)\n        lengths = [len(seq) for seq in X]\n        bin_codes = pd.cut(np.asarray(flatten(X)), self.bin_intervals_).codes\n        row_offsets = np.repeat(np.arange(len(X)) * n_bins, lengths)\n%s        counts = np.bincount(row_offsets + bin_codes, minlength=len(X) * n_bins)\n        return counts.reshape(len(X), n_bins).astype(np.float64)\n"
for _p, _r in (("C20", "R20.2"), ("C12", "R12.5")):
    fire(_p, "histogram-flat-bincount", _r, E(VEC, "HistogramVectorizer.transform", _HT_OLD, _HT_NEW % ""),
         "seeded r3_C12: a no-bin value of row i is counted in the last bin of row i - 1")
    silent(_p, "histogram-flat-bincount-filtered", E(VEC, "HistogramVectorizer.transform", _HT_OLD, _HT_NEW % "        keep = bin_codes >= 0\n        row_offsets, bin_codes = row_offsets[keep], bin_codes[keep]\n"),
           "the same one-pass binning with the no-bin code removed")
fire("C02", "svd-scaling-power-parameter", "R2.9", E(CFC, "CountFeatureCompressionTransformer.fit_transform", "        self.component_scaling_ = np.sqrt(s)", "        self.component_scaling_ = np.power(s, self.rescaling_power)"),
     "seeded r3_C02: u s^p from fit_transform, u s^(1-p) from transform")
silent("C02", "svd-scaling-power-half", E(CFC, "CountFeatureCompressionTransformer.fit_transform", "        self.component_scaling_ = np.sqrt(s)", "        self.component_scaling_ = np.power(s, 0.5)"),
       "the square root spelled as a power")

# --- C09: the pending merge at the vocabulary budget (genuine defect, found through a remark of the r3_C02 agent)
fire("C09", "pending-merge-not-applied", "R9.8", E(MG, "bpe_train", """    if len(tokens) >= vocab_size:
        for i, char_array in enumerate(compressed_chars):
            compressed_chars[i], pair_counts = contract_and_count_pairs(
                char_array, pair_to_replace, pair_counts, new_code
            )

""", ""), "revert of the fix: the merge recorded last is never applied when the budget ends the loop")

# --- round 3 batch C: module-level cache (seeded r3_C16), arr_unique on empty input (seeded r3_C10)
_MH_OLD = "    return hash\n"
for _p, _r in (("C16", "R16.7"), ("C13", "R13.6")):
    fire(_p, "hash-cache-keyed-by-seed", _r, [E(MG, None, "def make_hash(", "_SEEDED_HASHES = {}\n\n\ndef make_hash("),
                                             E(MG, "make_hash", _MH_OLD, "    _SEEDED_HASHES[seed] = hash\n    return hash\n")],
         "seeded r3_C16: a later fit with another max_columns is handed the hash of an earlier one (the early-return half of the cache is omitted here; the write is what the rule reads)")
    silent(_p, "hash-cache-keyed-by-size-and-seed", [E(MG, None, "def make_hash(", "_SEEDED_HASHES = {}\n\n\ndef make_hash("),
                                                     E(MG, "make_hash", _MH_OLD, "    _SEEDED_HASHES[(size, seed)] = hash\n    return hash\n")],
           "a memo table keyed by everything the hash depends on")
fire("C10", "arr-union-guards-removed", "R10.10", E(DIST, "arr_union", "    if ar1.shape[0] == 0:\n        return ar2\n    elif ar2.shape[0] == 0:\n        return ar1\n    else:\n        return arr_unique(np.concatenate((ar1, ar2)))", "    return arr_unique(np.concatenate((ar1, ar2)))"),
     "seeded r3_C10: two empty index arrays reach arr_unique")
silent("C10", "arr-union-one-guard", E(DIST, "arr_union", "    elif ar2.shape[0] == 0:\n        return ar1\n    else:\n        return arr_unique(np.concatenate((ar1, ar2)))", "    return arr_unique(np.concatenate((ar1, ar2)))"),
       "one early return suffices: the concatenation is non-empty")

# --- C14 / C17: round 3 batch C
_NUL_OLD = """    # if nulify mask
    mask_index = kernel_args[0]
    if kernel_args[0] is not None:
        M = scipy.sparse.eye(global_counts.shape[0])
        M.data[0, mask_index] = 0
        global_counts = (M.dot(global_counts)).dot(M)
        global_counts.eliminate_zeros()

"""
_NUL_DIRECT = """    mask_index = kernel_args[0]
    if mask_index is not None:
        global_counts = global_counts.tolil()
        global_counts[mask_index, :] = 0
        global_counts[:, mask_index] = 0
        global_counts = global_counts.tocsr()
        global_counts.eliminate_zeros()

"""
silent("C14", "tree-mask-cleared-directly", E(TREE, "sequence_tree_skip_grams", _NUL_OLD, _NUL_DIRECT), "row and column cleared directly, still before the orientation handling")
fire("C14", "tree-mask-cleared-after-orientation", "R14.4", [E(TREE, "sequence_tree_skip_grams", _NUL_OLD, ""),
                                                            E(TREE, "sequence_tree_skip_grams", "    return global_counts\n", _NUL_DIRECT + "    return global_counts\n")],
     "seeded r3_C14: with 'directional' only the 'pre_' mask column is cleared")
fire("C17", "clamp-lost-in-helper", "R17.2", [E(IW, None, "class InformationWeightTransformer(", "def _rescale_weights(weights, power):\n    return np.power(weights / np.mean(weights), power)\n\n\nclass InformationWeightTransformer("),
                                             E(IW, "InformationWeightTransformer.fit", "            self.supervised_weights_ /= np.mean(self.supervised_weights_)\n            self.supervised_weights_ = np.maximum(self.supervised_weights_, 0.0)\n", "            self.supervised_weights_ = _rescale_weights(self.supervised_weights_, 1.0)\n")],
     "seeded r3_C17 (one of the three blocks): the de-duplicated helper drops the clamp", allow_error=True)

# --- round 3 batch D
fire("C19", "short-sequence-shortcut-ignores-padding", "R19.5", E(SW, "SlidingWindowTransformer.transform", "        for sequence in X:\n", "        for sequence in X:\n            if np.asarray(sequence).shape[0] < self.window_width:\n                result.append(np.empty((0, self.kernel_output_size_)))\n                continue\n"),
     "seeded r3_C19: the raw length is compared although the sequence is padded later", allow_error=True)
silent("C19", "short-sequence-shortcut-padded", E(SW, "SlidingWindowTransformer.transform", "        for sequence in X:\n", "        for sequence in X:\n            if np.asarray(sequence).shape[0] + 2 * self.pad_width < self.window_width:\n                result.append(np.empty((0, self.kernel_output_size_)))\n                continue\n"),
       "the same shortcut on the padded length")
silent("C01", "short-sequence-shortcut-padded", E(SW, "SlidingWindowTransformer.transform", "        for sequence in X:\n", "        for sequence in X:\n            if np.asarray(sequence).shape[0] + 2 * self.pad_width < self.window_width:\n                result.append(np.empty((0, self.kernel_output_size_)))\n                continue\n"),
       "one row is appended on every path through the iteration (append + continue)")
fire("C18", "kantorovich-cumsum-raw", "R18.6", E(DIST, "kantorovich1d", "    x_cdf = x / x_sum\n    y_cdf = y / y_sum\n", "    x_cdf = np.cumsum(x) / x_sum\n    y_cdf = np.cumsum(y) / y_sum\n"),
     "seeded r3_C18 (the loop left in place here would double-accumulate; the rule reads the cumsum)", allow_error=True)
