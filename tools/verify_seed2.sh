#!/bin/sh
# verify_seed.sh <id> <patch> <demo.py>  - confirm a seeded change in a fresh scratch worktree of /repo HEAD:
# patch applies, demo exits 0 without / non-zero with the change, full suite equals the baseline.  Removes the worktree.
id=$1; patch=$2; demo=$3
wt=/tmp/wt/verify_$id
out=/tmp/wt/verify_$id.log
git -C /repo worktree remove --force $wt 2>/dev/null
git -C /repo worktree add -q --detach $wt HEAD || exit 3
cp $demo $wt/demo.py
cd $wt
echo "== demo on original" > $out
/venv/bin/python demo.py >> $out 2>&1; echo "demo_original_rc=$?" >> $out
git apply $patch || { echo "patch does not apply" >> $out; exit 3; }
echo "== demo with change" >> $out
/venv/bin/python demo.py >> $out 2>&1; echo "demo_changed_rc=$?" >> $out
rm -f demo.py; echo "== suite with change" >> $out
/venv/bin/python -m pytest -ra -q -p no:cacheprovider --timeout=900 --continue-on-collection-errors --junitxml=/tmp/wt/verify_$id.junit.xml >> /tmp/wt/verify_$id.suite 2>&1
tail -4 /tmp/wt/verify_$id.suite >> $out
python3 - $id >> $out <<'PY'
import json, sys, xml.etree.ElementTree as ET
base=set(json.load(open('/root/.vp/BASELINE.json'))['stable_pass'])
t=ET.parse('/tmp/wt/verify_%s.junit.xml'%sys.argv[1])
passed=set()
for tc in t.iter('testcase'):
    if not any(c.tag in ('failure','error','skipped') for c in tc):
        passed.add(tc.get('classname')+'::'+tc.get('name'))
print("stable_pass_missing=%d passed=%d" % (len(base-passed), len(passed)))
for x in sorted(base-passed)[:5]: print("  MISSING", x)
PY
cd /; git -C /repo worktree remove --force $wt
rm -f /tmp/wt/verify_$id.suite /tmp/wt/verify_$id.junit.xml
cat $out | grep -E "rc=|stable_pass|passed|failed" 
