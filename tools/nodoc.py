#!/usr/bin/env python3
"""Print a python file with docstrings and blank/comment lines removed, keeping line numbers."""
import ast, sys
for path in sys.argv[1:]:
    src = open(path).read()
    tree = ast.parse(src)
    skip = set()
    for n in ast.walk(tree):
        if isinstance(n, (ast.FunctionDef, ast.ClassDef, ast.Module, ast.AsyncFunctionDef)):
            b = n.body
            if b and isinstance(b[0], ast.Expr) and isinstance(b[0].value, ast.Constant) and isinstance(b[0].value.value, str):
                for l in range(b[0].lineno, b[0].end_lineno + 1):
                    skip.add(l)
    print("=== ", path)
    for i, line in enumerate(src.splitlines(), 1):
        if i in skip or not line.strip():
            continue
        print(f"{i}\t{line}")
