#!/usr/bin/env python3
"""try_seeded.py <patch.diff> [--props C01,C02]  - apply a seeded change to /repo, run the quick checks,
print which properties raise which violations, and undo the change (git checkout -- .)."""
import subprocess, sys, os, re
patch = os.path.abspath(sys.argv[1])
props = None
if len(sys.argv) > 3 and sys.argv[2] == "--props":
    props = sys.argv[3].split(",")
ALL = ["C01","C02","C03","C04","C05","C06","C07","C08","C09","C10","C11","C12","C13","C14","C15","C16","C17","C18","C19","C20"]
st = subprocess.run(["git", "-C", "/repo", "status", "--porcelain"], capture_output=True, text=True).stdout.strip()
if st:
    sys.exit("refusing: /repo working tree is not clean:\n" + st)
r = subprocess.run(["git", "-C", "/repo", "apply", patch], capture_output=True, text=True)
if r.returncode:
    sys.exit("patch does not apply: " + r.stderr)
try:
    hits = {}
    for p in (props or ALL):
        out = subprocess.run([sys.executable, "/verif/check", p, "--tier", "quick"], capture_output=True, text=True)
        lines = [l for l in out.stdout.splitlines() if l.startswith("  " + p) or l.startswith("ANALYSIS-ERROR")]
        if out.returncode != 0:
            hits[p] = (out.returncode, lines)
    for p, (rc, lines) in hits.items():
        print("%s exit %d" % (p, rc))
        for l in lines:
            print("    " + l.strip()[:330])
    if not hits:
        print("NO CHECK FIRED")
finally:
    subprocess.run(["git", "-C", "/repo", "checkout", "--", "."], check=True)
    # restore evidence of the clean tree
    for p in (props or ALL):
        subprocess.run([sys.executable, "/verif/check", p, "--tier", "quick"], capture_output=True, text=True)
