#!/usr/bin/env python3
"""Mutation smoke test of the analyser (development tool, not a registered check).

Generates small syntactic mutants of /repo's sources (in memory, nothing is written to /repo), runs the rules of all
claimed properties on each and records, per mutant, which rules report a new violation (exit 1), which give up
(analysis error, exit 2) and which mutants survive everywhere.  Whether a surviving mutant breaks a property is
not known to this tool - survivors inside the functions the properties are anchored in are read by hand.

usage: mutate.py [--seed N] [--count N] [--jobs N] [--files f1,f2] [--out path]
"""
from __future__ import annotations

import argparse
import ast
import copy
import importlib
import json
import os
import random
import sys
from concurrent.futures import ProcessPoolExecutor

HERE = os.path.dirname(os.path.dirname(os.path.abspath(__file__)))
sys.path.insert(0, HERE)
from sa.model import AnalysisError, Repo, load_sources  # noqa: E402

PROPS = ["C01", "C02", "C03", "C04", "C05", "C06", "C07", "C08", "C09", "C10", "C11", "C12", "C13", "C14", "C15", "C16", "C17", "C18", "C19", "C20"]

CMP = {ast.Lt: ast.LtE, ast.LtE: ast.Lt, ast.Gt: ast.GtE, ast.GtE: ast.Gt, ast.Eq: ast.NotEq, ast.NotEq: ast.Eq}
BIN = {ast.Add: ast.Sub, ast.Sub: ast.Add, ast.Mult: ast.FloorDiv, ast.FloorDiv: ast.Div, ast.Div: ast.Mult}


def sites(tree: ast.Module):
    """(kind, node, enclosing function qualname) for every mutable site inside a function."""
    out = []

    def visit(node, qual):
        for ch in ast.iter_child_nodes(node):
            q = qual
            if isinstance(ch, (ast.FunctionDef, ast.AsyncFunctionDef, ast.ClassDef)):
                q = (qual + "." if qual else "") + ch.name
            if qual and isinstance(node, (ast.FunctionDef, ast.AsyncFunctionDef)) or qual:
                if isinstance(ch, ast.Compare) and len(ch.ops) == 1 and type(ch.ops[0]) in CMP:
                    out.append(("cmp", ch, qual))
                elif isinstance(ch, ast.BinOp) and type(ch.op) in BIN:
                    out.append(("bin", ch, qual))
                elif isinstance(ch, ast.Constant) and isinstance(ch.value, int) and not isinstance(ch.value, bool) and ch.value in (0, 1, 2):
                    out.append(("const", ch, qual))
                elif isinstance(ch, ast.BoolOp):
                    out.append(("bool", ch, qual))
                elif isinstance(ch, ast.UnaryOp) and isinstance(ch.op, ast.Not):
                    out.append(("not", ch, qual))
                elif isinstance(ch, (ast.Expr, ast.AugAssign)) and not (isinstance(ch, ast.Expr) and isinstance(ch.value, ast.Constant)):
                    out.append(("del", ch, qual))
                elif isinstance(ch, ast.Call) and len(ch.args) >= 2 and not any(isinstance(a, ast.Starred) for a in ch.args):
                    out.append(("swap", ch, qual))
                elif isinstance(ch, ast.If) and ch.orelse == [] and len(ch.body) <= 3:
                    out.append(("ifdrop", ch, qual))
            visit(ch, q)

    visit(tree, "")
    return [s for s in out if s[2]]


def apply(kind: str, node: ast.AST) -> str:
    before = ast.unparse(node)[:70]
    if kind == "cmp":
        node.ops = [CMP[type(node.ops[0])]()]
    elif kind == "bin":
        node.op = BIN[type(node.op)]()
    elif kind == "const":
        node.value = {0: 1, 1: 0, 2: 1}[node.value]
    elif kind == "bool":
        node.op = ast.Or() if isinstance(node.op, ast.And) else ast.And()
    elif kind == "not":
        node.op = ast.UAdd()  # `not x` -> `+x` is not boolean-equivalent; use identity through bool()
        # keep it a boolean: replace by bool(x)
    elif kind == "del":
        pass
    elif kind == "swap":
        node.args[0], node.args[1] = node.args[1], node.args[0]
    return before


def make_mutant(sources, path, idx):
    tree = ast.parse(sources[path])
    ss = sites(tree)
    if idx >= len(ss):
        return None
    kind, node, qual = ss[idx]
    line = getattr(node, "lineno", 0)
    if kind == "del":
        before = ast.unparse(node)[:70]
        # replace the statement by `pass`
        for parent in ast.walk(tree):
            for fld in ("body", "orelse", "finalbody"):
                v = getattr(parent, fld, None)
                if isinstance(v, list):
                    for i, st in enumerate(v):
                        if st is node:
                            v[i] = ast.copy_location(ast.Pass(), node)
        desc = "delete `%s`" % before
    elif kind == "ifdrop":
        before = ast.unparse(node.test)[:60]
        node.test = ast.copy_location(ast.Constant(value=True), node.test)
        desc = "guard `if %s` -> always" % before
    elif kind == "not":
        before = ast.unparse(node)[:70]
        node_parent = None
        for parent in ast.walk(tree):
            for f, v in ast.iter_fields(parent):
                if v is node:
                    setattr(parent, f, node.operand)
                    node_parent = parent
                elif isinstance(v, list):
                    for i, x in enumerate(v):
                        if x is node:
                            v[i] = node.operand
                            node_parent = parent
        desc = "drop not: `%s`" % before
    else:
        before = apply(kind, node)
        desc = "%s: `%s` -> `%s`" % (kind, before, ast.unparse(node)[:70])
    try:
        text = ast.unparse(ast.fix_missing_locations(tree)) + "\n"
        compile(text, path, "exec")
    except Exception:
        return None
    out = dict(sources)
    out[path] = text
    return {"file": path, "function": qual, "line": line, "kind": kind, "desc": desc}, out


_BASE = {}


def run_rules(sources):
    res = {}
    for p in PROPS:
        mod = importlib.import_module("sa.rules.%s" % p.lower())
        try:
            repo = Repo(sources=sources)
        except AnalysisError as e:
            res[p] = {"error": str(e)[:200]}
            continue
        fired, errs = [], []
        for rule in mod.RULES:
            try:
                rr = rule(repo)
                rr.check_floor()
                for i in rr.violations:
                    fired.append((i.rule, i.file, i.function, i.construct))
            except AnalysisError as e:
                errs.append(str(e)[:160])
            except Exception as e:  # analyser crash
                errs.append("CRASH %r" % (e,))
        res[p] = {"fired": fired, "errors": errs}
    return res


def _job(args):
    meta, overlay, base = args
    r = run_rules(overlay)
    new, errors = [], []
    for p, d in r.items():
        if "error" in d:
            errors.append("%s: %s" % (p, d["error"]))
            continue
        for v in d["fired"]:
            if list(v) not in base.get(p, []):
                new.append("%s %s %s" % (p, v[0], v[2]))
        for e in d["errors"]:
            errors.append("%s: %s" % (p, e))
    meta["violations"] = sorted(set(new))
    meta["errors"] = errors
    meta["verdict"] = "caught" if new else ("gave-up" if errors else "survived")
    return meta


def main():
    ap = argparse.ArgumentParser()
    ap.add_argument("--seed", type=int, default=1)
    ap.add_argument("--count", type=int, default=120)
    ap.add_argument("--jobs", type=int, default=8)
    ap.add_argument("--files", default="")
    ap.add_argument("--kinds", default="")
    ap.add_argument("--out", default="/tmp/seedtmp/mutants.json")
    a = ap.parse_args()
    sources = load_sources()
    files = [f for f in sources if (not a.files or any(x in f for x in a.files.split(",")))]
    rnd = random.Random(a.seed)
    pool = []
    kinds = set(a.kinds.split(",")) if a.kinds else None
    for f in files:
        ss = sites(ast.parse(sources[f]))
        pool += [(f, i) for i, s_ in enumerate(ss) if kinds is None or s_[0] in kinds]
    rnd.shuffle(pool)
    base_res = run_rules(sources)
    base = {p: [list(v) for v in d.get("fired", [])] for p, d in base_res.items()}
    tasks = []
    for f, i in pool:
        if len(tasks) >= a.count:
            break
        m = make_mutant(sources, f, i)
        if m is None:
            continue
        tasks.append((m[0], m[1], base))
    with ProcessPoolExecutor(max_workers=a.jobs) as ex:
        results = list(ex.map(_job, tasks))
    json.dump(results, open(a.out, "w"), indent=1)
    tally = {}
    for r in results:
        tally[r["verdict"]] = tally.get(r["verdict"], 0) + 1
    print(tally, "of", len(results), "->", a.out)


if __name__ == "__main__":
    main()
