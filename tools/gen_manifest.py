#!/usr/bin/env python3
"""Refresh the per-check texts of MANIFEST.json from the rule modules (CLAIM / NOT_DECIDED) and validate the
result against the schema when jsonschema is importable.  Everything else in the manifest is kept as is."""
import importlib
import json
import os
import sys

ROOT = os.path.dirname(os.path.dirname(os.path.abspath(__file__)))
sys.path.insert(0, ROOT)
PRE = ("Static analysis of /repo's current source, exhaustive over every enumerated instance of each structural rule "
       "(all call sites / loops / kernels / registries, for all inputs and paths at once). Decides necessary structural "
       "clauses of the property, not the whole behaviour: ")
BASE = ("Trusted base: Python's ast parser; our import/MRO call resolver (no type checker available - unresolved calls are "
        "external and judged by explicit library tables); the canonical form of sa/normalize.py (adjacent single-use "
        "temporaries folded, comparisons and two-armed conditionals in one spelling); documented behaviour of "
        "numpy/scipy/sklearn/numba/pynndescent. NOT decided: ")
path = os.path.join(ROOT, "MANIFEST.json")
m = json.load(open(path))
for c in m["checks"]:
    mod = importlib.import_module("sa.rules.%s" % c["property_id"].lower())
    c["level_claimed"]["text"] = PRE + mod.CLAIM
    c["level_note"] = BASE + mod.NOT_DECIDED
    c["rules"] = [r.__name__.replace("r", "R", 1).replace("_", ".", 1) if r.__name__.startswith("r") else r.__name__ for r in mod.RULES]
json.dump(m, open(path, "w"), indent=1)
open(path, "a").write("\n")
try:
    import jsonschema
    jsonschema.validate(m, json.load(open("/root/.vp/MANIFEST.schema.json")))
    print("MANIFEST.json valid;", len(m["checks"]), "checks")
except ImportError:
    print("MANIFEST.json written (jsonschema not importable here: validate with python3-vt)")
