#!/usr/bin/env python3
"""store_seed.py <id> <property> <json-file-with-meta-extra>: copy /tmp/seedtmp/<id>.diff and <id>_demo.py and the
verification log into /verif/seeded/<id>/ with a meta.json."""
import json, os, shutil, sys
sid, prop, extra = sys.argv[1], sys.argv[2], json.load(open(sys.argv[3]))
d = "/verif/seeded/%s" % sid
os.makedirs(d, exist_ok=True)
shutil.copy("/tmp/seedtmp/%s.diff" % sid, d + "/patch.diff")
shutil.copy("/tmp/seedtmp/%s_demo.py" % sid, d + "/demo.py")
log = open("/tmp/wt/verify_%s.log" % sid).read() if os.path.exists("/tmp/wt/verify_%s.log" % sid) else ""
meta = {"id": sid, "property": prop}
meta.update(extra)
meta["verification_log"] = [l for l in log.splitlines() if any(k in l for k in ("rc=", "passed", "stable_pass", "FAIL", "OK"))][:12]
json.dump(meta, open(d + "/meta.json", "w"), indent=1)
print("stored", d)
