#!/bin/sh
# run every registered quick check on /repo's current tree; print one line per property
cd /verif
rc_all=0
for p in C01 C02 C03 C04 C05 C06 C07 C08 C09 C10 C11 C12 C13 C14 C15 C16 C17 C18 C19 C20; do
  out=$(python3 check $p --tier ${1:-quick} 2>&1); rc=$?
  echo "$p rc=$rc $(echo "$out" | tail -1 | cut -c1-160)"
  [ $rc -ne 0 ] && rc_all=1 && echo "$out" | grep -E "VIOLATION|ANALYSIS-ERROR|^  C" | cut -c1-300
done
exit $rc_all
