"""Overlay generator: rename every function-local variable (not parameters, not names used by nested
functions) to <name>_rn in all sources.  Behaviour-preserving; used to measure name dependence of the rules."""
import ast, sys
sys.path.insert(0, '/verif')
from sa.cfg import target_names


class Renamer(ast.NodeTransformer):
    def __init__(self, names):
        self.names = names

    def visit_Name(self, node):
        if node.id in self.names:
            node.id = node.id + "_rn"
        return node


def rename_module(src: str) -> str:
    tree = ast.parse(src)
    for fn in [n for n in ast.walk(tree) if isinstance(n, (ast.FunctionDef, ast.AsyncFunctionDef))]:
        nested = [n for n in ast.walk(fn) if n is not fn and isinstance(n, (ast.FunctionDef, ast.Lambda, ast.ClassDef))]
        if nested:
            continue
        parent_nested = False
        params = {a.arg for a in fn.args.posonlyargs + fn.args.args + fn.args.kwonlyargs}
        if fn.args.vararg: params.add(fn.args.vararg.arg)
        if fn.args.kwarg: params.add(fn.args.kwarg.arg)
        assigned = set()
        for n in ast.walk(fn):
            if isinstance(n, ast.Assign):
                for t in n.targets: assigned |= set(target_names(t))
            elif isinstance(n, (ast.AugAssign, ast.AnnAssign)):
                assigned |= set(target_names(n.target))
            elif isinstance(n, (ast.For, ast.comprehension)):
                assigned |= set(target_names(n.target))
            elif isinstance(n, ast.With):
                for it in n.items:
                    if it.optional_vars is not None: assigned |= set(target_names(it.optional_vars))
            elif isinstance(n, (ast.Global, ast.Nonlocal)):
                params |= set(n.names)
            elif isinstance(n, (ast.Import, ast.ImportFrom)):
                params |= {(a.asname or a.name).split(".")[0] for a in n.names}
        # keyword argument names equal to local names must stay: only Name nodes are renamed
        names = assigned - params
        Renamer(names).visit(fn)
    return ast.unparse(tree) + "\n"


if __name__ == "__main__":
    from sa.model import load_sources, AnalysisError
    from selftest.runner import violations_of
    src = load_sources()
    # only top-level functions that are not closures are renamed; functions containing closures are left alone
    over = {}
    for k, v in src.items():
        over[k] = rename_module(v)
        compile(over[k], k, "exec")
    props = sys.argv[1:] or ["C01","C02","C03","C04","C05","C06","C07","C08","C09","C10","C11","C12","C13","C14","C16","C17","C18","C19"]
    for p in props:
        try:
            base = set(x[:4] for x in violations_of(p, src))
            new = [x[:4] for x in violations_of(p, over) if x[:4] not in base]
            print(p, "new violations:", new)
        except AnalysisError as e:
            print(p, "ANALYSIS-ERROR", str(e)[:220])
