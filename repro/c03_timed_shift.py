"""C03: the timed co-occurrence matrix depends only on time differences, whatever the absolute magnitude."""
import sys, numpy as np
import vectorizers as v
rng = np.random.RandomState(0)
docs = []
for _ in range(30):
    n = rng.randint(4, 12)
    t = np.cumsum(rng.exponential(5.0, size=n))
    docs.append([(str(rng.randint(0, 8)), float(x)) for x in t])
shift = [[(a, b + 1.6e9) for a, b in d] for d in docs]
kw = dict(window_radii=20.0, kernel_functions="geometric", window_functions="fixed")
m0 = v.TimedTokenCooccurrenceVectorizer(**kw).fit_transform(docs)
m1 = v.TimedTokenCooccurrenceVectorizer(**kw).fit_transform(shift)
d = abs(m0 - m1).max()
print("max abs difference under a shift of 1.6e9 s:", d)
sys.exit(0 if d < 1e-3 else 1)
