"""C10/C11: EM with epsilon thresholding must not index outside the row slice (run with NUMBA_BOUNDSCHECK=1)."""
import sys, numpy as np
import vectorizers as v
rng = np.random.RandomState(1)
docs = [[str(t) for t in rng.randint(0, 12, size=rng.randint(3, 15))] for _ in range(80)]
m = v.TokenCooccurrenceVectorizer(window_radii=2, n_iter=2, epsilon=0.08).fit_transform(docs)
print("ok", m.shape, m.nnz)
