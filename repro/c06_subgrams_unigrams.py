# C06 R6.5 (known finding, not repaired): subgrams mode with ngram_size >= 2 drops every unigram count.
# Run: cd /repo && /venv/bin/python /verif/repro/c06_subgrams_unigrams.py   (exit 1 on the pinned tree)
import warnings; warnings.filterwarnings("ignore")
import numpy as np
from vectorizers import NgramVectorizer
docs=[["a","b","a","c"],["b","b","a"]]
m=NgramVectorizer(ngram_size=2, ngram_behaviour="subgrams").fit(docs)
M=m._train_matrix.toarray()
bad=0
for label,j in m.column_label_dictionary_.items():
    want=[sum(1 for i in range(len(d)-len(label)+1) if tuple(d[i:i+len(label)])==tuple(label)) for d in docs]
    got=list(M[:,j])
    if want!=got:
        bad+=1; print("column",label,"expected",want,"got",got)
T=m.transform(docs).toarray()
if (T!=M).any(): print("transform differs from fit"); 
print("OK" if not bad else "FAIL: %d columns wrong"%bad)
raise SystemExit(1 if bad else 0)
