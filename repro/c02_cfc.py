"""C02: CountFeatureCompressionTransformer with n_components >= n_features: fit_transform == fit.transform."""
import sys, warnings, numpy as np, scipy.sparse
from vectorizers.transformers import CountFeatureCompressionTransformer
warnings.simplefilter("ignore")
X = scipy.sparse.csr_matrix(np.array([[1.0, 0, 2], [0, 3, 1], [4, 1, 0]]))
a = CountFeatureCompressionTransformer(n_components=5).fit_transform(X)
b = CountFeatureCompressionTransformer(n_components=5).fit(X).transform(X)
a = a.toarray() if scipy.sparse.issparse(a) else np.asarray(a); b = b.toarray() if scipy.sparse.issparse(b) else np.asarray(b)
d = np.abs(a - b).max()
print("max abs difference", d); sys.exit(0 if d < 1e-9 else 1)
