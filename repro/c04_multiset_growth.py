"""C04/C10: MultiSetCooccurrenceVectorizer must give the same matrix for a tiny coo_initial_memory (buffer growth) as for a large one."""
import sys, numpy as np
import vectorizers as v
rng = np.random.RandomState(0)
docs = [[list(rng.randint(0, 30, size=rng.randint(1, 6))) for _ in range(60)] for _ in range(40)]
docs = [[[str(t) for t in ms] for ms in d] for d in docs]
big = v.MultiSetCooccurrenceVectorizer(window_radii=3, coo_initial_memory="1 GiB").fit_transform(docs)
small = v.MultiSetCooccurrenceVectorizer(window_radii=3, coo_initial_memory="1k").fit_transform(docs)
d = abs(big - small).max()
print("max abs difference", d, "sum big", big.sum(), "sum small", small.sum())
sys.exit(0 if d < 1e-3 else 1)
