import warnings; warnings.filterwarnings("ignore")
import numpy as np
from vectorizers import BytePairEncodingVectorizer
docs = ["abababab cdcdcdcd abab cdcd", "abab abab cd cd cd", "xyxyxy abab cdcd", "the quick brown fox jumps over the lazy dog the quick"]*3
bad = 0
for mv in (3, 5, 8, 12, 50):
    m = BytePairEncodingVectorizer(max_vocab_size=mv, min_token_occurrence=1, return_type="sequences") if False else None
    try:
        m = BytePairEncodingVectorizer(max_vocab_size=mv, return_type="sequences")
    except TypeError as e:
        print(e); break
    a = m.fit_transform(docs)
    b = m.transform(docs)
    same = all(np.array_equal(x, y) for x, y in zip(a, b))
    print("max_vocab_size", mv, "tokens learned", len(m.tokens_), "code_list", len(m.code_list_), "fit_transform == transform:", same)
    bad += not same
raise SystemExit(1 if bad else 0)
