"""C18: hellinger of proportional vectors is finite; sparse_sum agrees with dense arithmetic."""
import sys, numpy as np
from vectorizers import distances as d
fails = []
x = np.array([0.3, 1.7, 2.9, 0.01, 5.5])
bad = [s for s in np.linspace(0.1, 50, 2000) if not np.isfinite(d.hellinger(x, s * x))]
if bad: fails.append("hellinger(x, s*x) is NaN for %d of 2000 scales, e.g. s=%r" % (len(bad), bad[0]))
i1, d1 = np.array([1, 5], dtype=np.int32), np.array([1.0, 2.0], dtype=np.float32)
i2, d2 = np.array([5, 7, 9], dtype=np.int32), np.array([3.0, 4.0, 5.0], dtype=np.float32)
ri, rd = d.sparse_sum(i1, d1, i2, d2)
if list(ri) != [1, 5, 7, 9] or list(rd) != [1.0, 5.0, 4.0, 5.0]: fails.append("sparse_sum indices %s data %s, expected [1, 5, 7, 9] [1, 5, 4, 5]" % (list(ri), list(rd)))
print("\n".join(fails) or "OK"); sys.exit(1 if fails else 0)
