"""C02/C08: WassersteinVectorizer fit_transform == transform for a non-cosine metric; memory_size must not matter."""
import numpy as np, sys, scipy.sparse
import vectorizers as v
rng = np.random.RandomState(0)
vectors = rng.normal(size=(30, 5))
X = scipy.sparse.csr_matrix(rng.poisson(0.4, size=(40, 30)).astype(float))
X = X[np.asarray(X.sum(axis=1)).ravel() > 0]
fails = []
for metric in ("cosine", "euclidean"):
    w = v.WassersteinVectorizer(metric=metric, n_components=4, random_state=1, reference_size=4)
    A = w.fit_transform(X, vectors=vectors); B = w.transform(X, vectors=vectors)
    d = np.abs(A - B).max()
    print(metric, "spmatrix max|fit_transform - transform| =", d)
    if d > 1e-6: fails.append("spmatrix %s %g" % (metric, d))
    Xl = [np.asarray(X[i].data, dtype=np.float64).copy() for i in range(X.shape[0])]
    Vl = [vectors[X[i].indices] for i in range(X.shape[0])]
    w = v.WassersteinVectorizer(metric=metric, input_method="lil", n_components=4, random_state=1, reference_size=4)
    A = w.fit_transform(Xl, vectors=Vl); B = w.transform(Xl, vectors=Vl)
    d = np.abs(A - B).max()
    print(metric, "lil max|fit_transform - transform| =", d)
    if d > 1e-6: fails.append("lil %s %g" % (metric, d))
    try:
        w2 = v.WassersteinVectorizer(metric=metric, input_method="lil", n_components=4, random_state=1, reference_size=4, memory_size="100")
        w2.fit(Xl, vectors=Vl); C = w2.transform(Xl, vectors=Vl)
    except ZeroDivisionError as ex:
        fails.append("lil memory_size=100: %r" % ex)
print("\n".join(fails) or "OK"); sys.exit(1 if fails else 0)
