"""C09/C10: strings of length 0/1 (and strings collapsing to one code) must encode losslessly."""
import sys, numpy as np
import vectorizers as v
b = v.BytePairEncodingVectorizer(max_vocab_size=20, return_type="sequences", max_char_code=127)
train = ["abababab", "abab", "a", "", "ab"]
enc_fit = b.fit_transform(train)
enc_tr = b.transform(train)
from vectorizers.mixed_gram_vectorizer import bpe_decode
fails = []
for s, e1, e2 in zip(train, enc_fit, enc_tr):
    for nm, e in (("fit_transform", e1), ("transform", e2)):
        try:
            d = bpe_decode(np.asarray(e), b.tokens_, b.max_char_code_)
        except Exception as ex:
            d = "<%r>" % ex
        if d != s:
            fails.append("%s: %r encodes to %s which decodes to %r" % (nm, s, list(e), d))
print("\n".join(fails) or "OK"); sys.exit(1 if fails else 0)
