"""NgramVectorizer with a supplied ngram_dictionary whose indices are not 0..n-1 (C01 R1.1).

Before 9fa0875 fit and transform sized their CSR matrices with len(column_label_dictionary_) while the stored column
ids come from the dictionary's *values*: {"a": 0, "b": 3} gave a (rows, 2) matrix with column id 3 stored in it - the
count of "b" shows up in another row's cell of the dense view, or scipy writes past the buffer.  Run from /repo:
    /venv/bin/python /verif/repro/c01_ngram_dictionary_sparse_indices.py
exit 0 = the matrices are as wide as the largest column id and each count sits in its dictionary column."""
import sys
import numpy as np
from vectorizers import NgramVectorizer

docs = [["a", "b", "a"], ["b"]]
d = {"a": 0, "b": 3}
v = NgramVectorizer(ngram_dictionary=d)
m = v.fit_transform(docs)
t = v.transform(docs)
ok = True
for name, mat in (("fit_transform", m), ("transform", t)):
    if mat.shape != (2, 4) or mat.indices.max() >= mat.shape[1]:
        print("FAIL %s: shape %s with stored column ids %s" % (name, mat.shape, sorted(set(mat.indices))))
        ok = False
        continue
    dense = mat.toarray()
    if not (np.array_equal(dense[:, 0], [2, 0]) and np.array_equal(dense[:, 3], [1, 1])):
        print("FAIL %s: counts not in the dictionary's columns:\n%s" % (name, dense))
        ok = False
print("OK" if ok else "VIOLATED")
sys.exit(0 if ok else 1)
