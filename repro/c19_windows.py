"""C19: integer window_sample selects every n-th position; SequentialDifferenceTransformer works for stride >= 2."""
import sys, numpy as np
from vectorizers.transformers import SlidingWindowTransformer, SequentialDifferenceTransformer
fails = []
x = [np.arange(20, dtype=np.float64)]
w = SlidingWindowTransformer(window_width=6, window_sample=2).fit(x)
if list(w.window_sample_) != [0, 2, 4]: fails.append("window_sample=2 selects %s, expected [0, 2, 4]" % list(w.window_sample_))
else:
    out = w.transform(x)[0]
    if out.shape != (15, 3) or list(out[1]) != [1.0, 3.0, 5.0]: fails.append("window_sample=2 output %s %s" % (out.shape, out[:2]))
for stride in (1, 2, 3):
    d = SequentialDifferenceTransformer(stride=stride).fit(x).transform(x)[0]
    exp = x[0][stride:] - x[0][:-stride]
    if d.shape[1:] != (1,) or not np.array_equal(d.ravel(), exp): fails.append("stride %d: got shape %s, expected %d differences of %g" % (stride, d.shape, len(exp), stride))
print("\n".join(fails) or "OK"); sys.exit(1 if fails else 0)
