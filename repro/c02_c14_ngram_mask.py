"""C02/C14: NgramVectorizer with a mask string must give transform(X) == fit_transform(X)."""
import numpy as np, sys
import vectorizers as v
X = [["a", "x", "a", "b"], ["a", "b", "a", "b"], ["y", "a", "b"]]
m = v.NgramVectorizer(ngram_size=2, min_occurrences=2, mask_string="[M]")
A = m.fit_transform(X).toarray()
B = m.transform(X).toarray()
print(A); print(B)
ok = A.shape == B.shape and np.array_equal(A, B)
print("OK" if ok else "DIFFERENT"); sys.exit(0 if ok else 1)
