# C04: coo_sum_duplicates drops the last run of a flush when the stale slot one past the live region holds the same key.
import warnings; warnings.filterwarnings("ignore")
import numpy as np
from vectorizers import TokenCooccurrenceVectorizer
rng = np.random.default_rng(0)
V, N, R = 10, 200_000, 5
doc = [str(t) for t in rng.integers(0, V, size=N)]
bad = 0
for mem in ("2 GiB", "1M", "100k"):
    m = TokenCooccurrenceVectorizer(window_radii=R, window_orientations="after", window_functions="fixed", kernel_functions="flat",
                                    normalize_windows=False, coo_initial_memory=mem).fit_transform([doc])
    total = int(round(m.sum()))
    expected = sum(min(R, N - 1 - i) for i in range(N))
    print("coo_initial_memory=%-6s events counted %d expected %d lost %d" % (mem, total, expected, expected - total))
    bad += total != expected
raise SystemExit(1 if bad else 0)
