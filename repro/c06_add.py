"""C06: the sum of two unigram NgramVectorizers must transform like one fitted on the concatenated corpus."""
import numpy as np, sys
import vectorizers as v
A = [["a", "b", "a"], ["b", "c"]]; B = [["c", "d"], ["d", "d", "e"]]
s = v.NgramVectorizer().fit(A) + v.NgramVectorizer().fit(B)
j = v.NgramVectorizer().fit(A + B)
T = [["a", "e", "d", "d"], ["c"]]
ms, mj = s.transform(T), j.transform(T)
cs = {s.column_index_dictionary_[i]: ms[:, i].toarray().ravel().tolist() for i in range(ms.shape[1])}
cj = {j.column_index_dictionary_[i]: mj[:, i].toarray().ravel().tolist() for i in range(mj.shape[1])}
print(cs); print(cj)
print("OK" if cs == cj else "DIFFERENT"); sys.exit(0 if cs == cj else 1)
