# C08 R8.5: fit with supplied reference vectors and a sparse matrix raised UnboundLocalError (fixed in 85bd1b1).
# Run: cd /repo && /venv/bin/python /verif/repro/c08_block_size_reference.py  (exit 1 on 54088bc, exit 0 on 85bd1b1)
import numpy as np, scipy.sparse as sp, warnings
warnings.filterwarnings("ignore")
from vectorizers import WassersteinVectorizer, SinkhornVectorizer
rng=np.random.default_rng(0)
X=sp.random(30,12,density=0.4,random_state=1,format='csr'); X.data[:]=rng.random(X.nnz)+0.1
vec=rng.normal(size=(12,3))
ref=rng.normal(size=(5,3)); refd=np.full(5,0.2)
bad=0
for cls,kw in ((WassersteinVectorizer,{}),(WassersteinVectorizer,{'method':'LOT_sinkhorn'}),(SinkhornVectorizer,{})):
    try:
        m=cls(n_components=4, random_state=0, **kw)
        out=m.fit_transform(X, vectors=vec, reference_distribution=refd, reference_vectors=ref)
        print(cls.__name__,kw,'ok',out.shape)
    except Exception as e:
        bad+=1; print(cls.__name__,kw,'RAISES',type(e).__name__,e)
lst_d=[np.asarray(X[i].data) for i in range(30)]; lst_v=[vec[X[i].indices] for i in range(30)]
try:
    m=WassersteinVectorizer(n_components=4, random_state=0, input_method='lil') if 'input_method' in WassersteinVectorizer.__init__.__code__.co_varnames else WassersteinVectorizer(n_components=4, random_state=0)
    print('lists', m.fit_transform(lst_d, vectors=lst_v, reference_distribution=refd, reference_vectors=ref).shape)
except Exception as e: print('lists RAISES',type(e).__name__,e)
raise SystemExit(1 if bad else 0)
