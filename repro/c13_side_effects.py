"""C13: fit / transform must not modify their arguments or constructor-parameter objects."""
import sys, copy, numpy as np, scipy.sparse
import vectorizers as v
from vectorizers.transformers import RowDenoisingTransformer, InformationWeightTransformer, information_weight
fails = []
# user dictionary + mask string
d = {"a": 0, "b": 1, "c": 2}; d0 = dict(d)
X = [["a", "b", "z", "c", "a"], ["c", "z", "b"]]
v.TokenCooccurrenceVectorizer(token_dictionary=d, mask_string="[M]", window_radii=1).fit(X)
if d != d0: fails.append("TokenCooccurrenceVectorizer.fit changed the user's token_dictionary: %s" % d)
d = dict(d0)
v.NgramVectorizer(token_dictionary=d, mask_string="[M]").fit(X)
if d != d0: fails.append("NgramVectorizer.fit changed the user's token_dictionary: %s" % d)
# lil distributions
rng = np.random.RandomState(0)
dist = [rng.randint(1, 5, size=k).astype(np.float64) for k in (3, 4, 5, 3)]
vecs = [rng.normal(size=(len(x), 3)) for x in dist]
d0 = [x.copy() for x in dist]
w = v.WassersteinVectorizer(input_method="lil", n_components=2, reference_size=3, random_state=0).fit(dist, vectors=vecs)
if any(not np.array_equal(a, b) for a, b in zip(dist, d0)): fails.append("WassersteinVectorizer.fit (lil) normalised the caller's distributions in place")
dist = [x.copy() for x in d0]
w.transform(dist, vectors=vecs)
if any(not np.array_equal(a, b) for a, b in zip(dist, d0)): fails.append("WassersteinVectorizer.transform (lil) normalised the caller's distributions in place")
# sparse matrices
M = scipy.sparse.csr_matrix(np.array([[1.0, 0, 2], [0, 3, 0]])); M.data[0] = 0.0
nnz0 = M.nnz
RowDenoisingTransformer().fit(M)
if M.nnz != nnz0: fails.append("RowDenoisingTransformer.fit removed explicit zeros from the caller's matrix (nnz %d -> %d)" % (nnz0, M.nnz))
C = scipy.sparse.csc_matrix((np.array([1.0, 2.0, 3.0]), np.array([2, 0, 1]), np.array([0, 2, 3])), shape=(3, 2))
ind0 = C.indices.copy()
information_weight(C)
if not np.array_equal(C.indices, ind0): fails.append("information_weight re-ordered the indices of the caller's CSC matrix")
C = scipy.sparse.csc_matrix((np.array([1.0, 2.0, 3.0]), np.array([2, 0, 1]), np.array([0, 2, 3])), shape=(3, 2))
InformationWeightTransformer().fit(C)
if not np.array_equal(C.indices, ind0): fails.append("InformationWeightTransformer.fit re-ordered the indices of the caller's CSC matrix")
print("\n".join(fails) or "OK"); sys.exit(1 if fails else 0)
