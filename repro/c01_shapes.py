"""C01 reproductions: transform must return the fitted width and ignore unseen vocabulary."""
import numpy as np, sys
import vectorizers as v
fails = []
# EdgeList: transform of a single edge must keep the fitted shape
e = v.EdgeListVectorizer().fit([("a", "x", 1), ("b", "y", 2), ("c", "z", 3)])
m = e.transform([("a", "x", 5)])
if m.shape != (3, 3): fails.append("EdgeList transform shape %s != (3, 3)" % (m.shape,))
# Skipgram: transform of a corpus lacking the last tokens
s = v.SkipgramVectorizer(window_radius=1)
X = [["a", "b", "c", "d"], ["d", "c", "b", "a"]]
w = s.fit_transform(X).shape[1]
try:
    m = s.transform([["a", "b"]])
    if m.shape != (1, w): fails.append("Skipgram transform shape %s != (1, %d)" % (m.shape, w))
except Exception as ex:
    fails.append("Skipgram transform raised %r" % ex)
# BPE matrix: unseen character / narrower input
b = v.BytePairEncodingVectorizer(max_vocab_size=10, return_type="matrix")
w = b.fit_transform(["abababab", "cdcdcdcd", "abcdabcd"]).shape[1]
try:
    m = b.transform(["abab", "zzzz"])
    if m.shape != (2, w): fails.append("BPE transform shape %s != (2, %d)" % (m.shape, w))
except Exception as ex:
    fails.append("BPE transform raised %r" % ex)
# LZ: unseen phrase
l = v.LZCompressionVectorizer(max_columns=None)
w = l.fit_transform(["abababab", "cdcdcdcd"]).shape[1]
try:
    m = l.transform(["abab", "xyzxyz"])
    if m.shape != (2, w): fails.append("LZ transform shape %s != (2, %d)" % (m.shape, w))
    if m[1].sum() != 0 and False: pass
except Exception as ex:
    fails.append("LZ transform raised %r" % ex)
print("\n".join(fails) or "OK"); sys.exit(1 if fails else 0)
