"""C06: SkipgramVectorizer column labels must name the pair that was counted, also with a supplied dictionary
that contains tokens absent from the corpus."""
import sys, vectorizers as v
d = {"a": 0, "b": 1, "c": 2, "zzz": 3}
X = [["a", "b", "c", "a"], ["c", "b", "a"]]
s = v.SkipgramVectorizer(token_dictionary=dict(d), window_radius=1); m = s.fit_transform(X)
r = v.SkipgramVectorizer(window_radius=1); mr = r.fit_transform(X)
got = {k: m[:, i].toarray().ravel().tolist() for k, i in s.column_label_dictionary_.items()}
ref = {k: mr[:, i].toarray().ravel().tolist() for k, i in r.column_label_dictionary_.items()}
print(got); print(ref)
ok = got == ref
print("OK" if ok else "column labels differ from the model fitted without a dictionary"); sys.exit(0 if ok else 1)
