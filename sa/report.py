"""Rule results, known-findings matching, output protocol and evidence files."""
from __future__ import annotations

import json
import os
import time
from dataclasses import dataclass, field, asdict
from typing import Dict, List, Optional

from .model import AnalysisError

VERIF_ROOT = os.path.dirname(os.path.dirname(os.path.abspath(__file__)))
KNOWN_FILE = os.path.join(VERIF_ROOT, "known_findings.json")
EVIDENCE_DIR = os.path.join(VERIF_ROOT, "evidence")
REPLAY_DIR = os.path.join(EVIDENCE_DIR, "replay")


@dataclass
class Instance:
    rule: str
    file: str
    function: str  # qualified name inside the file ('' for module level)
    construct: str  # stable, rule-chosen descriptor of the construct (no line numbers)
    verdict: str  # ok | violation | note | exception
    what: str = ""
    line: int = 0  # informational only
    nontrivial: bool = True
    path: Optional[List[str]] = None  # for path rules: entry -> offending exit

    def key(self):
        return (self.rule, self.file, self.function, self.construct)

    def where(self) -> str:
        return "%s:%d %s" % (self.file, self.line, self.function or "<module>")


@dataclass
class RuleResult:
    rule: str
    title: str
    instances: List[Instance] = field(default_factory=list)
    floor: int = 1  # fewer instances than this => the rule lost its anchors
    not_analysed: List[str] = field(default_factory=list)
    facts: Dict[str, object] = field(default_factory=dict)

    def add(self, file, function, construct, verdict, what="", line=0, nontrivial=True, path=None):
        inst = Instance(self.rule, file, function, construct, verdict, what, line, nontrivial, path)
        self.instances.append(inst)
        return inst

    def ok(self, f, construct, what="", line=0, nontrivial=True):
        return self.add(f.file, f.qualname, construct, "ok", what, line, nontrivial)

    def bad(self, f, construct, what, line=0, path=None):
        return self.add(f.file, f.qualname, construct, "violation", what, line, True, path)

    def note(self, f, construct, what, line=0):
        return self.add(f.file, f.qualname, construct, "note", what, line, False)

    def exception(self, f, construct, what, line=0):
        """A reviewed exception: the construct has the violating shape, is listed in
        the rule's table with a reason, and still has the shape that justified it."""
        return self.add(f.file, f.qualname, construct, "exception", what, line, True)

    @property
    def violations(self) -> List[Instance]:
        return [i for i in self.instances if i.verdict == "violation"]

    def check_floor(self):
        counted = [i for i in self.instances if i.verdict != "note"]
        if len(counted) < self.floor:
            raise AnalysisError(
                "rule %s matched %d instance(s), below the %d confirmed by hand for this code base "
                "(an anchor moved or vanished; the rule would pass vacuously)" % (self.rule, len(counted), self.floor)
            )


def load_known() -> List[dict]:
    if not os.path.exists(KNOWN_FILE):
        return []
    with open(KNOWN_FILE, "r", encoding="utf-8") as fh:
        data = json.load(fh)
    return data.get("findings", [])


def is_known(prop: str, inst: Instance, known: List[dict]) -> Optional[dict]:
    for k in known:
        if (
            k.get("status") == "known"
            and k.get("property") == prop
            and k.get("rule") == inst.rule
            and k.get("file") == inst.file
            and k.get("function") == inst.function
            and k.get("construct") == inst.construct
        ):
            return k
    return None


def write_json(path: str, obj) -> None:
    os.makedirs(os.path.dirname(path), exist_ok=True)
    tmp = path + ".tmp"
    with open(tmp, "w", encoding="utf-8") as fh:
        json.dump(obj, fh, indent=1, sort_keys=False, default=str)
        fh.write("\n")
    os.replace(tmp, path)


class PropertyRun:
    """Collects the rule results of one property check and turns them into the
    output protocol + evidence file."""

    def __init__(self, prop: str, tier: str, seed: int, claim: str, not_decided: str):
        self.prop = prop
        self.tier = tier
        self.seed = seed
        self.claim = claim
        self.not_decided = not_decided
        self.results: List[RuleResult] = []
        self.t0 = time.time()
        self.extra: Dict[str, object] = {}
        self.assumptions: List[str] = []
        self.lines: List[str] = []

    def add(self, rr: RuleResult):
        rr.check_floor()
        self.results.append(rr)

    def finish(self, repo_facts: Dict[str, object], replay_only: Optional[dict] = None) -> int:
        known = load_known()
        new_violations: List[Instance] = []
        known_hits: List[Instance] = []
        for rr in self.results:
            for inst in rr.violations:
                if is_known(self.prop, inst, known):
                    known_hits.append(inst)
                else:
                    new_violations.append(inst)
        out: List[str] = []
        for inst in known_hits:
            out.append(
                "KNOWN-FINDING: property=%s %s %s::%s [%s] %s"
                % (self.prop, inst.rule, inst.file, inst.function, inst.construct, inst.what)
            )
        # clear stale replay files of this property (never while replaying one of them)
        if os.path.isdir(REPLAY_DIR) and replay_only is None:
            for fn in os.listdir(REPLAY_DIR):
                if fn.startswith(self.prop + "-"):
                    try:
                        os.remove(os.path.join(REPLAY_DIR, fn))
                    except OSError:
                        pass
        for k, inst in enumerate(new_violations):
            path = os.path.join(REPLAY_DIR, "%s-%d.json" % (self.prop, k))
            if replay_only is not None:
                continue
            write_json(
                path,
                {
                    "property": self.prop,
                    "rule": inst.rule,
                    "file": inst.file,
                    "function": inst.function,
                    "construct": inst.construct,
                    "line": inst.line,
                    "what": inst.what,
                    "path": inst.path,
                },
            )
            out.append("  %s %s %s [%s]: %s" % (self.prop, inst.rule, inst.where(), inst.construct, inst.what))
            out.append("VIOLATION property=%s replay=%s" % (self.prop, path))
        all_inst = [i for rr in self.results for i in rr.instances]
        counted = [i for i in all_inst if i.verdict != "note"]
        nontrivial = {i.key() for i in counted if i.nontrivial}
        obligations = len(counted)
        discharged = len([i for i in counted if i.verdict in ("ok", "exception")])
        samples = []
        for rr in self.results:
            for inst in rr.instances[:3]:
                samples.append(
                    {
                        "rule": inst.rule,
                        "at": inst.where(),
                        "construct": inst.construct,
                        "verdict": inst.verdict,
                        "what": inst.what,
                    }
                )
        rules = []
        for rr in self.results:
            rules.append(
                {
                    "rule": rr.rule,
                    "title": rr.title,
                    "instances": len([i for i in rr.instances if i.verdict != "note"]),
                    "floor": rr.floor,
                    "ok": len([i for i in rr.instances if i.verdict == "ok"]),
                    "violations": len(rr.violations),
                    "reviewed_exceptions": [
                        {"at": i.where(), "construct": i.construct, "reason": i.what}
                        for i in rr.instances
                        if i.verdict == "exception"
                    ],
                    "notes": [
                        {"at": i.where(), "construct": i.construct, "what": i.what}
                        for i in rr.instances
                        if i.verdict == "note"
                    ],
                    "not_analysed": rr.not_analysed,
                    "facts": rr.facts,
                    "all_instances": [
                        {"at": i.where(), "construct": i.construct, "verdict": i.verdict, "what": i.what}
                        for i in rr.instances
                        if i.verdict != "note"
                    ],
                }
            )
        coverage = {
            "evaluations": max(1, obligations),
            "distinct_nontrivial": len(nontrivial),
            "rule": "every instance of each structural rule enumerated from /repo's current source "
            "(call sites, loops, constructors, kernels, registries); an instance is non-trivial when the "
            "rule had to reason about a matching construct (distinct by rule, file, function, construct)",
            "samples": samples or [{"note": "no instances"}],
            "obligations": obligations,
            "discharged": discharged,
            "known_findings_present": len(known_hits),
            "exhaustive": True,
            "explanation": "Static analysis (source is parsed, never executed). Decides the structural clauses: "
            + self.claim
            + "  NOT decided (runtime quantities): "
            + self.not_decided,
            "rules": rules,
            "analysed": repo_facts,
        }
        coverage.update(self.extra)
        ev = {
            "property_id": self.prop,
            "tier": self.tier,
            "seed": self.seed,
            "level": "other",
            "coverage": coverage,
            "assumptions": self.assumptions
            + [
                "call and attribute resolution is by our own import/MRO resolver (no type checker is available); "
                "unresolved calls are external and judged by the explicit library tables",
                "third-party behaviour (numpy, scipy, sklearn, numba, pynndescent) is as documented",
            ],
            "wall_s": round(time.time() - self.t0, 3),
            "violations": len(new_violations),
        }
        if replay_only is None:
            write_json(os.path.join(EVIDENCE_DIR, "%s.json" % self.prop), ev)
        self.lines = out
        self.new_violations = new_violations
        self.known_hits = known_hits
        return 1 if new_violations else 0
