"""Engine B - per-function statement-level control-flow graph and analyses on it.

Nodes are individual statements plus header nodes for ``if``/``while`` tests and
``for`` loops.  Edge labels: 'true' / 'false' (tests), 'iter' / 'exhaust' (for
loops; the loop target is bound by a separate 'bind' node on the 'iter' edge, so
the zero-trip edge leaves it unassigned), 'back', 'exc' (try body -> handler).
"""
from __future__ import annotations

import ast
from typing import Dict, Iterable, List, Optional, Sequence, Set, Tuple

from .model import AnalysisError, walk_no_nested

Edge = Tuple[int, Optional[str]]


class Node:
    __slots__ = ("id", "kind", "ast", "owner")

    def __init__(self, id: int, kind: str, node: Optional[ast.AST], owner: Optional[ast.AST] = None):
        self.id = id
        self.kind = kind  # entry exit raise stmt test for bind handler with
        self.ast = node
        self.owner = owner  # enclosing compound statement for header nodes

    @property
    def lineno(self) -> int:
        return getattr(self.ast, "lineno", 0) or getattr(self.owner, "lineno", 0) or 0

    def __repr__(self):
        return "<N%d %s L%d>" % (self.id, self.kind, self.lineno)


class _Loop:
    def __init__(self, cont: int, finally_depth: int):
        self.cont = cont
        self.breaks: List[Edge] = []
        self.finally_depth = finally_depth


class CFG:
    def __init__(self, fn: ast.FunctionDef):
        self.fn = fn
        self.nodes: List[Node] = []
        self.succ: Dict[int, List[Edge]] = {}
        self.pred: Dict[int, List[Edge]] = {}
        self.stmt_node: Dict[int, int] = {}  # id(ast stmt) -> node id (header node for compounds)
        self.entry = self._new("entry", None)
        self.exit = self._new("exit", None)
        self.raise_exit = self._new("raise", None)
        self._loops: List[_Loop] = []
        self._finallies: List[Sequence[ast.stmt]] = []
        self._handlers: List[List[int]] = []
        out = self._stmts(fn.body, [(self.entry, None)])
        self._connect(out, self.exit)  # fall-through exit
        self.fallthrough_preds = [s for s, _ in out]

    # ------------------------------------------------------------------ build
    def _new(self, kind: str, node, owner=None) -> int:
        n = Node(len(self.nodes), kind, node, owner)
        self.nodes.append(n)
        self.succ[n.id] = []
        self.pred[n.id] = []
        if self._handlers_active() and kind not in ("entry", "exit", "raise", "handler"):
            for h in self._handlers[-1]:
                self._edge(n.id, h, "exc")
        return n.id

    def _handlers_active(self) -> bool:
        return bool(getattr(self, "_handlers", None)) and bool(self._handlers[-1])

    def _edge(self, a: int, b: int, label: Optional[str]) -> None:
        if (b, label) not in self.succ[a]:
            self.succ[a].append((b, label))
            self.pred[b].append((a, label))

    def _connect(self, frontier: List[Edge], target: int) -> None:
        for src, label in frontier:
            self._edge(src, target, label)

    def _stmts(self, stmts: Sequence[ast.stmt], frontier: List[Edge]) -> List[Edge]:
        for s in stmts:
            frontier = self._stmt(s, frontier)
        return frontier

    def _run_finallies(self, frontier: List[Edge], down_to: int) -> List[Edge]:
        """Inline copies of pending ``finally`` bodies (innermost first) for an
        abrupt exit that leaves try statements above depth `down_to`."""
        saved = self._finallies
        i = len(saved)
        while i > down_to:
            i -= 1
            body = saved[i]
            self._finallies = saved[:i]
            frontier = self._stmts(body, frontier)
        self._finallies = saved
        return frontier

    def _stmt(self, s: ast.stmt, frontier: List[Edge]) -> List[Edge]:
        if isinstance(s, ast.If):
            t = self._new("test", s.test, s)
            self.stmt_node[id(s)] = t
            self._connect(frontier, t)
            a = self._stmts(s.body, [(t, "true")])
            b = self._stmts(s.orelse, [(t, "false")])
            return a + b
        if isinstance(s, ast.While):
            t = self._new("test", s.test, s)
            self.stmt_node[id(s)] = t
            self._connect(frontier, t)
            loop = _Loop(t, len(self._finallies))
            self._loops.append(loop)
            body = self._stmts(s.body, [(t, "true")])
            self._loops.pop()
            for src, _ in body:
                self._edge(src, t, "back")
            always = isinstance(s.test, ast.Constant) and bool(s.test.value)
            out = [] if always else self._stmts(s.orelse, [(t, "false")])
            return out + loop.breaks
        if isinstance(s, (ast.For, ast.AsyncFor)):
            h = self._new("for", s.iter, s)
            self.stmt_node[id(s)] = h
            self._connect(frontier, h)
            b = self._new("bind", s.target, s)
            self._edge(h, b, "iter")
            loop = _Loop(h, len(self._finallies))
            self._loops.append(loop)
            body = self._stmts(s.body, [(b, None)])
            self._loops.pop()
            for src, _ in body:
                self._edge(src, h, "back")
            out = self._stmts(s.orelse, [(h, "exhaust")])
            return out + loop.breaks
        if isinstance(s, ast.Break):
            n = self._new("stmt", s)
            self.stmt_node[id(s)] = n
            self._connect(frontier, n)
            if not self._loops:
                raise AnalysisError("break outside loop")
            loop = self._loops[-1]
            loop.breaks.extend(self._run_finallies([(n, None)], loop.finally_depth))
            return []
        if isinstance(s, ast.Continue):
            n = self._new("stmt", s)
            self.stmt_node[id(s)] = n
            self._connect(frontier, n)
            loop = self._loops[-1]
            for src, lab in self._run_finallies([(n, None)], loop.finally_depth):
                self._edge(src, loop.cont, "back")
            return []
        if isinstance(s, ast.Return):
            n = self._new("stmt", s)
            self.stmt_node[id(s)] = n
            self._connect(frontier, n)
            self._connect(self._run_finallies([(n, None)], 0), self.exit)
            return []
        if isinstance(s, ast.Raise):
            n = self._new("stmt", s)
            self.stmt_node[id(s)] = n
            self._connect(frontier, n)
            if not self._handlers_active():
                self._connect(self._run_finallies([(n, None)], 0), self.raise_exit)
            return []
        if isinstance(s, ast.Try) or type(s).__name__ == "TryStar":
            hnodes = [self._new("handler", h, s) for h in s.handlers]
            first = self._new("stmt", ast.Pass(), s)  # try entry marker
            self.stmt_node[id(s)] = first
            self._connect(frontier, first)
            if s.finalbody:
                self._finallies.append(s.finalbody)
            self._handlers.append(hnodes)
            body = self._stmts(s.body, [(first, None)])
            self._handlers.pop()
            body = self._stmts(s.orelse, body)
            outs = list(body)
            for hn, h in zip(hnodes, s.handlers):
                outs += self._stmts(h.body, [(hn, None)])
            if s.finalbody:
                self._finallies.pop()
                outs = self._stmts(s.finalbody, outs)
            return outs
        if isinstance(s, (ast.With, ast.AsyncWith)):
            n = self._new("with", s, s)
            self.stmt_node[id(s)] = n
            self._connect(frontier, n)
            return self._stmts(s.body, [(n, None)])
        n = self._new("stmt", s)
        self.stmt_node[id(s)] = n
        self._connect(frontier, n)
        return [(n, None)]

    # ------------------------------------------------------------------ queries
    def node_for(self, stmt: ast.AST) -> Optional[int]:
        return self.stmt_node.get(id(stmt))

    def reachable(self, start: int, avoid: Iterable[int] = (), forward: bool = True) -> Set[int]:
        avoid = set(avoid)
        seen: Set[int] = set()
        todo = [start]
        adj = self.succ if forward else self.pred
        while todo:
            n = todo.pop()
            if n in seen or n in avoid:
                continue
            seen.add(n)
            todo.extend(t for t, _ in adj[n])
        return seen

    def live_nodes(self) -> Set[int]:
        return self.reachable(self.entry)

    def must_pass(self, through: Iterable[int], target: int, start: Optional[int] = None) -> bool:
        """Does every path start->target pass a node of `through`?"""
        start = self.entry if start is None else start
        through = set(through)
        if target in through:
            return True
        return target not in self.reachable(start, avoid=through)

    def dominators(self) -> Dict[int, Set[int]]:
        live = self.live_nodes()
        dom: Dict[int, Set[int]] = {n: set(live) for n in live}
        dom[self.entry] = {self.entry}
        changed = True
        order = sorted(live)
        while changed:
            changed = False
            for n in order:
                if n == self.entry:
                    continue
                preds = [p for p, _ in self.pred[n] if p in live]
                if not preds:
                    continue
                new = set.intersection(*(dom[p] for p in preds)) | {n}
                if new != dom[n]:
                    dom[n] = new
                    changed = True
        return dom

    def edge_dominates(self, test_node: int, label: str, target: int) -> bool:
        """Is `target` reachable from entry only through the `label` edge of
        `test_node` (i.e. the condition had that polarity on the way here)?"""
        # remove the other outgoing edges of test_node: target must become
        # unreachable if we remove the label-edge instead.
        seen: Set[int] = set()
        todo = [self.entry]
        while todo:
            n = todo.pop()
            if n in seen:
                continue
            seen.add(n)
            for t, lab in self.succ[n]:
                if n == test_node and lab == label:
                    continue
                todo.append(t)
        return target not in seen

    def guards_of(self, target: int) -> List[Tuple[int, str]]:
        """All (test node, polarity) whose edge dominates `target`."""
        out = []
        for n in self.nodes:
            if n.kind in ("test", "for"):
                for lab in {l for _, l in self.succ[n.id] if l in ("true", "false", "iter", "exhaust")}:
                    if self.edge_dominates(n.id, lab, target):
                        out.append((n.id, lab))
        return out


# --------------------------------------------------------------------------- defs / uses


def target_names(t: ast.AST) -> List[str]:
    out: List[str] = []
    if isinstance(t, ast.Name):
        out.append(t.id)
    elif isinstance(t, (ast.Tuple, ast.List)):
        for e in t.elts:
            out += target_names(e)
    elif isinstance(t, ast.Starred):
        out += target_names(t.value)
    return out


def node_defs(n: Node) -> List[str]:
    a = n.ast
    if n.kind == "bind":
        return target_names(a)
    if n.kind == "handler":
        return [a.name] if getattr(a, "name", None) else []
    if n.kind == "with":
        out = []
        for item in a.items:
            if item.optional_vars is not None:
                out += target_names(item.optional_vars)
        return out
    if n.kind != "stmt" or a is None:
        return []
    if isinstance(a, ast.Assign):
        out = []
        for t in a.targets:
            out += target_names(t)
        return out
    if isinstance(a, (ast.AugAssign, ast.AnnAssign)):
        return target_names(a.target) if (not isinstance(a, ast.AnnAssign) or a.value is not None) else []
    if isinstance(a, (ast.FunctionDef, ast.AsyncFunctionDef, ast.ClassDef)):
        return [a.name]
    if isinstance(a, (ast.Import, ast.ImportFrom)):
        return [(x.asname or x.name).split(".")[0] for x in a.names]
    out = []
    for sub in walk_no_nested(a):
        if isinstance(sub, ast.NamedExpr):
            out += target_names(sub.target)
    return out


def _comp_bound(e: ast.AST) -> Set[str]:
    out: Set[str] = set()
    for g in e.generators:
        out.update(target_names(g.target))
    return out


def expr_uses(e: Optional[ast.AST]) -> List[ast.Name]:
    """Name nodes loaded by an expression in the *enclosing function's* scope
    (comprehension and lambda bound variables excluded)."""
    out: List[ast.Name] = []

    def go(x: ast.AST, bound: frozenset):
        if isinstance(x, ast.Name):
            if isinstance(x.ctx, ast.Load) and x.id not in bound:
                out.append(x)
            return
        if isinstance(x, (ast.ListComp, ast.SetComp, ast.GeneratorExp, ast.DictComp)):
            b = bound | _comp_bound(x)
            # first iterable is evaluated in the enclosing scope
            go(x.generators[0].iter, bound)
            for i, g in enumerate(x.generators):
                if i:
                    go(g.iter, b)
                for c in g.ifs:
                    go(c, b)
            if isinstance(x, ast.DictComp):
                go(x.key, b)
                go(x.value, b)
            else:
                go(x.elt, b)
            return
        if isinstance(x, ast.Lambda):
            a = x.args
            names = {p.arg for p in a.posonlyargs + a.args + a.kwonlyargs}
            if a.vararg:
                names.add(a.vararg.arg)
            if a.kwarg:
                names.add(a.kwarg.arg)
            go(x.body, bound | names)
            return
        if isinstance(x, (ast.FunctionDef, ast.AsyncFunctionDef, ast.ClassDef)):
            for d in x.decorator_list:
                go(d, bound)
            return
        for c in ast.iter_child_nodes(x):
            go(c, bound)

    if e is not None:
        go(e, frozenset())
    return out


def node_uses(n: Node) -> List[ast.Name]:
    a = n.ast
    if a is None:
        return []
    if n.kind in ("test", "for"):
        return expr_uses(a)
    if n.kind == "bind":
        # subscripts/attributes in the target are uses
        return [x for x in expr_uses(a)]
    if n.kind == "handler":
        return expr_uses(a.type) if a.type is not None else []
    if n.kind == "with":
        out = []
        for item in a.items:
            out += expr_uses(item.context_expr)
        return out
    if isinstance(a, ast.AugAssign):
        out = expr_uses(a.value)
        if isinstance(a.target, ast.Name):
            out.append(ast.copy_location(ast.Name(id=a.target.id, ctx=ast.Load()), a.target))
        else:
            out += expr_uses(a.target)
        return out
    return expr_uses(a)


def definite_assignment(cfg: CFG, params: Iterable[str], module_names: Iterable[str] = ()) -> List[Tuple[Node, str]]:
    """(node, name) for every read of a function-local name that is not assigned
    on every path from entry.  Local = assigned somewhere in the function."""
    local: Set[str] = set()
    for n in cfg.nodes:
        local.update(node_defs(n))
    params = set(params)
    local -= set()  # params may be re-assigned; they start defined
    live = cfg.live_nodes()
    universe = frozenset(local | params)
    IN: Dict[int, frozenset] = {n: universe for n in live}
    OUT: Dict[int, frozenset] = {n: universe for n in live}
    IN[cfg.entry] = frozenset(params)
    OUT[cfg.entry] = frozenset(params)
    changed = True
    order = sorted(live)
    while changed:
        changed = False
        for nid in order:
            if nid == cfg.entry:
                continue
            preds = [p for p, _ in cfg.pred[nid] if p in live]
            if not preds:
                continue
            i = frozenset.intersection(*(OUT[p] for p in preds))
            node = cfg.nodes[nid]
            kills: Set[str] = set()
            if node.kind == "stmt" and isinstance(node.ast, ast.Delete):
                for t in node.ast.targets:
                    if isinstance(t, ast.Name):
                        kills.add(t.id)
            o = (i | frozenset(node_defs(node))) - frozenset(kills)
            if i != IN[nid] or o != OUT[nid]:
                IN[nid], OUT[nid] = i, o
                changed = True
    out: List[Tuple[Node, str]] = []
    seen = set()
    for nid in order:
        node = cfg.nodes[nid]
        for name in node_uses(node):
            if name.id in local and name.id not in IN[nid] and (nid, name.id) not in seen:
                seen.add((nid, name.id))
                out.append((node, name.id))
    return out


def reaching_definitions(cfg: CFG) -> Dict[int, Dict[str, Set[int]]]:
    """IN sets: node id -> name -> set of defining node ids (entry id = parameter /
    undefined)."""
    live = cfg.live_nodes()
    IN: Dict[int, Dict[str, Set[int]]] = {n: {} for n in live}
    OUT: Dict[int, Dict[str, Set[int]]] = {n: {} for n in live}
    changed = True
    order = sorted(live)
    while changed:
        changed = False
        for nid in order:
            merged: Dict[str, Set[int]] = {}
            for p, _ in cfg.pred[nid]:
                if p not in live:
                    continue
                for k, v in OUT[p].items():
                    merged.setdefault(k, set()).update(v)
            node = cfg.nodes[nid]
            out = {k: set(v) for k, v in merged.items()}
            for d in node_defs(node):
                if node.kind == "stmt" and isinstance(node.ast, ast.AugAssign):
                    out.setdefault(d, set()).add(nid)  # keeps old defs visible too
                else:
                    out[d] = {nid}
            if merged != IN[nid] or out != OUT[nid]:
                IN[nid], OUT[nid] = merged, out
                changed = True
    return IN
