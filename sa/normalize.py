"""Canonical form applied to every parsed module before any rule sees it.

Forward substitution of *adjacent single-use temporaries*: a statement `t = e` whose target is a plain local name
that is stored exactly once and loaded exactly once in the whole function, the load sitting in the immediately
evaluated part of the next statement of the same block (other such temporaries - and, for a call-free value, unrelated
plain assignments to other names - may stand in between), is folded into that statement.  This undoes the 'extract variable' refactoring, so the rules judge `f(a.shape[0])` and
`n = a.shape[0]; f(n)` alike.  Line numbers of the substituted expression are kept.

The substitution moves the evaluation of `e` behind the sub-expressions of the consumer that are evaluated before the
use; no rule of this analyser depends on evaluation order inside one simple statement.
"""
from __future__ import annotations

import ast
from typing import Dict, List, Optional

_SIMPLE = (ast.Assign, ast.AugAssign, ast.AnnAssign, ast.Expr, ast.Return, ast.Assert, ast.Raise, ast.Delete)
_LAZY = (ast.Lambda, ast.ListComp, ast.SetComp, ast.DictComp, ast.GeneratorExp, ast.FunctionDef, ast.AsyncFunctionDef, ast.ClassDef)


def _eager_roots(st: ast.stmt) -> List[ast.AST]:
    if isinstance(st, _SIMPLE):
        return [st]
    if isinstance(st, ast.If):
        return [st.test]
    if isinstance(st, (ast.For, ast.AsyncFor)):
        return [st.iter]
    if isinstance(st, (ast.With, ast.AsyncWith)):
        return [it.context_expr for it in st.items]
    return []


def _find_load(root: ast.AST, name: str):
    """(parent, field, index) of the single eager Load of `name` under root, or None."""
    stack = [(root, None, None, None)]
    while stack:
        node, parent, fld, idx = stack.pop()
        if isinstance(node, _LAZY):
            continue
        if isinstance(node, ast.Name) and node.id == name and isinstance(node.ctx, ast.Load):
            return parent, fld, idx
        for f, v in ast.iter_fields(node):
            if isinstance(v, list):
                for i, x in enumerate(v):
                    if isinstance(x, ast.AST):
                        stack.append((x, node, f, i))
            elif isinstance(v, ast.AST):
                stack.append((v, node, f, None))
    return None


def _counts(fn: ast.AST) -> Dict[str, List[int]]:
    c: Dict[str, List[int]] = {}
    for n in ast.walk(fn):
        if isinstance(n, ast.Name):
            e = c.setdefault(n.id, [0, 0])
            if isinstance(n.ctx, ast.Load):
                e[1] += 1
            else:
                e[0] += 1
        elif isinstance(n, ast.arg):
            c.setdefault(n.arg, [0, 0])[0] += 2  # parameters are never temporaries
        elif isinstance(n, (ast.Global, ast.Nonlocal)):
            for x in n.names:
                c.setdefault(x, [0, 0])[0] += 2
        elif isinstance(n, ast.ExceptHandler) and n.name:
            c.setdefault(n.name, [0, 0])[0] += 2
    return c


def _is_temp_def(st: ast.stmt, counts) -> Optional[str]:
    if isinstance(st, ast.Assign) and len(st.targets) == 1 and isinstance(st.targets[0], ast.Name):
        t = st.targets[0].id
        if counts.get(t) == [1, 1]:
            return t
    return None


def _fold_block(stmts: List[ast.stmt], counts) -> bool:
    changed = False
    i = len(stmts) - 2
    while i >= 0:
        if i + 1 >= len(stmts):
            i -= 1
            continue
        st = stmts[i]
        t = _is_temp_def(st, counts)
        if t is not None:
            j = i + 1
            e_names = {x.id for x in ast.walk(st.value) if isinstance(x, ast.Name)}
            e_pure = not any(isinstance(x, (ast.Call, ast.Await, ast.Yield, ast.YieldFrom, ast.NamedExpr)) for x in ast.walk(st.value))

            def passable(s2: ast.stmt) -> bool:
                # another temporary, or (for a call-free value) an unrelated plain assignment that cannot change it
                if _find_load(s2, t) is not None:
                    return False
                if _is_temp_def(s2, counts) is not None:
                    return True
                if not e_pure:
                    return False
                if isinstance(s2, ast.Assign) and all(isinstance(x, ast.Name) and x.id not in e_names for x in s2.targets):
                    return True
                if isinstance(s2, ast.AugAssign) and isinstance(s2.target, ast.Name) and s2.target.id not in e_names:
                    return True
                return False

            while j < len(stmts) and passable(stmts[j]):
                j += 1
            if j < len(stmts):
                for root in _eager_roots(stmts[j]):
                    hit = _find_load(root, t)
                    if hit is not None:
                        parent, fld, idx = hit
                        if parent is None:
                            break
                        if idx is None:
                            setattr(parent, fld, st.value)
                        else:
                            getattr(parent, fld)[idx] = st.value
                        del stmts[i]
                        changed = True
                        break
        i -= 1
    return changed


def _blocks(fn: ast.AST):
    for n in ast.walk(fn):
        for fld in ("body", "orelse", "finalbody"):
            v = getattr(n, fld, None)
            if isinstance(v, list) and v and isinstance(v[0], ast.stmt):
                yield v


def _pinned_locals(fn: ast.AST):
    """Names given a machine type through @njit(locals=...): their assignments are semantically relevant (the value is
    converted to that type) and are never folded away."""
    out = set()
    for d in getattr(fn, "decorator_list", []):
        if isinstance(d, ast.Call):
            for k in d.keywords:
                if k.arg == "locals":
                    if isinstance(k.value, ast.Dict):
                        out |= {x.value for x in k.value.keys if isinstance(x, ast.Constant) and isinstance(x.value, str)}
                    elif isinstance(k.value, ast.Call):
                        out |= {kk.arg for kk in k.value.keywords if kk.arg}
    return out


def normalize_function(fn: ast.AST) -> int:
    n = 0
    pinned = _pinned_locals(fn)
    while True:
        counts = _counts(fn)
        for name in pinned:
            counts.setdefault(name, [0, 0])[0] += 2
        changed = False
        for b in list(_blocks(fn)):
            if _fold_block(b, counts):
                changed = True
                n += 1
        if not changed:
            return n


def _const(e: ast.AST) -> bool:
    return isinstance(e, ast.Constant) or (isinstance(e, ast.UnaryOp) and isinstance(e.operand, ast.Constant))


def _size(e: ast.AST) -> int:
    return sum(1 for _ in ast.walk(e))


class _Canon(ast.NodeTransformer):
    """One spelling per comparison and per two-armed conditional:
    * a constant operand stands on the right (`0 < x` -> `x > 0`);
    * an ordering comparison of two non-constant operands is written with < or <= (`a > b` -> `b < a`);
    * of the operands of == / != the structurally larger one stands on the left (ties keep their order, so rules
      that read an equality of two like operands accept both orders);
    * `if not c: A else: B` -> `if c: B else: A` (plain else block only), the same for conditional expressions."""

    MIRROR = {ast.Lt: ast.Gt, ast.Gt: ast.Lt, ast.LtE: ast.GtE, ast.GtE: ast.LtE, ast.Eq: ast.Eq, ast.NotEq: ast.NotEq}

    def visit_Compare(self, node):
        self.generic_visit(node)
        if len(node.ops) != 1 or type(node.ops[0]) not in self.MIRROR:
            return node
        l, r, op = node.left, node.comparators[0], node.ops[0]
        swap = False
        if _const(l) and not _const(r):
            swap = True
        elif not _const(l) and not _const(r):
            if isinstance(op, (ast.Gt, ast.GtE)):
                swap = True
            elif isinstance(op, (ast.Eq, ast.NotEq)) and _size(l) < _size(r):
                swap = True
        if swap:
            node.left, node.comparators, node.ops = r, [l], [self.MIRROR[type(op)]()]
        return node

    def visit_If(self, node):
        self.generic_visit(node)
        if node.orelse and not (len(node.orelse) == 1 and isinstance(node.orelse[0], ast.If)) \
                and isinstance(node.test, ast.UnaryOp) and isinstance(node.test.op, ast.Not):
            node.test, node.body, node.orelse = node.test.operand, node.orelse, node.body
        return node

    def visit_IfExp(self, node):
        self.generic_visit(node)
        if isinstance(node.test, ast.UnaryOp) and isinstance(node.test.op, ast.Not):
            node.test, node.body, node.orelse = node.test.operand, node.orelse, node.body
        return node


def normalize_tree(tree: ast.Module) -> int:
    n = 0
    _Canon().visit(tree)
    for node in tree.body:
        if isinstance(node, (ast.FunctionDef, ast.AsyncFunctionDef)):
            n += normalize_function(node)
        elif isinstance(node, ast.ClassDef):
            for sub in node.body:
                if isinstance(sub, (ast.FunctionDef, ast.AsyncFunctionDef)):
                    n += normalize_function(sub)
    return n
