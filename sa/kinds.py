"""Engine D1 - dictionary orientation (label->index vs index->label).

Kinds: 'L2I', 'I2L', 'DICT' (a dictionary of unknown / neutral orientation, e.g.
an empty literal), None (not known to be a dictionary).
"""
from __future__ import annotations

import ast
from typing import Dict, List, Optional, Set, Tuple

from .cfg import target_names
from .model import Cls, Func, Repo, is_self_attr, walk_no_nested

L2I, I2L, DICT = "L2I", "I2L", "DICT"

# documented contract of constructor parameters that carry user dictionaries
CTOR_PARAM_KINDS = {
    "token_dictionary": L2I,
    "ngram_dictionary": L2I,
    "column_label_dictionary": L2I,
    "row_label_dictionary": L2I,
}


def flip(k: Optional[str]) -> Optional[str]:
    return {L2I: I2L, I2L: L2I}.get(k, k)


def join(a: Optional[str], b: Optional[str]) -> Optional[str]:
    if a is None or a == DICT:
        return b if b is not None else a
    if b is None or b == DICT:
        return a
    return a if a == b else "CONFLICT"


class KindEngine:
    def __init__(self, repo: Repo):
        self.repo = repo
        self.attr_kind: Dict[Tuple[Cls, str], Optional[str]] = {}
        self._ret_cache: Dict[Func, Tuple] = {}
        self._env_cache: Dict[Func, Dict[str, Optional[str]]] = {}
        self._in_progress: Set[Func] = set()

    # ------------------------------------------------------------------ expression kinds
    def comp_kind(self, f: Func, e: ast.DictComp, env, owner) -> Optional[str]:
        if len(e.generators) != 1:
            return DICT
        g = e.generators[0]
        it = g.iter
        tgt = g.target
        key_names = {n.id for n in ast.walk(e.key) if isinstance(n, ast.Name)}
        val_names = {n.id for n in ast.walk(e.value) if isinstance(n, ast.Name)}
        # enumerate(...) : (index, item)
        if isinstance(it, ast.Call) and isinstance(it.func, ast.Name) and it.func.id == "enumerate":
            if isinstance(tgt, ast.Tuple) and len(tgt.elts) == 2 and all(isinstance(x, ast.Name) for x in tgt.elts):
                idx, item = tgt.elts[0].id, tgt.elts[1].id
                if idx in val_names and idx not in key_names:
                    return L2I
                if idx in key_names and idx not in val_names:
                    return I2L
            return DICT
        # D.items()
        if (
            isinstance(it, ast.Call)
            and isinstance(it.func, ast.Attribute)
            and it.func.attr == "items"
            and not it.args
        ):
            base = self.expr_kind(f, it.func.value, env, owner)
            first: Set[str] = set()
            second: Set[str] = set()
            if isinstance(tgt, ast.Tuple) and len(tgt.elts) == 2:
                first = set(target_names(tgt.elts[0]))
                second = set(target_names(tgt.elts[1]))
                k1, k2 = bool(key_names & first), bool(key_names & second)
                v1, v2 = bool(val_names & first), bool(val_names & second)
            elif isinstance(tgt, ast.Name):
                # item[0] / item[1]
                def idxs(x):
                    out = set()
                    for n in ast.walk(x):
                        if (
                            isinstance(n, ast.Subscript)
                            and isinstance(n.value, ast.Name)
                            and n.value.id == tgt.id
                            and isinstance(n.slice, ast.Constant)
                        ):
                            out.add(n.slice.value)
                    return out

                ki, vi = idxs(e.key), idxs(e.value)
                k1, k2, v1, v2 = 0 in ki, 1 in ki, 0 in vi, 1 in vi
            else:
                return DICT
            if k1 and not k2 and v2 and not v1:
                return base if base in (L2I, I2L) else DICT
            if k2 and not k1 and v1 and not v2:
                return flip(base) if base in (L2I, I2L) else DICT
            return DICT
        return DICT

    def expr_kind(self, f: Func, e: ast.AST, env: Dict[str, Optional[str]], owner: Optional[Cls]) -> Optional[str]:
        if isinstance(e, ast.Dict):
            return DICT
        if isinstance(e, ast.DictComp):
            return self.comp_kind(f, e, env, owner)
        if isinstance(e, ast.Name):
            return env.get(e.id)
        if isinstance(e, ast.Attribute):
            if isinstance(e.value, ast.Name):
                cls = None
                if e.value.id == "self":
                    cls = owner
                else:
                    cls = self.local_instance_class(f, e.value.id, owner)
                if cls is not None:
                    if e.attr in CTOR_PARAM_KINDS and e.attr in self.repo.ctor_params(cls):
                        return CTOR_PARAM_KINDS[e.attr]
                    return self.attr_kind.get((cls, e.attr))
            return None
        if isinstance(e, ast.Call):
            fn = e.func
            if isinstance(fn, ast.Attribute) and fn.attr == "copy" and not e.args:
                return self.expr_kind(f, fn.value, env, owner)
            canon = self.repo.canonical(f.module, fn) if not isinstance(fn, ast.Call) else None
            if isinstance(fn, ast.Name) and fn.id == "dict":
                if len(e.args) == 1 and isinstance(e.args[0], ast.Call) and isinstance(e.args[0].func, ast.Name) and e.args[0].func.id == "zip" and len(e.args[0].args) == 2:
                    a, b = e.args[0].args

                    def is_range(x):
                        return isinstance(x, ast.Call) and (
                            (isinstance(x.func, ast.Name) and x.func.id == "range")
                            or (self.repo.canonical(f.module, x.func) in ("numpy.arange",))
                        )

                    if is_range(b) and not is_range(a):
                        return L2I
                    if is_range(a) and not is_range(b):
                        return I2L
                if e.args:
                    k = self.expr_kind(f, e.args[0], env, owner)
                    if k:
                        return k
                return DICT
            if canon and (canon.startswith("numba.typed.Dict") or canon == "numba.typed.Dict"):
                return DICT
            for t in self.repo.resolve_call(f, e, owner):
                if isinstance(t, Func):
                    r = self.return_kinds(t)
                    if r and len(r) == 1:
                        return r[0]
            return None
        if isinstance(e, ast.IfExp):
            return join(self.expr_kind(f, e.body, env, owner), self.expr_kind(f, e.orelse, env, owner))
        return None

    def tuple_kinds(self, f: Func, e: ast.AST, env, owner) -> Optional[Tuple]:
        if isinstance(e, ast.Tuple):
            return tuple(self.expr_kind(f, x, env, owner) for x in e.elts)
        if isinstance(e, ast.Call):
            for t in self.repo.resolve_call(f, e, owner):
                if isinstance(t, Func):
                    return self.return_kinds(t)
        return None

    # ------------------------------------------------------------------ function summaries
    def local_instance_class(self, f: Func, name: str, owner: Optional[Cls]) -> Optional[Cls]:
        """Class of a local bound by ``name = SomeRepoClass(...)``; ``other`` in
        ``__add__`` is an instance of the owner class."""
        if f.name == "__add__" and name == "other":
            return owner
        for n in walk_no_nested(f.node):
            if isinstance(n, ast.Assign) and len(n.targets) == 1 and isinstance(n.targets[0], ast.Name) and n.targets[0].id == name:
                if isinstance(n.value, ast.Call):
                    r = self.repo.resolve_dotted(f.module, n.value.func)
                    if isinstance(r, Cls):
                        return r
        return None

    def env_of(self, f: Func, owner: Optional[Cls]) -> Dict[str, Optional[str]]:
        env: Dict[str, Optional[str]] = {}
        for p in f.params:
            if p in CTOR_PARAM_KINDS:
                env[p] = CTOR_PARAM_KINDS[p]
        for _ in range(3):
            for n in walk_no_nested(f.node):
                if isinstance(n, ast.Assign):
                    for t in n.targets:
                        if isinstance(t, ast.Name):
                            k = self.expr_kind(f, n.value, env, owner)
                            if k is not None:
                                env[t.id] = join(env.get(t.id), k) if t.id in env else k
                        elif isinstance(t, ast.Tuple):
                            ks = self.tuple_kinds(f, n.value, env, owner)
                            if ks and len(ks) == len(t.elts):
                                for el, k in zip(t.elts, ks):
                                    if isinstance(el, ast.Name) and k is not None:
                                        env[el.id] = join(env.get(el.id), k) if el.id in env else k
                elif isinstance(n, ast.Expr) and isinstance(n.value, ast.Call):
                    c = n.value
                    if isinstance(c.func, ast.Attribute) and c.func.attr == "update" and isinstance(c.func.value, ast.Name) and c.args:
                        k = self.expr_kind(f, c.args[0], env, owner)
                        name = c.func.value.id
                        if k is not None:
                            env[name] = join(env.get(name), k)
        return env

    def return_kinds(self, f: Func) -> Optional[Tuple]:
        if f in self._ret_cache:
            return self._ret_cache[f]
        if f in self._in_progress:
            return None
        self._in_progress.add(f)
        try:
            owner = f.cls
            env = self.env_of(f, owner)
            result: Optional[List] = None
            for n in walk_no_nested(f.node):
                if isinstance(n, ast.Return) and n.value is not None:
                    if isinstance(n.value, ast.Tuple):
                        ks = [self.expr_kind(f, x, env, owner) for x in n.value.elts]
                    else:
                        ks = [self.expr_kind(f, n.value, env, owner)]
                    if result is None:
                        result = ks
                    elif len(result) == len(ks):
                        result = [join(a, b) for a, b in zip(result, ks)]
                    else:
                        result = None
                        break
            out = tuple(result) if result is not None else None
            self._ret_cache[f] = out
            return out
        finally:
            self._in_progress.discard(f)

    # ------------------------------------------------------------------ attribute sites
    def attr_sites(self, c: Cls) -> List[Tuple[Func, str, ast.AST, int, Optional[str]]]:
        """(function, attr, value expr, line, kind) for every assignment / update to
        an attribute of an instance of class c made in the methods on c's MRO."""
        out = []
        for x in self.repo.mro(c):
            if not isinstance(x, Cls):
                continue
            for m in x.methods.values():
                # methods overridden further down the MRO are not part of c
                if self.repo.resolve_method(c, m.name) is not m:
                    continue
                env = self.env_of(m, c)

                def inst(e):
                    if isinstance(e, ast.Attribute) and isinstance(e.value, ast.Name):
                        if e.value.id == "self":
                            return e.attr
                        if self.local_instance_class(m, e.value.id, c) is c:
                            return e.attr
                    return None

                for n in walk_no_nested(m.node):
                    if isinstance(n, ast.Assign):
                        for t in n.targets:
                            a = inst(t)
                            if a is not None:
                                out.append((m, a, n.value, n.lineno, self.expr_kind(m, n.value, env, c)))
                            elif isinstance(t, ast.Tuple):
                                ks = self.tuple_kinds(m, n.value, env, c)
                                for i, el in enumerate(t.elts):
                                    a = inst(el)
                                    if a is not None:
                                        k = ks[i] if ks and len(ks) == len(t.elts) else None
                                        out.append((m, a, n.value, n.lineno, k))
                    elif isinstance(n, ast.Expr) and isinstance(n.value, ast.Call):
                        call = n.value
                        if isinstance(call.func, ast.Attribute) and call.func.attr == "update" and call.args:
                            a = inst(call.func.value)
                            if a is not None:
                                out.append((m, a, call.args[0], n.lineno, self.expr_kind(m, call.args[0], env, c)))
        return out

    def infer_class(self, c: Cls) -> None:
        """Reference kinds: join over the sites inside fit-reachable methods."""
        fit_funcs = set(self.repo.reachable_from(c, "fit")) | set(self.repo.reachable_from(c, "fit_transform"))
        for _ in range(4):
            changed = False
            for m, a, v, line, k in self.attr_sites(c):
                if m not in fit_funcs or k is None:
                    continue
                old = self.attr_kind.get((c, a))
                new = join(old, k)
                if new != old:
                    self.attr_kind[(c, a)] = new
                    changed = True
            if not changed:
                break

    def dict_attrs(self, c: Cls) -> Set[str]:
        return {a for (cc, a), k in self.attr_kind.items() if cc is c and k is not None}
