"""Engine A - repository model and call resolution.

Builds, from source text only, a table of modules, functions (with numba
decorator facts), classes (with MRO), module-level registries and imports, and
resolves call expressions to repository functions.  Everything that cannot be
resolved is *external* and named by its canonical dotted path (``numpy.zeros``).
"""
from __future__ import annotations

import ast
import os
from dataclasses import dataclass, field
from typing import Dict, Iterable, List, Optional, Sequence, Set, Tuple, Union

REPO_ROOT = os.environ.get("VERIF_REPO", "/repo")
PKG = "vectorizers"
ENTRY_MODULES = ("vectorizers/__init__.py", "vectorizers/transformers/__init__.py")


class AnalysisError(Exception):
    """The analyser cannot give a verdict (vanished anchor, unknown idiom...)."""


# --------------------------------------------------------------------------- helpers


def dotted(expr: ast.AST) -> Optional[str]:
    """``a.b.c`` for a Name/Attribute chain, else None."""
    parts = []
    while isinstance(expr, ast.Attribute):
        parts.append(expr.attr)
        expr = expr.value
    if isinstance(expr, ast.Name):
        parts.append(expr.id)
        return ".".join(reversed(parts))
    return None


def is_self_attr(expr: ast.AST, name: Optional[str] = None) -> bool:
    return (
        isinstance(expr, ast.Attribute)
        and isinstance(expr.value, ast.Name)
        and expr.value.id == "self"
        and (name is None or expr.attr == name)
    )


def const_value(expr: ast.AST):
    if isinstance(expr, ast.Constant):
        return expr.value
    raise ValueError("not a constant")


def is_none(expr: ast.AST) -> bool:
    return isinstance(expr, ast.Constant) and expr.value is None


def walk_no_nested(node: ast.AST) -> Iterable[ast.AST]:
    """ast.walk that does not descend into nested function/class/lambda bodies
    (the root itself is always expanded)."""
    stack = [node]
    first = True
    while stack:
        n = stack.pop()
        if not first and isinstance(
            n, (ast.FunctionDef, ast.AsyncFunctionDef, ast.ClassDef, ast.Lambda)
        ):
            yield n
            continue
        first = False
        yield n
        stack.extend(reversed(list(ast.iter_child_nodes(n))))


def unparse(node: ast.AST) -> str:
    try:
        return ast.unparse(node)
    except Exception:  # pragma: no cover
        return "<%s>" % type(node).__name__


def short(node: ast.AST, n: int = 110) -> str:
    s = " ".join(unparse(node).split())
    return s if len(s) <= n else s[: n - 3] + "..."


# --------------------------------------------------------------------------- data


@dataclass
class Func:
    module: "Module"
    name: str
    qualname: str  # Class.method / func / outer.inner
    node: ast.FunctionDef
    cls: Optional["Cls"] = None
    parent: Optional["Func"] = None
    is_njit: bool = False
    njit_kwargs: Dict[str, ast.AST] = field(default_factory=dict)

    @property
    def file(self) -> str:
        return self.module.path

    @property
    def key(self) -> str:
        return "%s::%s" % (self.module.path, self.qualname)

    @property
    def params(self) -> List[str]:
        a = self.node.args
        return [x.arg for x in a.posonlyargs + a.args] + [x.arg for x in a.kwonlyargs]

    @property
    def positional_params(self) -> List[str]:
        a = self.node.args
        return [x.arg for x in a.posonlyargs + a.args]

    @property
    def defaults(self) -> Dict[str, ast.AST]:
        a = self.node.args
        pos = a.posonlyargs + a.args
        out: Dict[str, ast.AST] = {}
        for arg, d in zip(pos[len(pos) - len(a.defaults):], a.defaults):
            out[arg.arg] = d
        for arg, d in zip(a.kwonlyargs, a.kw_defaults):
            if d is not None:
                out[arg.arg] = d
        return out

    @property
    def is_parallel(self) -> bool:
        v = self.njit_kwargs.get("parallel")
        return isinstance(v, ast.Constant) and v.value is True

    def __hash__(self):
        return id(self)

    def __eq__(self, other):
        return self is other

    def __repr__(self):
        return "<Func %s>" % self.key


@dataclass
class Cls:
    module: "Module"
    name: str
    node: ast.ClassDef
    methods: Dict[str, Func] = field(default_factory=dict)
    base_exprs: List[ast.AST] = field(default_factory=list)

    @property
    def key(self) -> str:
        return "%s::%s" % (self.module.path, self.name)

    def __hash__(self):
        return id(self)

    def __eq__(self, other):
        return self is other

    def __repr__(self):
        return "<Cls %s>" % self.key


@dataclass
class Module:
    path: str  # vectorizers/preprocessing.py
    name: str  # vectorizers.preprocessing
    source: str
    tree: ast.Module
    imports: Dict[str, Tuple[str, ...]] = field(default_factory=dict)
    functions: Dict[str, Func] = field(default_factory=dict)  # top-level only
    classes: Dict[str, Cls] = field(default_factory=dict)
    all_funcs: List[Func] = field(default_factory=list)  # incl. methods and nested
    registries: Dict[str, Dict[str, str]] = field(default_factory=dict)
    constants: Dict[str, ast.AST] = field(default_factory=dict)

    @property
    def package(self) -> str:
        if self.path.endswith("__init__.py"):
            return self.name
        return self.name.rsplit(".", 1)[0] if "." in self.name else ""


def load_sources(root: str = None) -> Dict[str, str]:
    root = root or REPO_ROOT
    out: Dict[str, str] = {}
    base = os.path.join(root, PKG)
    if not os.path.isdir(base):
        raise AnalysisError("package directory %s not found" % base)
    for dirpath, dirnames, filenames in os.walk(base):
        dirnames[:] = sorted(d for d in dirnames if d not in ("tests", "__pycache__"))
        for fn in sorted(filenames):
            if fn.endswith(".py"):
                full = os.path.join(dirpath, fn)
                rel = os.path.relpath(full, root)
                with open(full, "r", encoding="utf-8") as fh:
                    out[rel] = fh.read()
    return out


def _path_to_name(path: str) -> str:
    p = path[:-3]
    if p.endswith("/__init__"):
        p = p[: -len("/__init__")]
    return p.replace("/", ".")


NJIT_NAMES = {"numba.njit", "njit", "numba.jit", "jit"}


from .normalize import normalize_tree  # noqa: E402


class Repo:
    def __init__(self, sources: Optional[Dict[str, str]] = None, root: str = None):
        self.root = root or REPO_ROOT
        self.sources = dict(sources) if sources is not None else load_sources(self.root)
        self.modules: Dict[str, Module] = {}
        self.by_name: Dict[str, Module] = {}
        self.parse_errors: Dict[str, str] = {}
        for path, text in sorted(self.sources.items()):
            try:
                tree = ast.parse(text, filename=path)
                normalize_tree(tree)
            except SyntaxError as e:
                self.parse_errors[path] = str(e)
                continue
            m = Module(path=path, name=_path_to_name(path), source=text, tree=tree)
            self.modules[path] = m
            self.by_name[m.name] = m
        for m in self.modules.values():
            self._index_module(m)
        self.surface: Set[str] = self._import_closure()
        for p in self.parse_errors:
            # a file that does not parse is analysis-broken only if it is (or was) on
            # the surface; we cannot know, so be strict for package files.
            raise AnalysisError("source file %s does not parse: %s" % (p, self.parse_errors[p]))
        self._mro_cache: Dict[Cls, List[Union[Cls, str]]] = {}

    # ------------------------------------------------------------------ indexing
    def _index_module(self, m: Module) -> None:
        self._collect_imports(m, m.tree.body)
        for node in m.tree.body:
            if isinstance(node, ast.Assign) and len(node.targets) == 1 and isinstance(node.targets[0], ast.Name):
                name = node.targets[0].id
                m.constants[name] = node.value
                if isinstance(node.value, ast.Dict) and node.value.keys and all(
                    isinstance(k, ast.Constant) and isinstance(k.value, str) and isinstance(v, ast.Name)
                    for k, v in zip(node.value.keys, node.value.values)
                ):
                    m.registries[name] = {k.value: v.id for k, v in zip(node.value.keys, node.value.values)}
        self._collect_defs(m, m.tree.body, None, None, "")

    def _collect_imports(self, m: Module, body: Sequence[ast.stmt]) -> None:
        for node in body:
            if isinstance(node, ast.Import):
                for a in node.names:
                    if a.asname:
                        m.imports[a.asname] = ("module", a.name)
                    else:
                        top = a.name.split(".")[0]
                        m.imports[top] = ("module", top)
            elif isinstance(node, ast.ImportFrom):
                base = node.module or ""
                if node.level:
                    pkg = m.package.split(".") if m.package else []
                    up = node.level - 1
                    if up:
                        pkg = pkg[: len(pkg) - up]
                    base = ".".join(pkg + ([base] if base else []))
                for a in node.names:
                    m.imports[a.asname or a.name] = ("from", base, a.name)
            elif isinstance(node, (ast.If, ast.Try)):
                for sub in ("body", "orelse", "finalbody"):
                    self._collect_imports(m, getattr(node, sub, []) or [])
                for h in getattr(node, "handlers", []) or []:
                    self._collect_imports(m, h.body)

    def _njit_facts(self, m: Module, node: ast.FunctionDef):
        for d in node.decorator_list:
            target = d.func if isinstance(d, ast.Call) else d
            name = dotted(target)
            if name in NJIT_NAMES or (name and name.endswith(".njit")):
                kwargs = {}
                if isinstance(d, ast.Call):
                    kwargs = {k.arg: k.value for k in d.keywords if k.arg}
                return True, kwargs
        return False, {}

    def _collect_defs(self, m: Module, body, cls: Optional[Cls], parent: Optional[Func], prefix: str):
        for node in body:
            if isinstance(node, (ast.FunctionDef, ast.AsyncFunctionDef)):
                is_njit, kw = self._njit_facts(m, node)
                f = Func(m, node.name, prefix + node.name, node, cls if parent is None else None, parent, is_njit, kw)
                if cls is not None and parent is None:
                    cls.methods[node.name] = f
                elif parent is None:
                    m.functions[node.name] = f
                m.all_funcs.append(f)
                self._collect_defs(m, node.body, None, f, prefix + node.name + ".")
            elif isinstance(node, ast.ClassDef) and parent is None and cls is None:
                c = Cls(m, node.name, node, base_exprs=list(node.bases))
                m.classes[node.name] = c
                self._collect_defs(m, node.body, c, None, node.name + ".")
            elif isinstance(node, (ast.If, ast.Try, ast.For, ast.While, ast.With)):
                for sub in ("body", "orelse", "finalbody"):
                    self._collect_defs(m, getattr(node, sub, []) or [], cls, parent, prefix)
                for h in getattr(node, "handlers", []) or []:
                    self._collect_defs(m, h.body, cls, parent, prefix)

    def _import_closure(self) -> Set[str]:
        seen: Set[str] = set()
        todo = [p for p in ENTRY_MODULES if p in self.modules]
        if len(todo) != len(ENTRY_MODULES):
            raise AnalysisError("package entry modules missing: %s" % (set(ENTRY_MODULES) - set(todo)))
        while todo:
            p = todo.pop()
            if p in seen:
                continue
            seen.add(p)
            m = self.modules[p]
            for imp in m.imports.values():
                cands = []
                if imp[0] == "module":
                    cands.append(imp[1])
                else:
                    cands.append(imp[1])
                    cands.append(imp[1] + "." + imp[2])
                for c in cands:
                    # also parents (package __init__)
                    mod = self.by_name.get(c)
                    if mod is not None and mod.path not in seen:
                        todo.append(mod.path)
        return seen

    # ------------------------------------------------------------------ lookups
    def module(self, path: str) -> Module:
        m = self.modules.get(path)
        if m is None:
            raise AnalysisError("anchor module %s not found" % path)
        return m

    def func(self, path: str, qualname: str) -> Func:
        m = self.module(path)
        for f in m.all_funcs:
            if f.qualname == qualname:
                return f
        raise AnalysisError("anchor function %s::%s not found" % (path, qualname))

    def find_func(self, path: str, qualname: str) -> Optional[Func]:
        m = self.modules.get(path)
        if m is None:
            return None
        for f in m.all_funcs:
            if f.qualname == qualname:
                return f
        return None

    def cls(self, path: str, name: str) -> Cls:
        m = self.module(path)
        c = m.classes.get(name)
        if c is None:
            raise AnalysisError("anchor class %s::%s not found" % (path, name))
        return c

    def all_funcs(self, surface_only: bool = True) -> List[Func]:
        out = []
        for p, m in sorted(self.modules.items()):
            if surface_only and p not in self.surface:
                continue
            out.extend(m.all_funcs)
        return out

    def all_classes(self, surface_only: bool = True) -> List[Cls]:
        out = []
        for p, m in sorted(self.modules.items()):
            if surface_only and p not in self.surface:
                continue
            out.extend(m.classes.values())
        return out

    def registry(self, path: str, name: str) -> Dict[str, Func]:
        m = self.module(path)
        reg = m.registries.get(name)
        if reg is None:
            raise AnalysisError("anchor registry %s::%s not found" % (path, name))
        out = {}
        for k, fname in reg.items():
            t = self.resolve_name(m, fname)
            if not isinstance(t, Func):
                raise AnalysisError("registry %s entry %s -> %s does not resolve to a function" % (name, k, fname))
            out[k] = t
        return out

    # ------------------------------------------------------------------ name resolution
    def resolve_name(self, m: Module, name: str, depth: int = 0):
        """Resolve a bare name in module scope to Func | Cls | ('registry', Module, name)
        | ('ext', dotted) | ('module', Module) | None."""
        if name in m.functions:
            return m.functions[name]
        if name in m.classes:
            return m.classes[name]
        if name in m.registries:
            return ("registry", m, name)
        imp = m.imports.get(name)
        if imp is None:
            if name in m.constants:
                return ("const", m, name)
            return None
        if imp[0] == "module":
            mod = self.by_name.get(imp[1])
            if mod is not None:
                return ("module", mod)
            return ("ext", imp[1])
        base, attr = imp[1], imp[2]
        sub = self.by_name.get(base + "." + attr)
        if sub is not None:
            return ("module", sub)
        mod = self.by_name.get(base)
        if mod is not None and depth < 5:
            r = self.resolve_name(mod, attr, depth + 1)
            if r is not None:
                return r
            return ("ext", base + "." + attr)
        return ("ext", base + "." + attr)

    def canonical(self, m: Module, expr: ast.AST) -> Optional[str]:
        """Canonical dotted name of a Name/Attribute chain (imports resolved);
        repository functions give 'repo:<key>'."""
        d = dotted(expr)
        if d is None:
            return None
        parts = d.split(".")
        r = self.resolve_name(m, parts[0])
        rest = parts[1:]
        while True:
            if isinstance(r, Func):
                return "repo:" + r.key if not rest else None
            if isinstance(r, Cls):
                return "repo:" + r.key + ("." + ".".join(rest) if rest else "")
            if isinstance(r, tuple) and r[0] == "module":
                if not rest:
                    return r[1].name
                r = self.resolve_name(r[1], rest[0])
                if r is None:
                    return None
                rest = rest[1:]
                continue
            if isinstance(r, tuple) and r[0] == "ext":
                return ".".join([r[1]] + rest)
            if isinstance(r, tuple) and r[0] in ("registry", "const"):
                return "repo:%s::%s" % (r[1].path, r[2]) + ("." + ".".join(rest) if rest else "")
            return None

    def resolve_dotted(self, m: Module, expr: ast.AST):
        """Like resolve_name for a dotted chain; returns Func/Cls/tuple/None."""
        d = dotted(expr)
        if d is None:
            return None
        parts = d.split(".")
        r = self.resolve_name(m, parts[0])
        for p in parts[1:]:
            if isinstance(r, tuple) and r[0] == "module":
                r = self.resolve_name(r[1], p)
            elif isinstance(r, tuple) and r[0] == "ext":
                r = ("ext", r[1] + "." + p)
            elif isinstance(r, Cls):
                r = self.resolve_method(r, p)
            else:
                return None
        return r

    # ------------------------------------------------------------------ classes
    def mro(self, c: Cls) -> List[Union[Cls, str]]:
        if c in self._mro_cache:
            return self._mro_cache[c]
        out: List[Union[Cls, str]] = [c]
        for b in c.base_exprs:
            r = self.resolve_dotted(c.module, b)
            if isinstance(r, Cls):
                for x in self.mro(r):
                    if x not in out:
                        out.append(x)
            else:
                name = self.canonical(c.module, b) or dotted(b) or "?"
                if name not in out:
                    out.append(name)
        self._mro_cache[c] = out
        return out

    def is_estimator(self, c: Cls) -> bool:
        return any(isinstance(x, str) and x.endswith("BaseEstimator") for x in self.mro(c))

    def resolve_method(self, c: Cls, name: str) -> Optional[Func]:
        for x in self.mro(c):
            if isinstance(x, Cls) and name in x.methods:
                return x.methods[name]
        return None

    def _exported_names(self, m: Module) -> List[str]:
        names: List[str] = []
        for node in m.tree.body:
            if isinstance(node, ast.Assign) and any(
                isinstance(t, ast.Name) and t.id == "__all__" for t in node.targets
            ):
                names += [const_value(e) for e in node.value.elts]
        # everything the package entry module imports is importable from the package
        for n in m.imports:
            if n not in names:
                names.append(n)
        return names

    def exported_classes(self) -> List[Cls]:
        """Classes importable from the two package entry modules (``__all__`` plus
        every name they import, e.g. LZCompressionVectorizer)."""
        out: List[Cls] = []
        for p in ENTRY_MODULES:
            m = self.module(p)
            for n in self._exported_names(m):
                r = self.resolve_name(m, n)
                if isinstance(r, Cls) and r not in out:
                    out.append(r)
        return out

    def exported_functions(self) -> List[Func]:
        out: List[Func] = []
        for p in ENTRY_MODULES:
            m = self.module(p)
            for n in self._exported_names(m):
                r = self.resolve_name(m, n)
                if isinstance(r, Func) and r not in out:
                    out.append(r)
        return out

    def estimator_classes(self, surface_only=True) -> List[Cls]:
        return [c for c in self.all_classes(surface_only) if self.is_estimator(c)]

    def ctor_params(self, c: Cls) -> List[str]:
        init = self.resolve_method(c, "__init__")
        if init is None:
            return []
        return [p for p in init.params if p != "self"]

    def attr_function_candidates(self, c: Cls, attr: str) -> List[Func]:
        """Functions a ``self.<attr>`` may hold, from ``self.<attr> = <name>`` in the
        ``__init__`` methods on the MRO; the most-derived class that assigns wins."""
        for x in self.mro(c):
            if not isinstance(x, Cls) or "__init__" not in x.methods:
                continue
            init = x.methods["__init__"]
            found = []
            for node in walk_no_nested(init.node):
                if isinstance(node, ast.Assign):
                    for t in node.targets:
                        if is_self_attr(t, attr):
                            r = self.resolve_dotted(x.module, node.value)
                            if isinstance(r, Func):
                                found.append(r)
            if found:
                return [found[-1]]
        return []

    # ------------------------------------------------------------------ calls
    def scope_lookup(self, f: Func, name: str):
        """Resolve a bare name as seen from inside function f (nested defs first)."""
        g: Optional[Func] = f
        while g is not None:
            for h in g.module.all_funcs:
                if h.parent is g and h.name == name:
                    return h
            g = g.parent
        return self.resolve_name(f.module, name)

    def resolve_call(self, f: Func, call: ast.Call, cls_ctx: Optional[Cls] = None) -> List[Union[Func, str]]:
        """Targets of a call: repository Funcs and/or canonical external names."""
        fn = call.func
        # dask.delayed(g)(...)  /  numba.njit(g)(...)
        if isinstance(fn, ast.Call):
            inner = self.canonical(f.module, fn.func)
            if inner in ("dask.delayed",) and fn.args:
                return self.resolve_callee_expr(f, fn.args[0], cls_ctx)
            return ["<dynamic>"]
        return self.resolve_callee_expr(f, fn, cls_ctx)

    def resolve_callee_expr(self, f: Func, fn: ast.AST, cls_ctx: Optional[Cls] = None) -> List[Union[Func, str]]:
        owner = cls_ctx or f.cls or (f.parent.cls if f.parent else None)
        if isinstance(fn, ast.Name):
            r = self.scope_lookup(f, fn.id)
            if isinstance(r, Func):
                return [r]
            if isinstance(r, Cls):
                init = self.resolve_method(r, "__init__")
                return [init] if init else ["repo:" + r.key]
            if isinstance(r, tuple) and r[0] == "ext":
                return [r[1]]
            return ["<local:%s>" % fn.id]
        if isinstance(fn, ast.Attribute):
            if isinstance(fn.value, ast.Name) and fn.value.id == "self" and owner is not None:
                meth = self.resolve_method(owner, fn.attr)
                if meth is not None:
                    return [meth]
                cands = self.attr_function_candidates(owner, fn.attr)
                if cands:
                    return list(cands)
                return ["<self.%s>" % fn.attr]
            if (
                isinstance(fn.value, ast.Call)
                and isinstance(fn.value.func, ast.Name)
                and fn.value.func.id == "super"
                and owner is not None
            ):
                mro = self.mro(owner)
                # super() relative to the class that *defines* f
                definer = f.cls or owner
                started = False
                for x in mro:
                    if x is definer:
                        started = True
                        continue
                    if started and isinstance(x, Cls) and fn.attr in x.methods:
                        return [x.methods[fn.attr]]
                return ["<super.%s>" % fn.attr]
            r = self.resolve_dotted(f.module, fn)
            if isinstance(r, Func):
                return [r]
            if isinstance(r, Cls):
                init = self.resolve_method(r, "__init__")
                return [init] if init else ["repo:" + r.key]
            c = self.canonical(f.module, fn)
            if c:
                return [c]
            return ["<method:%s>" % fn.attr]
        if isinstance(fn, ast.Subscript):
            return ["<subscript-call>"]
        return ["<dynamic>"]

    def calls_in(self, f: Func) -> List[ast.Call]:
        return [n for n in walk_no_nested(f.node) if isinstance(n, ast.Call)]

    # ------------------------------------------------------------------ fitted attrs
    def fitted_attrs(self, c: Cls) -> Set[str]:
        """Attributes assigned on self in fit/fit_transform-reachable methods of the
        class that are not plain constructor parameters."""
        params = set(self.ctor_params(c))
        out: Set[str] = set()
        for entry in ("fit", "fit_transform"):
            for g in self.reachable_from(c, entry):
                owner = g.cls or (g.parent.cls if g.parent else None)
                if owner is None or owner not in self.mro(c):
                    continue
                for n in walk_no_nested(g.node):
                    targets = []
                    if isinstance(n, ast.Assign):
                        targets = n.targets
                    elif isinstance(n, (ast.AugAssign, ast.AnnAssign)):
                        targets = [n.target]
                    for t in targets:
                        for e in ([t] if not isinstance(t, (ast.Tuple, ast.List)) else t.elts):
                            if is_self_attr(e) and e.attr not in params:
                                out.add(e.attr)
        return out

    # ------------------------------------------------------------------ reachability
    def nonnull_expr(self, f: Func, expr: ast.AST, ctx: frozenset, owner: Optional[Cls]) -> bool:
        """Is the argument expression certainly not None in this calling context?"""
        if isinstance(expr, ast.Constant):
            return expr.value is not None
        if isinstance(expr, (ast.Dict, ast.List, ast.Tuple, ast.Set, ast.ListComp, ast.DictComp, ast.Call, ast.BinOp)):
            return True
        if isinstance(expr, ast.Name):
            return expr.id in ctx
        if is_self_attr(expr) and owner is not None:
            return expr.attr.endswith("_") and not expr.attr.startswith("__") and expr.attr not in self.ctor_params(owner)
        return False

    @staticmethod
    def none_guarded_blocks(f: Func) -> List[Tuple[str, List[ast.stmt]]]:
        """(param, statements) for every ``if <param> is None:`` body and every
        ``else`` of ``if <param> is not None:`` in f."""
        out = []
        params = set(f.params)
        for n in walk_no_nested(f.node):
            if isinstance(n, ast.If) and isinstance(n.test, ast.Compare) and len(n.test.ops) == 1:
                left, op, right = n.test.left, n.test.ops[0], n.test.comparators[0]
                if isinstance(left, ast.Name) and left.id in params and is_none(right):
                    if isinstance(op, ast.Is):
                        out.append((left.id, n.body))
                    elif isinstance(op, ast.IsNot):
                        out.append((left.id, n.orelse))
        return out

    def bind_args(self, callee: Func, call: ast.Call, drop_self: bool = None) -> Dict[str, ast.AST]:
        """Bind call arguments to the callee's parameter names (no *args expansion)."""
        params = callee.positional_params
        if drop_self is None:
            drop_self = bool(params) and params[0] == "self"
        if drop_self:
            params = params[1:]
        out: Dict[str, ast.AST] = {}
        i = 0
        for a in call.args:
            if isinstance(a, ast.Starred):
                out["*"] = a.value
                break
            if i < len(params):
                out[params[i]] = a
            i += 1
        for k in call.keywords:
            if k.arg is None:
                out["**"] = k.value
            else:
                out[k.arg] = k.value
        return out

    def reachable_from(self, c: Optional[Cls], entry: Union[str, Func], prune: bool = True) -> List[Func]:
        """Functions reachable from method `entry` of class c (self-calls resolved on
        c), with one level of None-guard pruning per calling context."""
        if isinstance(entry, str):
            start = self.resolve_method(c, entry) if c is not None else None
            if start is None:
                return []
        else:
            start = entry
        ck = (c, start, prune)
        cache = self.__dict__.setdefault("_reach_cache", {})
        if ck in cache:
            return list(cache[ck])
        cache[ck] = self._reachable_from(c, start, prune)
        return list(cache[ck])

    def _reachable_from(self, c, start, prune):
        seen: Dict[Tuple[Func, frozenset], None] = {}
        order: List[Func] = []
        todo: List[Tuple[Func, frozenset]] = [(start, frozenset())]
        while todo:
            f, ctx = todo.pop()
            if (f, ctx) in seen:
                continue
            seen[(f, ctx)] = None
            if f not in order:
                order.append(f)
            skip: Set[int] = set()
            if prune and ctx:
                for p, stmts in self.none_guarded_blocks(f):
                    if p in ctx:
                        for s in stmts:
                            for n in ast.walk(s):
                                skip.add(id(n))
            for node in walk_no_nested(f.node):
                if isinstance(node, (ast.FunctionDef, ast.AsyncFunctionDef)) and node is not f.node:
                    continue
                if not isinstance(node, ast.Call) or id(node) in skip:
                    continue
                for t in self.resolve_call(f, node, c):
                    if isinstance(t, Func):
                        bound = self.bind_args(t, node)
                        nn = frozenset(
                            p for p, e in bound.items() if p not in ("*", "**") and self.nonnull_expr(f, e, ctx, c)
                        )
                        todo.append((t, nn))
                # function references passed as arguments (callbacks, dask.delayed(f))
                for a in list(node.args) + [k.value for k in node.keywords]:
                    if isinstance(a, (ast.Name, ast.Attribute)):
                        for t in self.resolve_callee_expr(f, a, c):
                            if isinstance(t, Func) and not isinstance(a, ast.Name) or (
                                isinstance(t, Func) and isinstance(a, ast.Name) and a.id not in f.params
                            ):
                                todo.append((t, frozenset()))
            # nested closures defined here are considered reachable
            for h in f.module.all_funcs:
                if h.parent is f:
                    todo.append((h, frozenset()))
        return order
