"""Engine C - alias and effect analysis: which objects may a function mutate?

Abstract value of an expression = set of *origins* ``(root, depth, fresh)``:

* ``root``  - ``P:<param>`` (a parameter of the analysed function) or
  ``A:<attr>`` (the object stored in ``self.<attr>``);
* ``depth`` - 0: the object itself, 1: an element / view / part of it, 2: deeper;
* ``fresh`` - the value is a *new container* whose elements are the parts at
  ``depth`` (``tuple(x)``, ``[f(v) for v in x]``): mutating the container is
  harmless, mutating one of its elements is not.

The empty set means "fresh object".  Branch joins take the union.  A summary per
(function, class context, None-ness of parameters) gives the parameters /
attributes possibly mutated (with the level: 0 the object itself, >= 1 an
element) and what the return value may alias.  Unknown external calls are assumed
to return fresh objects and mutate nothing; the library mutators the repository
uses are in the tables below.
"""
from __future__ import annotations

import ast
from dataclasses import dataclass, field
from typing import Dict, FrozenSet, Iterable, List, Optional, Sequence, Set, Tuple

from .cfg import CFG, Node, target_names
from .model import Cls, Func, Repo, dotted, is_none, is_self_attr, short, walk_no_nested

Origin = Tuple[str, int, bool]
Val = FrozenSet[Origin]
EMPTY: Val = frozenset()

# --------------------------------------------------------------------------- library tables
MUTATING_METHODS = {
    "append", "extend", "insert", "pop", "remove", "clear", "sort", "reverse", "update", "add", "discard",
    "fill", "resize", "eliminate_zeros", "sort_indices", "sum_duplicates", "prune", "setdiag", "setdefault",
    "popitem", "put", "itemset", "partition", "setflags", "byteswap_inplace", "flush_inplace",
}
# method results that may be the receiver itself or share its memory
ALIAS_SAME_METHODS = {"tocsr", "tocsc", "tocoo", "tolil", "todia", "tobsr", "asformat", "asfptype", "view_same"}
VIEW_METHODS = {"reshape", "ravel", "view", "squeeze", "transpose", "swapaxes", "keys", "values", "items", "get",
                "flatten_view", "diagonal", "getrow_view", "__getitem__"}
VIEW_ATTRS = {"data", "indices", "indptr", "T", "rows", "row", "col", "flat", "real", "imag", "base", "A1_view"}
FRESH_ATTRS = {"shape", "size", "ndim", "dtype", "nnz", "nbytes"}
# external functions returning (possibly) their first argument / a view of it
ALIAS_FUNCS = {
    "numpy.asarray", "numpy.ascontiguousarray", "numpy.asanyarray", "numpy.asfortranarray", "numpy.atleast_1d",
    "numpy.atleast_2d", "numpy.squeeze", "numpy.ravel", "numpy.reshape", "numpy.transpose", "numpy.flipud",
    "numpy.fliplr", "numpy.flip", "numpy.diagonal", "numpy.expand_dims", "numpy.broadcast_to",
    "sklearn.utils.validation.check_array", "sklearn.utils.check_array", "numpy.nan_to_num_nocopy",
    "scipy.sparse.csr_matrix", "scipy.sparse.csc_matrix", "scipy.sparse.coo_matrix", "scipy.sparse.lil_matrix",
    "scipy.sparse.csr_array", "scipy.sparse.csc_array", "scipy.sparse.coo_array",
}
# fresh container, shared elements
ELEMS_FUNCS = {"list", "tuple", "sorted", "reversed", "set", "frozenset", "dict", "enumerate", "zip", "iter",
               "numba.typed.List", "itertools.chain.from_iterable", "itertools.chain", "filter", "map"}
ITER_WRAPPERS = {"enumerate", "zip", "reversed", "iter", "sorted", "list", "tuple"}
# in-place library functions: canonical name -> index of the mutated positional argument
INPLACE_FUNCS = {
    "numpy.copyto": 0, "numpy.fill_diagonal": 0, "numpy.put": 0, "numpy.place": 0, "numpy.putmask": 0,
    "numpy.random.shuffle": 0, "random.shuffle": 0, "numpy.add.at": 0, "numpy.subtract.at": 0,
    "numpy.multiply.at": 0, "numpy.maximum.at": 0, "heapq.heappush": 0, "heapq.heapify": 0,
}
OUT_POSITIONAL = {"numpy.round": 2, "numpy.around": 2, "numpy.round_": 2, "numpy.clip": 3, "numpy.cumsum": 3}
ARRAY_INDEX_CALLS = {"numpy.argsort", "numpy.where", "numpy.nonzero", "numpy.arange", "numpy.flatnonzero",
                     "numpy.argpartition", "numpy.unique", "numpy.random.choice"}
ARRAY_EVIDENCE_ATTRS = {"shape", "sum", "astype", "T", "data", "indices", "indptr", "dtype", "size", "ndim",
                        "mean", "max", "min", "copy", "reshape", "flatten", "dot", "nnz", "toarray"}


def cap(d: int) -> int:
    return d if d < 2 else 2


def elem_of(v: Val) -> Val:
    """Origins of an element / view / part of a value."""
    out = set()
    for root, d, fresh in v:
        if fresh:
            out.add((root, d, False))
        else:
            out.add((root, cap(d + 1), False))
    return frozenset(out)


def slice_of(v: Val) -> Val:
    out = set()
    for root, d, fresh in v:
        if fresh:
            out.add((root, d, True))
        else:
            out.add((root, cap(d + 1), False))
    return frozenset(out)


def container_of(v: Val) -> Val:
    """A fresh container holding the given value(s) as elements."""
    return frozenset((root, d, True) for root, d, _ in v)


def container_of_elems(v: Val) -> Val:
    """A fresh container holding the *elements* of the given value (list(x), tuple(x))."""
    out = set()
    for root, d, fresh in v:
        out.add((root, d if fresh else cap(d + 1), True))
    return frozenset(out)


@dataclass(frozen=True)
class Mutation:
    root: str
    level: int  # 0: the object itself, >= 1: an element / part of it
    where: str  # file:line function
    what: str
    chain: Tuple[str, ...] = ()

    def key(self):
        return (self.root, self.where, self.what)


@dataclass
class Summary:
    mutations: List[Mutation] = field(default_factory=list)
    returns: Val = EMPTY  # in terms of the function's own roots (tuple returns: union)
    returns_by_pos: Dict[int, Val] = field(default_factory=dict)
    attr_writes: Dict[str, Val] = field(default_factory=dict)  # self.attr = value origins


class Effects:
    def __init__(self, repo: Repo):
        self.repo = repo
        self.cache: Dict[Tuple, Summary] = {}
        self.stack: List[Tuple] = []
        self.attr_origin_cache: Dict[Cls, Dict[str, Val]] = {}
        self.unresolved_mutators: List[str] = []

    # ------------------------------------------------------------------ per class attr aliases
    def attr_origins(self, c: Optional[Cls]) -> Dict[str, Val]:
        """What may the object stored in self.<attr> alias?  (flow-insensitive union over
        all methods of the class: constructor parameters, and parameters of fit that
        are stored on self).  Roots are 'A:<ctor param>' or 'F:<method>.<param>'."""
        if c is None:
            return {}
        if c in self.attr_origin_cache:
            return self.attr_origin_cache[c]
        self.attr_origin_cache[c] = {}
        out: Dict[str, Set[Origin]] = {}
        for _ in range(2):
            for x in self.repo.mro(c):
                if not isinstance(x, Cls):
                    continue
                for m in x.methods.values():
                    if self.repo.resolve_method(c, m.name) is not m:
                        continue
                    s = self.summary(m, c)
                    for a, v in s.attr_writes.items():
                        cur = out.setdefault(a, set())
                        for root, d, fresh in v:
                            if root.startswith("P:"):
                                if m.name == "__init__":
                                    cur.add(("A:" + root[2:], d, fresh))
                                else:
                                    cur.add(("F:%s.%s" % (m.name, root[2:]), d, fresh))
                            elif root != "A:" + a:
                                cur.add((root, d, fresh))
            self.attr_origin_cache[c] = {k: frozenset(v) for k, v in out.items()}
            # second round lets attr -> attr aliases settle
            self.cache = {k: v for k, v in self.cache.items() if k[1] is not c}
        return self.attr_origin_cache[c]

    # ------------------------------------------------------------------ summaries
    def summary(self, f: Func, c: Optional[Cls] = None, nonnull: FrozenSet[str] = frozenset(),
                null: FrozenSet[str] = frozenset()) -> Summary:
        key = (f, c, nonnull, null)
        if key in self.cache:
            return self.cache[key]
        if key in self.stack or len(self.stack) > 40:
            return Summary()
        self.stack.append(key)
        try:
            s = _FunctionAnalysis(self, f, c, nonnull, null).run()
        finally:
            self.stack.pop()
        self.cache[key] = s
        return s


class _FunctionAnalysis:
    def __init__(self, eng: Effects, f: Func, c: Optional[Cls], nonnull, null):
        self.eng = eng
        self.repo = eng.repo
        self.f = f
        self.c = c or f.cls or (f.parent.cls if f.parent else None)
        self.nonnull = nonnull
        self.null = null
        self.muts: Dict[Tuple, Mutation] = {}
        self.returns: Set[Origin] = set()
        self.returns_by_pos: Dict[int, Set[Origin]] = {}
        self.attr_writes: Dict[str, Set[Origin]] = {}
        self.where_prefix = f.file
        self._evidence = self._array_evidence()
        self._index_names = self._array_index_names()

    # ------------------------------------------------------------------ helpers
    def _array_evidence(self) -> Set[str]:
        ev = set()
        for n in walk_no_nested(self.f.node):
            if isinstance(n, ast.Subscript) and isinstance(n.value, ast.Name):
                ev.add(n.value.id)
            if isinstance(n, ast.Attribute) and isinstance(n.value, ast.Name) and n.attr in ARRAY_EVIDENCE_ATTRS:
                ev.add(n.value.id)
        return ev

    def _array_index_names(self) -> Set[str]:
        """Locals that hold index arrays / masks (fancy indexing copies)."""
        out = set()
        for n in walk_no_nested(self.f.node):
            if isinstance(n, ast.Assign) and len(n.targets) == 1 and isinstance(n.targets[0], ast.Name):
                v = n.value
                while isinstance(v, ast.Subscript):
                    v = v.value
                if isinstance(v, ast.Compare) or (isinstance(v, ast.BinOp) and isinstance(v.op, (ast.BitAnd, ast.BitOr))):
                    out.add(n.targets[0].id)
                if isinstance(v, ast.Call):
                    canon = self.repo.canonical(self.f.module, v.func)
                    if canon in ARRAY_INDEX_CALLS or canon in ("numpy.isin", "numpy.in1d", "numpy.logical_and", "numpy.logical_or", "numpy.repeat"):
                        out.add(n.targets[0].id)
        return out

    def class_level(self, attr: str) -> Val:
        return self.eng.attr_origins(self.c).get(attr, EMPTY) if self.c is not None else EMPTY

    def loc(self, node: ast.AST) -> str:
        return "%s:%d %s" % (self.f.file, getattr(node, "lineno", 0), self.f.qualname)

    def mutate(self, v: Val, node: ast.AST, what: str, extra_level: int = 0, container_level: bool = True,
               chain: Tuple[str, ...] = ()):
        """Record a mutation applied to a value with origins v.  container_level: the
        operation acts on the value itself (append, store); otherwise on its elements."""
        for root, d, fresh in v:
            if fresh:
                if container_level and extra_level == 0:
                    continue  # only the new container changes
                level = d + max(extra_level - 1, 0) if container_level else d
            else:
                level = d + extra_level
            m = Mutation(root, cap(level), self.loc(node), what, chain)
            self.muts.setdefault(m.key(), m)

    # ------------------------------------------------------------------ expression evaluation
    def ev(self, e: Optional[ast.AST], env: Dict[str, Val]) -> Val:
        if e is None:
            return EMPTY
        if isinstance(e, ast.Name):
            return env.get(e.id, EMPTY)
        if isinstance(e, ast.Constant):
            return EMPTY
        if isinstance(e, ast.Attribute):
            if is_self_attr(e):
                base = frozenset({("A:" + e.attr, 0, False)})
                k = "self." + e.attr
                if k in env:
                    return base | env[k]  # assigned earlier in this very function on every path
                return base | self.class_level(e.attr)
            if e.attr in FRESH_ATTRS:
                return EMPTY
            v = self.ev(e.value, env)
            if e.attr in VIEW_ATTRS:
                return elem_of(v)
            return elem_of(v)  # an attribute object of a shared object is shared too
        if isinstance(e, ast.Subscript):
            v = self.ev(e.value, env)
            if not v:
                return EMPTY
            s = e.slice
            if isinstance(s, ast.Slice):
                return slice_of(v)
            if isinstance(s, ast.Tuple):
                # multi-dimensional: basic slices/ints give views, masks/arrays give copies
                if any(isinstance(x, (ast.Compare, ast.List)) or (isinstance(x, ast.Name) and x.id in self._index_names) for x in s.elts):
                    return EMPTY
                return elem_of(v)
            if isinstance(s, (ast.Compare, ast.List, ast.ListComp)):
                return EMPTY
            if isinstance(s, ast.Name) and s.id in self._index_names:
                return EMPTY
            if isinstance(s, ast.Call):
                canon = self.repo.canonical(self.f.module, s.func)
                if canon in ARRAY_INDEX_CALLS:
                    return EMPTY
            return elem_of(v)
        if isinstance(e, (ast.Tuple, ast.List, ast.Set)):
            out: Set[Origin] = set()
            for x in e.elts:
                if isinstance(x, ast.Starred):
                    out |= container_of_elems(self.ev(x.value, env))
                else:
                    out |= container_of(self.ev(x, env))
            return frozenset(out)
        if isinstance(e, ast.Dict):
            out = set()
            for x in e.values:
                out |= container_of(self.ev(x, env))
            return frozenset(out)
        if isinstance(e, (ast.ListComp, ast.SetComp, ast.GeneratorExp, ast.DictComp)):
            env2 = dict(env)
            for g in e.generators:
                itv = self.iter_elems(g.iter, env2)
                for name in target_names(g.target):
                    env2[name] = itv
            elt = e.value if isinstance(e, ast.DictComp) else e.elt
            return container_of(self.ev(elt, env2))
        if isinstance(e, ast.IfExp):
            return self.ev(e.body, env) | self.ev(e.orelse, env)
        if isinstance(e, ast.BoolOp):
            out = EMPTY
            for x in e.values:
                out |= self.ev(x, env)
            return out
        if isinstance(e, ast.NamedExpr):
            return self.ev(e.value, env)
        if isinstance(e, ast.Starred):
            return self.ev(e.value, env)
        if isinstance(e, ast.Call):
            return self.ev_call(e, env)
        if isinstance(e, ast.Lambda):
            return EMPTY
        # BinOp, UnaryOp, Compare, JoinedStr ...: new objects
        return EMPTY

    def iter_elems(self, it: ast.AST, env: Dict[str, Val]) -> Val:
        """Origins of the loop variable(s) when iterating `it`."""
        if isinstance(it, ast.Call):
            canon = self.repo.canonical(self.f.module, it.func) or dotted(it.func)
            if canon in ITER_WRAPPERS or canon in ("enumerate", "zip", "reversed"):
                out = EMPTY
                for a in it.args:
                    out |= elem_of(self.ev(a, env))
                return out
            if isinstance(it.func, ast.Attribute) and it.func.attr in ("items", "values", "keys"):
                return elem_of(self.ev(it.func.value, env))
            if canon == "range":
                return EMPTY
        return elem_of(self.ev(it, env))

    # ------------------------------------------------------------------ calls
    def ev_call(self, call: ast.Call, env: Dict[str, Val]) -> Val:
        fn = call.func
        f = self.f
        # effects of arguments are evaluated by the statement walker; here: value + callee effects
        if isinstance(fn, ast.Attribute) and not is_self_attr(fn):
            canon = self.repo.canonical(f.module, fn)
            resolved = [t for t in self.repo.resolve_call(f, call, self.c) if isinstance(t, Func)]
            if not resolved and (canon is None or not canon.startswith(("numpy", "scipy", "sklearn", "numba", "pandas", "dask", "os", "tempfile", "itertools", "re", "warnings"))):
                recv = self.ev(fn.value, env)
                m = fn.attr
                if m in MUTATING_METHODS:
                    self.mutate(recv, call, "%s.%s(...)" % (short(fn.value, 40), m))
                    # containers that store their argument now share it
                    if m in ("append", "add", "insert") and call.args and isinstance(fn.value, ast.Name):
                        env[fn.value.id] = env.get(fn.value.id, EMPTY) | container_of(self.ev(call.args[-1], env))
                    if m in ("extend", "update") and call.args and isinstance(fn.value, ast.Name):
                        env[fn.value.id] = env.get(fn.value.id, EMPTY) | container_of_elems(self.ev(call.args[0], env))
                    return EMPTY
                if m == "copy" or m in ("astype", "toarray", "todense", "tolist", "sum", "mean", "dot", "multiply", "power",
                                        "max", "min", "flatten", "nonzero", "argsort", "cumsum", "round", "clip", "conj"):
                    if m == "astype":
                        for k in call.keywords:
                            if k.arg == "copy" and isinstance(k.value, ast.Constant) and k.value.value is False:
                                return recv
                    return EMPTY
                if m in ALIAS_SAME_METHODS:
                    for k in call.keywords:
                        if k.arg == "copy" and isinstance(k.value, ast.Constant) and k.value.value is True:
                            return EMPTY
                    return recv
                if m in VIEW_METHODS:
                    return elem_of(recv)
                return EMPTY
        targets = self.repo.resolve_call(f, call, self.c)
        funcs = [t for t in targets if isinstance(t, Func)]
        if funcs:
            out = EMPTY
            for t in funcs:
                out |= self.apply_summary(t, call, env)
            return out
        canon = None
        for t in targets:
            if isinstance(t, str) and not t.startswith("<"):
                canon = t
        if canon is None and isinstance(fn, ast.Name):
            canon = fn.id
        return self.ev_external(canon, call, env)

    def ev_external(self, canon: Optional[str], call: ast.Call, env: Dict[str, Val]) -> Val:
        args = call.args
        # in-place forms
        for k in call.keywords:
            if k.arg == "out":
                self.mutate(self.ev(k.value, env), call, "%s(..., out=%s)" % (canon, short(k.value, 30)))
        if canon in INPLACE_FUNCS and len(args) > INPLACE_FUNCS[canon]:
            a = args[INPLACE_FUNCS[canon]]
            self.mutate(self.ev(a, env), call, "%s(%s, ...)" % (canon, short(a, 30)))
        if canon in OUT_POSITIONAL and len(args) > OUT_POSITIONAL[canon]:
            a = args[OUT_POSITIONAL[canon]]
            self.mutate(self.ev(a, env), call, "%s(..., %s) writes its output argument" % (canon, short(a, 30)))
        if canon in ("sklearn.preprocessing.normalize", "sklearn.preprocessing.scale", "sklearn.utils.validation.check_array"):
            for k in call.keywords:
                if k.arg == "copy" and isinstance(k.value, ast.Constant) and k.value.value is False and args:
                    if canon != "sklearn.utils.validation.check_array":
                        self.mutate(self.ev(args[0], env), call, "%s(%s, copy=False)" % (canon.rsplit(".", 1)[1], short(args[0], 30)))
                    return self.ev(args[0], env)
        if canon in ("numpy.array",):
            for k in call.keywords:
                if k.arg == "copy" and isinstance(k.value, ast.Constant) and k.value.value is False and args:
                    return self.ev(args[0], env)
            return EMPTY
        if canon in ALIAS_FUNCS and args:
            v = self.ev(args[0], env)
            if canon.startswith("scipy.sparse."):
                for k in call.keywords:
                    if k.arg == "copy" and isinstance(k.value, ast.Constant) and k.value.value is True:
                        return EMPTY
                if isinstance(args[0], ast.Tuple):
                    # (data, (row, col)) / (data, indices, indptr): array leaves are used as buffers,
                    # list / comprehension leaves are converted (copied)
                    leaves: List[ast.AST] = []
                    todo = list(args[0].elts)
                    while todo:
                        x = todo.pop()
                        if isinstance(x, (ast.Tuple, ast.List)):
                            todo.extend(x.elts)
                        else:
                            leaves.append(x)
                    out: Set[Origin] = set()
                    for x in leaves:
                        out |= {o for o in self.ev(x, env) if not o[2]}
                    return frozenset(out)
                return elem_of(frozenset(o for o in v if not o[2]))  # new object sharing the buffers
            # converting a *new container* (list, tuple, comprehension) to an array copies the values
            return frozenset(o for o in v if not o[2])
        if canon in ELEMS_FUNCS:
            out = EMPTY
            for a in args:
                out |= container_of_elems(self.ev(a, env))
            return out
        if canon == "dask.delayed":
            return EMPTY
        return EMPTY

    def apply_summary(self, t: Func, call: ast.Call, env: Dict[str, Val]) -> Val:
        bound = self.repo.bind_args(t, call)
        nn, nl = set(), set()
        for p in t.params:
            e = bound.get(p)
            if e is None:
                d = t.defaults.get(p)
                if d is not None and is_none(d) and "**" not in bound and "*" not in bound:
                    nl.add(p)
            elif is_none(e):
                nl.add(p)
            elif self.repo.nonnull_expr(self.f, e, self.nonnull, self.c):
                nn.add(p)
        is_method = bool(t.params) and t.params[0] == "self"
        ctx_cls = self.c if is_method else None
        if is_method and isinstance(call.func, ast.Name):
            ctx_cls = t.cls  # constructor call of another class
        s = self.eng.summary(t, ctx_cls, frozenset(nn), frozenset(nl))
        argv: Dict[str, Val] = {p: self.ev(e, env) for p, e in bound.items() if p not in ("*", "**")}
        same_self = is_method and not isinstance(call.func, ast.Name)
        chain_head = "%s -> %s" % (self.loc(call), t.qualname)
        for m in s.mutations:
            if m.root.startswith("P:"):
                v = argv.get(m.root[2:], EMPTY)
                for root, d, fresh in v:
                    if fresh:
                        if m.level == 0:
                            continue
                        level = d + m.level - 1
                    else:
                        level = d + m.level
                    mm = Mutation(root, cap(level), m.where, m.what, (chain_head,) + m.chain)
                    self.muts.setdefault(mm.key(), mm)
            elif same_self:
                self.muts.setdefault(m.key(), Mutation(m.root, m.level, m.where, m.what, (chain_head,) + m.chain))
        if same_self:
            for a, v in s.attr_writes.items():
                self.attr_writes.setdefault(a, set()).update(self._subst(v, argv, True))
        return frozenset(self._subst(s.returns, argv, same_self))

    def _subst(self, v: Iterable[Origin], argv: Dict[str, Val], same_self: bool) -> Set[Origin]:
        out: Set[Origin] = set()
        for root, d, fresh in v:
            if root.startswith("P:"):
                for r2, d2, f2 in argv.get(root[2:], EMPTY):
                    if fresh:
                        out.add((r2, cap(d2 + d - (1 if f2 and d > 0 else 0)) if not f2 else cap(max(d2, d)), True))
                    elif d == 0:
                        out.add((r2, d2, f2))
                    else:
                        out.add((r2, cap((d2 if f2 else d2 + d)), False))
            elif same_self or not root.startswith("A:"):
                out.add((root, d, fresh))
        return out

    # ------------------------------------------------------------------ statements
    def visit_calls(self, e: Optional[ast.AST], env: Dict[str, Val]):
        """Evaluate every call nested in an expression for its effects."""
        if e is None:
            return
        for n in walk_no_nested(e):
            if isinstance(n, ast.Call):
                # dask.delayed(f)(...) resolves through the outer call
                self.ev_call(n, env)

    def assign(self, target: ast.AST, v: Val, env: Dict[str, Val], node: ast.AST, value_expr: Optional[ast.AST] = None):
        if isinstance(target, ast.Name):
            env[target.id] = v
        elif isinstance(target, (ast.Tuple, ast.List)):
            # tuple unpacking: positional summaries when the value is a call to a repo function
            pos: Optional[Dict[int, Val]] = None
            if isinstance(value_expr, ast.Tuple) and len(value_expr.elts) == len(target.elts):
                for t, x in zip(target.elts, value_expr.elts):
                    self.assign(t, self.ev(x, env), env, node, x)
                return
            if isinstance(value_expr, ast.Call):
                pos = self._positional_returns(value_expr, env)
            for i, t in enumerate(target.elts):
                if pos is not None and i in pos:
                    self.assign(t, pos[i], env, node)
                else:
                    self.assign(t, elem_of(v), env, node)
        elif isinstance(target, ast.Starred):
            self.assign(target.value, v, env, node)
        elif isinstance(target, ast.Attribute):
            if is_self_attr(target):
                self.attr_writes.setdefault(target.attr, set()).update(v)
                env["self." + target.attr] = frozenset(o for o in v if o[0] != "A:" + target.attr)
            else:
                self.mutate(self.ev(target.value, env), node, "%s = ..." % short(target, 50))
        elif isinstance(target, ast.Subscript):
            base = self.ev(target.value, env)
            self.mutate(base, node, "%s = ..." % short(target, 50))
            # a container that receives a shared object now shares it
            if isinstance(target.value, ast.Name) and v:
                env[target.value.id] = env.get(target.value.id, EMPTY) | container_of(v)

    def _positional_returns(self, call: ast.Call, env) -> Optional[Dict[int, Val]]:
        funcs = [t for t in self.repo.resolve_call(self.f, call, self.c) if isinstance(t, Func)]
        if len(funcs) != 1:
            return None
        t = funcs[0]
        bound = self.repo.bind_args(t, call)
        is_method = bool(t.params) and t.params[0] == "self"
        nn, nl = set(), set()
        for p in t.params:
            e = bound.get(p)
            if e is None:
                d = t.defaults.get(p)
                if d is not None and is_none(d) and "**" not in bound and "*" not in bound:
                    nl.add(p)
            elif is_none(e):
                nl.add(p)
            elif self.repo.nonnull_expr(self.f, e, self.nonnull, self.c):
                nn.add(p)
        s = self.eng.summary(t, self.c if is_method else None, frozenset(nn), frozenset(nl))
        if not s.returns_by_pos:
            return None
        argv = {p: self.ev(e, env) for p, e in bound.items() if p not in ("*", "**")}
        return {i: frozenset(self._subst(v, argv, is_method)) for i, v in s.returns_by_pos.items()}

    def transfer(self, n: Node, env_in: Dict[str, Val]) -> Dict[str, Val]:
        env = dict(env_in)
        a = n.ast
        if n.kind in ("entry", "exit", "raise") or a is None:
            return env
        if n.kind == "test":
            self.visit_calls(a, env)
            return env
        if n.kind == "for":
            self.visit_calls(a, env)
            return env
        if n.kind == "bind":
            loop = n.owner
            v = self.iter_elems(loop.iter, env)
            for name in target_names(a):
                env[name] = v
            return env
        if n.kind == "handler":
            if getattr(a, "name", None):
                env[a.name] = EMPTY
            return env
        if n.kind == "with":
            for item in a.items:
                self.visit_calls(item.context_expr, env)
                if item.optional_vars is not None:
                    self.assign(item.optional_vars, self.ev(item.context_expr, env), env, a)
            return env
        if isinstance(a, ast.Assign):
            self.visit_calls(a.value, env)
            v = self.ev(a.value, env)
            for t in a.targets:
                if not isinstance(t, ast.Name):
                    self.visit_calls(t, env)
                self.assign(t, v, env, a, a.value)
        elif isinstance(a, ast.AnnAssign):
            if a.value is not None:
                self.visit_calls(a.value, env)
                self.assign(a.target, self.ev(a.value, env), env, a, a.value)
        elif isinstance(a, ast.AugAssign):
            self.visit_calls(a.value, env)
            t = a.target
            if isinstance(t, ast.Name):
                v = env.get(t.id, EMPTY)
                nonfresh = frozenset(o for o in v if not o[2])
                if nonfresh and (t.id in self._evidence or any(o[1] >= 1 for o in nonfresh)):
                    self.mutate(nonfresh, a, "%s %s= ... (in-place on a shared array)" % (t.id, _op(a.op)), container_level=True)
            elif isinstance(t, ast.Attribute):
                if is_self_attr(t):
                    base = frozenset({("A:" + t.attr, 0, False)}) | (self.eng.attr_origins(self.c).get(t.attr, EMPTY) if self.c else EMPTY)
                    self.mutate(base, a, "%s %s= ..." % (short(t, 40), _op(a.op)))
                else:
                    self.mutate(elem_of(self.ev(t.value, env)), a, "%s %s= ..." % (short(t, 40), _op(a.op)))
            elif isinstance(t, ast.Subscript):
                self.visit_calls(t, env)
                self.mutate(self.ev(t.value, env), a, "%s %s= ..." % (short(t, 40), _op(a.op)))
        elif isinstance(a, ast.Delete):
            for t in a.targets:
                if isinstance(t, ast.Subscript):
                    self.mutate(self.ev(t.value, env), a, "del %s" % short(t, 40))
                elif isinstance(t, ast.Name):
                    env.pop(t.id, None)
        elif isinstance(a, ast.Return):
            self.visit_calls(a.value, env)
            if a.value is not None:
                v = self.ev(a.value, env)
                if isinstance(a.value, ast.Tuple):
                    for i, x in enumerate(a.value.elts):
                        self.returns_by_pos.setdefault(i, set()).update(self.ev(x, env))
                    self.returns |= set(v)
                else:
                    self.returns |= set(v)
        elif isinstance(a, ast.Expr):
            self.visit_calls(a.value, env)
        elif isinstance(a, (ast.FunctionDef, ast.AsyncFunctionDef, ast.ClassDef)):
            env[a.name] = EMPTY
        elif isinstance(a, (ast.Raise, ast.Assert)):
            self.visit_calls(a, env)
        return env

    def run(self) -> Summary:
        f = self.f
        g = CFG(f.node)
        init: Dict[str, Val] = {}
        for p in f.params:
            if p == "self" and f.params and f.params[0] == "self":
                init[p] = frozenset({("SELF", 0, False)})
            else:
                init[p] = frozenset({("P:" + p, 0, False)})
        if f.node.args.vararg:
            init[f.node.args.vararg.arg] = frozenset({("P:" + f.node.args.vararg.arg, 0, False)})
        if f.node.args.kwarg:
            init[f.node.args.kwarg.arg] = frozenset({("P:" + f.node.args.kwarg.arg, 0, False)})
        # closures see the enclosing function's parameters as shared objects too
        p = f.parent
        while p is not None:
            for q in p.params:
                init.setdefault(q, frozenset({("P:" + q, 0, False)}))
            p = p.parent
        # None-guard pruning by calling context
        dead: Set[int] = set()
        for n in walk_no_nested(f.node):
            if isinstance(n, ast.If) and isinstance(n.test, ast.Compare) and len(n.test.ops) == 1 \
                    and isinstance(n.test.left, ast.Name) and is_none(n.test.comparators[0]):
                q, op = n.test.left.id, n.test.ops[0]
                kill = None
                if isinstance(op, ast.Is):
                    kill = n.body if q in self.nonnull else (n.orelse if q in self.null else None)
                elif isinstance(op, ast.IsNot):
                    kill = n.orelse if q in self.nonnull else (n.body if q in self.null else None)
                # the parameter must not have been re-bound before the test
                if kill and not any(
                    isinstance(m, ast.Assign) and any(isinstance(t, ast.Name) and t.id == q for t in m.targets) and m.lineno < n.lineno
                    for m in walk_no_nested(f.node)
                ):
                    for s in kill:
                        for x in ast.walk(s):
                            dead.add(id(x))
        live = g.live_nodes()
        IN: Dict[int, Dict[str, Val]] = {g.entry: init}
        OUT: Dict[int, Dict[str, Val]] = {}
        work = [g.entry]
        iterations = 0
        while work and iterations < 20000:
            iterations += 1
            nid = work.pop(0)
            node = g.nodes[nid]
            env_in = IN.get(nid, {})
            if node.ast is not None and id(node.ast) in dead:
                out = dict(env_in)
            else:
                out = self.transfer(node, env_in)
            if OUT.get(nid) == out:
                continue
            OUT[nid] = out
            for succ, _ in g.succ[nid]:
                cur = IN.get(succ)
                if cur is None:
                    IN[succ] = dict(out)
                    work.append(succ)
                else:
                    changed = False
                    for k, v in out.items():
                        if k not in cur:
                            # a self attribute assigned on one path only: the other path sees the class-level aliases
                            cur[k] = (v | self.class_level(k[5:])) if k.startswith("self.") else v
                            changed = True
                        elif not v <= cur[k]:
                            cur[k] = cur[k] | v
                            changed = True
                    for k in list(cur):
                        if k.startswith("self.") and k not in out:
                            extra = self.class_level(k[5:])
                            if not extra <= cur[k]:
                                cur[k] = cur[k] | extra
                                changed = True
                    if changed or succ not in OUT:
                        if succ not in work:
                            work.append(succ)
        s = Summary()
        s.mutations = [m for m in self.muts.values() if m.root != "SELF"]
        s.returns = frozenset(o for o in self.returns if o[0] != "SELF")
        s.returns_by_pos = {i: frozenset(o for o in v if o[0] != "SELF") for i, v in self.returns_by_pos.items()}
        s.attr_writes = {a: frozenset(o for o in v if o[0] != "SELF") for a, v in self.attr_writes.items()}
        return s


def _op(op: ast.operator) -> str:
    return {
        ast.Add: "+", ast.Sub: "-", ast.Mult: "*", ast.Div: "/", ast.FloorDiv: "//", ast.Mod: "%", ast.Pow: "**",
        ast.BitOr: "|", ast.BitAnd: "&", ast.BitXor: "^", ast.LShift: "<<", ast.RShift: ">>", ast.MatMult: "@",
    }.get(type(op), "?")
