"""Engine G - bound call facts along entry paths and their comparison.

``collect_sites`` walks the call graph from an entry method carrying a
substitution environment, so that the arguments seen at a call site deep inside
a wrapper are expressed over the entry method's own ``self`` attributes where
possible (single-definition locals expanded, wrapper parameters replaced by the
wrapper call's arguments).  Comparisons are on these facts, never on text of
whole statements.
"""
from __future__ import annotations

import ast
import copy
from dataclasses import dataclass, field
from typing import Dict, List, Optional, Set, Tuple

from .model import Cls, Func, Repo, is_none, is_self_attr, walk_no_nested
from .rules.common import _Subst, norm, single_defs

MAX_DEPTH = 4


@dataclass
class Site:
    callee: Func
    caller: Func
    call: ast.Call
    bound: Dict[str, ast.AST]  # callee param -> expanded expression
    raw: Dict[str, ast.AST]  # callee param -> expression as written
    entry: str
    nonnull: frozenset  # callee params certainly not None at this site
    chain: Tuple[str, ...]  # functions from entry to caller

    @property
    def line(self) -> int:
        return self.call.lineno


def _expand(expr: ast.AST, defs: Dict[str, ast.AST], env: Dict[str, ast.AST], depth: int = 3) -> ast.AST:
    cur = copy.deepcopy(expr)
    for _ in range(depth):
        names = {n.id for n in ast.walk(cur) if isinstance(n, ast.Name) and isinstance(n.ctx, ast.Load)}
        hit = {k: defs[k] for k in names if k in defs}
        if not hit:
            break
        cur = _Subst(hit).visit(cur)
    names = {n.id for n in ast.walk(cur) if isinstance(n, ast.Name) and isinstance(n.ctx, ast.Load)}
    hit = {k: env[k] for k in names if k in env}
    if hit:
        cur = _Subst(hit).visit(cur)
    ast.fix_missing_locations(cur)
    return cur


def collect_sites(repo: Repo, c: Cls, entry: str) -> List[Site]:
    cache = repo.__dict__.setdefault("_site_cache", {})
    key = (c, entry)
    if key not in cache:
        cache[key] = _collect_sites(repo, c, entry)
    return cache[key]


def _collect_sites(repo: Repo, c: Cls, entry: str) -> List[Site]:
    start = repo.resolve_method(c, entry)
    if start is None:
        return []
    out: List[Site] = []
    seen: Set[Tuple[int, str]] = set()

    def visit(f: Func, env: Dict[str, ast.AST], ctx: frozenset, chain: Tuple[str, ...], depth: int):
        sig = (id(f), "|".join("%s=%s" % (k, norm(v)) for k, v in sorted(env.items())) + "|" + ",".join(sorted(ctx)))
        if sig in seen or depth > MAX_DEPTH:
            return
        seen.add(sig)
        defs = single_defs(f)
        skip: Set[int] = set()
        if ctx:
            for p, stmts in repo.none_guarded_blocks(f):
                if p in ctx:
                    for s in stmts:
                        for n in ast.walk(s):
                            skip.add(id(n))
        for node in walk_no_nested(f.node):
            if not isinstance(node, ast.Call) or id(node) in skip:
                continue
            for t in repo.resolve_call(f, node, c):
                if not isinstance(t, Func):
                    continue
                call = node
                # dask.delayed(g)(...): the outer call carries the arguments
                raw = repo.bind_args(t, call)
                bound = {k: _expand(v, defs, env) for k, v in raw.items()}
                nn = frozenset(
                    p for p, e in raw.items() if p not in ("*", "**") and repo.nonnull_expr(f, e, ctx, c)
                )
                out.append(Site(t, f, call, bound, raw, entry, nn, chain + (f.qualname,)))
                sub_env = {k: v for k, v in bound.items() if k not in ("*", "**")}
                visit(t, sub_env, nn, chain + (f.qualname,), depth + 1)

    visit(start, {}, frozenset(), (), 0)
    return out


def is_closed(repo: Repo, f: Func, expr: ast.AST) -> bool:
    """No residual function-local names: only self, module-level names, builtins."""
    import builtins

    for n in ast.walk(expr):
        if isinstance(n, ast.Name):
            if n.id == "self" or hasattr(builtins, n.id):
                continue
            r = repo.resolve_name(f.module, n.id)
            if r is None:
                return False
    return True


def equals_default(expr: Optional[ast.AST], default: Optional[ast.AST]) -> bool:
    if expr is None:
        return True
    if default is None:
        return False
    if isinstance(expr, ast.Constant) and isinstance(default, ast.Constant):
        return expr.value == default.value and type(expr.value) is type(default.value)
    return False


def param_uses_all_in_none_guard(repo: Repo, k: Func, p: str, nonnull: frozenset) -> bool:
    """All reads of parameter p in k lie inside ``if q is None`` blocks for some q
    that is certainly not None in this calling context."""
    guarded: Set[int] = set()
    for q, stmts in repo.none_guarded_blocks(k):
        if q in nonnull:
            for s in stmts:
                for n in ast.walk(s):
                    guarded.add(id(n))
    uses = [
        n
        for n in walk_no_nested(k.node)
        if isinstance(n, ast.Name) and n.id == p and isinstance(n.ctx, ast.Load)
    ]
    if not uses:
        return True
    return all(id(u) in guarded for u in uses)


def self_attrs_in(expr: ast.AST) -> Set[str]:
    return {n.attr for n in ast.walk(expr) if is_self_attr(n)}
