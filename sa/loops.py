"""Engine E - loop-carried dependence of row loops.

For a loop L the engine reports the channels through which one iteration can
influence a later one:

(i)  *upward-exposed names*: a local assigned in the body and, on some path, read
     in the body before being assigned in the same iteration;
(ii) *outside objects mutated inside*: a name bound before the loop (or a self
     attribute) that the body mutates - directly, or by handing it to a callee
     whose effect summary mutates that parameter.

Channels that are how a row loop produces its output are allowed and listed:
append-only accumulators, stores indexed by an induction variable, reads of
``acc[-1]`` / ``len(acc)``, and position cursors (an integer changed only by
``+= <size>`` and used only in slice bounds / min()).
"""
from __future__ import annotations

import ast
from typing import Dict, List, Optional, Set, Tuple

from .cfg import target_names
from .effects import Effects, MUTATING_METHODS
from .model import Cls, Func, Repo, is_self_attr, short, walk_no_nested


def _assigned_in(stmts) -> Set[str]:
    out: Set[str] = set()
    for s in stmts:
        for n in ast.walk(s):
            if isinstance(n, ast.Assign):
                for t in n.targets:
                    out |= set(target_names(t))
            elif isinstance(n, (ast.AugAssign, ast.AnnAssign)):
                out |= set(target_names(n.target))
            elif isinstance(n, ast.For):
                out |= set(target_names(n.target))
            elif isinstance(n, ast.With):
                for it in n.items:
                    if it.optional_vars is not None:
                        out |= set(target_names(it.optional_vars))
            elif isinstance(n, ast.NamedExpr):
                out |= set(target_names(n.target))
    return out


class _Exposed:
    """Names read before being definitely written in one iteration."""

    def __init__(self, candidates: Set[str]):
        self.cand = candidates
        self.exposed: Dict[str, int] = {}

    def reads(self, e: Optional[ast.AST], written: Set[str]):
        if e is None:
            return
        from .cfg import expr_uses

        for n in expr_uses(e):
            if n.id in self.cand and n.id not in written and n.id not in self.exposed:
                self.exposed[n.id] = n.lineno

    def block(self, stmts, written: Set[str]) -> Set[str]:
        written = set(written)
        for s in stmts:
            if isinstance(s, ast.If):
                self.reads(s.test, written)
                a = self.block(s.body, written)
                b = self.block(s.orelse, written)
                a_term = bool(s.body) and isinstance(s.body[-1], (ast.Raise, ast.Return, ast.Continue, ast.Break))
                b_term = bool(s.orelse) and isinstance(s.orelse[-1], (ast.Raise, ast.Return, ast.Continue, ast.Break))
                written = b if (a_term and not b_term) else a if (b_term and not a_term) else (a & b)
            elif isinstance(s, ast.For):
                self.reads(s.iter, written)
                inner = self.block(s.body, written | set(target_names(s.target)))
                self.block(s.orelse, written)
                # names the inner loop both initialises before and updates inside stay written
            elif isinstance(s, ast.While):
                self.reads(s.test, written)
                self.block(s.body, written)
                self.block(s.orelse, written)
            elif isinstance(s, ast.Try):
                w = self.block(s.body, written)
                for h in s.handlers:
                    self.block(h.body, written)
                self.block(s.orelse, w)
                written |= self.block(s.finalbody, written) - written
            elif isinstance(s, ast.With):
                for it in s.items:
                    self.reads(it.context_expr, written)
                    if it.optional_vars is not None:
                        written |= set(target_names(it.optional_vars))
                written = self.block(s.body, written)
            elif isinstance(s, (ast.FunctionDef, ast.ClassDef)):
                written.add(s.name)
            elif isinstance(s, ast.Assign):
                self.reads(s.value, written)
                for t in s.targets:
                    if not isinstance(t, ast.Name):
                        self.reads(t, written)
                    written |= set(target_names(t))
            elif isinstance(s, ast.AugAssign):
                self.reads(s.value, written)
                if isinstance(s.target, ast.Name):
                    if s.target.id in self.cand and s.target.id not in written and s.target.id not in self.exposed:
                        self.exposed[s.target.id] = s.lineno
                    written.add(s.target.id)
                else:
                    self.reads(s.target, written)
            elif isinstance(s, ast.AnnAssign):
                self.reads(s.value, written)
                if s.value is not None:
                    written |= set(target_names(s.target))
            else:
                self.reads(s, written)
        return written


def _is_cursor(name: str, loop: ast.For) -> bool:
    """Integer position cursor: only `name += <expr>` inside the loop and every read is
    in a slice bound, a min()/max() argument, a comparison or the += itself."""
    parents: Dict[int, ast.AST] = {}
    for n in ast.walk(loop):
        for c in ast.iter_child_nodes(n):
            parents[id(c)] = n
    for n in ast.walk(loop):
        if isinstance(n, ast.Assign) and any(name in target_names(t) for t in n.targets):
            return False
        if isinstance(n, ast.AugAssign) and isinstance(n.target, ast.Name) and n.target.id == name and not isinstance(n.op, ast.Add):
            return False
    for n in ast.walk(loop):
        if isinstance(n, ast.Name) and n.id == name and isinstance(n.ctx, ast.Load):
            p = parents.get(id(n))
            ok = False
            cur, par = n, p
            while par is not None and isinstance(par, (ast.BinOp,)):
                cur, par = par, parents.get(id(par))
            if isinstance(par, ast.Slice):
                ok = True
            if isinstance(par, ast.Call) and isinstance(par.func, ast.Name) and par.func.id in ("min", "max"):
                ok = True
            if isinstance(par, ast.Compare):
                ok = True
            if isinstance(par, ast.AugAssign):
                ok = True
            if not ok:
                return False
    return True


def carried_channels(repo: Repo, eff: Effects, f: Func, loop: ast.For, cls: Optional[Cls],
                     induction_extra: Set[str] = frozenset(), fit_path: bool = False) -> Tuple[List[Tuple[str, str, int]], List[str]]:
    """Returns (channels, allowed): channels = [(name, why, line)]."""
    channels: List[Tuple[str, str, int]] = []
    allowed: List[str] = []
    body_assigned = _assigned_in(loop.body)
    induction = set(target_names(loop.target)) | set(induction_extra)
    for n in ast.walk(loop):
        if isinstance(n, ast.For) and n is not loop:
            induction |= set(target_names(n.target))
    # (i) upward exposed
    ex = _Exposed(body_assigned - set(target_names(loop.target)))
    ex.block(loop.body, set(target_names(loop.target)))
    for name, line in sorted(ex.exposed.items()):
        if _is_cursor(name, loop):
            allowed.append("position cursor `%s` (advanced by += sizes, used in slice bounds only)" % name)
        else:
            channels.append((name, "`%s` is read in an iteration before that iteration assigns it: it carries the value left by the previous row" % name, line))
    # (ii) outside objects mutated inside
    mutated: Dict[str, List[Tuple[str, int]]] = {}

    def base_name(e: ast.AST) -> Optional[str]:
        while isinstance(e, (ast.Subscript,)):
            e = e.value
        if isinstance(e, ast.Name):
            return e.id
        if is_self_attr(e):
            return "self." + e.attr
        if isinstance(e, ast.Attribute) and isinstance(e.value, (ast.Name, ast.Attribute, ast.Subscript)):
            return base_name(e.value)
        return None

    for s in loop.body:
        for n in ast.walk(s):
            if isinstance(n, (ast.FunctionDef, ast.Lambda)):
                continue
            if isinstance(n, ast.Assign):
                for t in n.targets:
                    if isinstance(t, (ast.Subscript, ast.Attribute)) and not (is_self_attr(t)):
                        b = base_name(t)
                        if b:
                            mutated.setdefault(b, []).append(("store", n.lineno, t))
                    elif is_self_attr(t):
                        mutated.setdefault("self." + t.attr, []).append(("rebind", n.lineno, t))
            elif isinstance(n, ast.AugAssign) and isinstance(n.target, (ast.Subscript, ast.Attribute)):
                b = base_name(n.target)
                if b:
                    mutated.setdefault(b, []).append(("augstore", n.lineno, n.target))
            elif isinstance(n, ast.Delete):
                for t in n.targets:
                    if isinstance(t, ast.Subscript):
                        b = base_name(t)
                        if b:
                            mutated.setdefault(b, []).append(("del", n.lineno, t))
            elif isinstance(n, ast.Call):
                if isinstance(n.func, ast.Attribute) and n.func.attr in MUTATING_METHODS:
                    targets = [t for t in repo.resolve_call(f, n, cls) if isinstance(t, Func)]
                    if not targets:
                        b = base_name(n.func.value)
                        if b:
                            mutated.setdefault(b, []).append((n.func.attr, n.lineno, n))
                for t in repo.resolve_call(f, n, cls):
                    if isinstance(t, Func):
                        summ = eff.summary(t, cls if (t.params and t.params[0] == "self") else None)
                        bound = repo.bind_args(t, n)
                        for mu in summ.mutations:
                            if mu.root.startswith("P:") and mu.root[2:] in bound:
                                arg = bound[mu.root[2:]]
                                b = base_name(arg)
                                if b:
                                    mutated.setdefault(b, []).append(("callee %s mutates its `%s`" % (t.name, mu.root[2:]), n.lineno, arg))
                            elif mu.root.startswith("A:"):
                                mutated.setdefault("self." + mu.root[2:], []).append(("callee %s mutates self.%s" % (t.name, mu.root[2:]), n.lineno, n))
    # a name bound inside the body to an object that lives outside it (x = shared; x = shared if c else fresh) is that object
    outside_alias: Dict[str, Set[str]] = {}
    for s_ in loop.body:
        for n in ast.walk(s_):
            if isinstance(n, ast.Assign) and len(n.targets) == 1 and isinstance(n.targets[0], ast.Name):
                cands = []
                v = n.value
                if isinstance(v, ast.Name):
                    cands = [v]
                elif isinstance(v, ast.IfExp):
                    cands = [x for x in (v.body, v.orelse) if isinstance(x, ast.Name)]
                elif isinstance(v, ast.BoolOp):
                    cands = [x for x in v.values if isinstance(x, ast.Name)]
                for cnd in cands:
                    if cnd.id not in body_assigned and cnd.id not in induction:
                        outside_alias.setdefault(n.targets[0].id, set()).add(cnd.id)
    for name in list(mutated):
        for src in outside_alias.get(name, ()):
            mutated.setdefault(src, []).extend([("through its alias `%s`: %s" % (name, k), ln, nd) for k, ln, nd in mutated[name]])
    for name, events in sorted(mutated.items()):
        if name in body_assigned or name in induction:
            continue  # created inside the iteration
        kinds = {k for k, _, _ in events}
        line = events[0][1]
        # accumulator uses
        append_only = kinds <= {"append", "extend"}
        private = induction | body_assigned
        # positions derived from the induction variable inside the iteration (block_start = i * block_size, ...)
        derived = set(induction)
        changed = True
        while changed:
            changed = False
            for st in ast.walk(loop):
                if isinstance(st, ast.Assign) and len(st.targets) == 1 and isinstance(st.targets[0], ast.Name) and st.targets[0].id not in derived \
                        and st.targets[0].id in body_assigned and ({x.id for x in ast.walk(st.value) if isinstance(x, ast.Name)} & derived):
                    derived.add(st.targets[0].id)
                    changed = True
        indexed_store = all(
            isinstance(node, ast.Subscript)
            and (k in ("store", "augstore") or k.startswith("callee "))
            and ({x.id for x in ast.walk(node.slice) if isinstance(x, ast.Name)} & (derived if not k.startswith("callee ") else private))
            and node.value is not None and (isinstance(node.value, ast.Name) or is_self_attr(node.value))
            for k, _, node in events
        )
        skip_ids = {id(x) for _, _, node in events for x in ast.walk(node) if isinstance(node, ast.Subscript)}
        reads = _reads_of(name, loop, skip_ids, induction)
        if append_only and reads <= {"len", "last", "call-arg-append", "meta"}:
            allowed.append("append-only accumulator `%s`" % name)
        elif indexed_store and not (reads - {"len", "last", "indexed", "meta"}):
            allowed.append("`%s[...]` stored at positions indexed by the induction variable" % name)
        elif name.startswith("self.") and fit_path:
            allowed.append("fitted state under construction `%s` (fit path)" % name)
        else:
            channels.append((name, "`%s` is created outside the loop and changed inside it (%s)%s: a later row can observe what an earlier row left there"
                             % (name, ", ".join(sorted(kinds)), " and read inside it" if reads - {"len", "last"} else ""), line))
    return channels, allowed


def _reads_of(name: str, loop: ast.For, skip_ids: Set[int] = frozenset(), induction: Set[str] = frozenset()) -> Set[str]:
    """How is `name` read inside the loop: 'len', 'last' (name[-1]), or 'other'."""
    parents: Dict[int, ast.AST] = {}
    for n in ast.walk(loop):
        for c in ast.iter_child_nodes(n):
            parents[id(c)] = n
    out: Set[str] = set()
    header = {id(x) for x in ast.walk(loop.iter)}
    for n in ast.walk(loop):
        if id(n) in header or id(n) in skip_ids:
            continue  # the iteration space is evaluated once, before the first row; indexed events are not reads
        hit = (isinstance(n, ast.Name) and n.id == name) or (name.startswith("self.") and is_self_attr(n, name[5:]))
        if not hit or not isinstance(getattr(n, "ctx", None), ast.Load):
            continue
        p = parents.get(id(n))
        if isinstance(p, ast.Call) and isinstance(p.func, ast.Name) and p.func.id == "len" and p.args and p.args[0] is n:
            out.add("len")
        elif isinstance(p, ast.Subscript) and p.value is n and isinstance(p.slice, ast.UnaryOp) and isinstance(p.ctx, ast.Load):
            out.add("last")
        elif isinstance(p, ast.Attribute) and p.value is n and p.attr in ("append", "extend") and isinstance(parents.get(id(p)), ast.Call):
            continue  # the mutation itself
        elif isinstance(p, ast.Subscript) and p.value is n and isinstance(p.ctx, (ast.Store, ast.Del)):
            continue
        elif isinstance(p, ast.Attribute) and p.value is n and p.attr in ("shape", "size", "ndim", "dtype"):
            out.add("meta")  # the shape of an output buffer does not depend on what rows wrote into it
        elif isinstance(p, ast.Subscript) and p.value is n and isinstance(p.ctx, ast.Load) \
                and ({x.id for x in ast.walk(p.slice) if isinstance(x, ast.Name)} & set(induction)):
            out.add("indexed")  # reads the position this iteration owns
        elif isinstance(p, ast.Subscript) and p.value is n and isinstance(parents.get(id(p)), ast.AugAssign) and parents[id(p)].target is p:
            out.add("other")
        else:
            out.add("other")
    return out
