"""Static analysis of TutteInstitute/vectorizers for the /verif properties.

Nothing under /repo is ever imported or executed by this package: sources are
read as text and parsed with :mod:`ast`.
"""
