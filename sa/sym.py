"""Engine F - small symbolic arithmetic: integer polynomials over named atoms.

A polynomial is ``{monomial: coeff}`` with monomial a sorted tuple of atom
strings (the empty tuple is the constant term).  Atoms are names, attribute
chains, subscripts and calls, kept uninterpreted (``min``/``max``/``len``/``//``
included) and identified by their normalised source text.  Nothing is ever
evaluated on program values.
"""
from __future__ import annotations

import ast
import copy
from typing import Dict, Mapping, Optional, Tuple

Poly = Dict[Tuple[str, ...], int]


def _atom(e: ast.AST) -> Poly:
    return {(" ".join(ast.unparse(e).split()),): 1}


def _add(a: Poly, b: Poly, sign: int = 1) -> Poly:
    out = dict(a)
    for m, c in b.items():
        out[m] = out.get(m, 0) + sign * c
        if out[m] == 0:
            del out[m]
    return out


def _mul(a: Poly, b: Poly) -> Poly:
    out: Poly = {}
    for m1, c1 in a.items():
        for m2, c2 in b.items():
            m = tuple(sorted(m1 + m2))
            out[m] = out.get(m, 0) + c1 * c2
            if out[m] == 0:
                del out[m]
    return out


class _Sub(ast.NodeTransformer):
    def __init__(self, env):
        self.env = env

    def generic_visit(self, node):
        key = None
        if isinstance(node, (ast.Name, ast.Attribute, ast.Subscript, ast.Call)):
            try:
                key = " ".join(ast.unparse(node).split())
            except Exception:
                key = None
        if key is not None and key in self.env:
            return copy.deepcopy(self.env[key])
        return super().generic_visit(node)


def substitute(e: ast.AST, env: Mapping[str, ast.AST], rounds: int = 4) -> ast.AST:
    cur = copy.deepcopy(e)
    for _ in range(rounds):
        before = ast.dump(cur)
        cur = _Sub(env).visit(cur)
        if ast.dump(cur) == before:
            break
    return cur


def poly(e: ast.AST, env: Optional[Mapping[str, ast.AST]] = None) -> Poly:
    if env:
        e = substitute(e, env)
    return _poly(e)


def _poly(e: ast.AST) -> Poly:
    if isinstance(e, ast.Constant) and isinstance(e.value, bool):
        return _atom(e)
    if isinstance(e, ast.Constant) and isinstance(e.value, int):
        return {(): e.value} if e.value != 0 else {}
    if isinstance(e, ast.UnaryOp) and isinstance(e.op, ast.USub):
        return _add({}, _poly(e.operand), -1)
    if isinstance(e, ast.UnaryOp) and isinstance(e.op, ast.UAdd):
        return _poly(e.operand)
    if isinstance(e, ast.BinOp):
        if isinstance(e.op, ast.Add):
            return _add(_poly(e.left), _poly(e.right))
        if isinstance(e.op, ast.Sub):
            return _add(_poly(e.left), _poly(e.right), -1)
        if isinstance(e.op, ast.Mult):
            return _mul(_poly(e.left), _poly(e.right))
        if isinstance(e.op, ast.LShift) and isinstance(e.right, ast.Constant) and isinstance(e.right.value, int):
            return _mul(_poly(e.left), {(): 1 << e.right.value})
        # normalise the arguments of uninterpreted heads
        return _atom(e)
    if isinstance(e, ast.Call) and isinstance(e.func, ast.Name) and e.func.id in ("int", "np.int64", "np.int32") and len(e.args) == 1:
        return _poly(e.args[0])
    if isinstance(e, ast.Call) and isinstance(e.func, ast.Attribute) and e.func.attr in ("int32", "int64", "intp") and len(e.args) == 1:
        return _poly(e.args[0])
    return _atom(e)


def sub(a: Poly, b: Poly) -> Poly:
    return _add(a, b, -1)


def const_of(p: Poly) -> Optional[int]:
    """The integer if p is a constant polynomial, else None."""
    if not p:
        return 0
    if set(p) == {()}:
        return p[()]
    return None


def equal(a: ast.AST, b: ast.AST, env: Optional[Mapping[str, ast.AST]] = None) -> bool:
    return poly(a, env) == poly(b, env)


def coeff_of(p: Poly, atom: str) -> Tuple[Optional[int], Poly]:
    """Split p = k*atom + rest where rest does not mention atom; k None if atom
    occurs non-linearly or inside another atom's text."""
    k = 0
    rest: Poly = {}
    for m, c in p.items():
        if m == (atom,):
            k += c
        elif atom in m:
            return None, p
        else:
            rest[m] = c
    for m in rest:
        for a in m:
            # the atom hidden inside an uninterpreted term, e.g. f(atom)
            import re

            if re.search(r"(?<![\w.])%s(?![\w(])" % re.escape(atom), a):
                return None, p
    return k, rest


def show(p: Poly) -> str:
    if not p:
        return "0"
    parts = []
    for m, c in sorted(p.items()):
        if not m:
            parts.append(str(c))
        else:
            parts.append(("%d*" % c if c != 1 else "") + "*".join(m))
    return " + ".join(parts)
