"""C04 - co-occurrence results independent of threads, buffer sizes, data volume."""
from __future__ import annotations

import ast
from typing import Dict, List, Optional, Set, Tuple

from .. import sym
from ..cfg import target_names
from ..model import AnalysisError, Cls, Func, Repo, is_self_attr, short, walk_no_nested
from ..report import RuleResult
from .common import ancestors, exported_estimators, norm, parents_map, enclosing_stmt, single_defs

COO_FILE = "vectorizers/coo_utils.py"
BASE_FILE = "vectorizers/base_cooccurrence_vectorizer.py"


def reallocating_functions(repo: Repo) -> List[Tuple[Func, str]]:
    """Functions that may return a *new* object in place of one of their parameters:
    the parameter is re-bound in the body and returned."""
    out = []
    for f in repo.all_funcs():
        if f.cls is not None or not f.params:
            continue
        p = f.params[0]
        rebound = any(
            isinstance(n, ast.Assign) and any(isinstance(t, ast.Name) and t.id == p for t in n.targets)
            for n in walk_no_nested(f.node)
        )
        returns = [n for n in walk_no_nested(f.node) if isinstance(n, ast.Return) and n.value is not None]
        if rebound and returns and all(isinstance(r.value, ast.Name) and r.value.id == p for r in returns):
            # it must also write through the parameter (an accumulator), otherwise it is a plain converter
            writes = any(
                isinstance(n, (ast.Assign, ast.AugAssign))
                and any(
                    isinstance(t, ast.Subscript) and p in {x.id for x in ast.walk(t.value) if isinstance(x, ast.Name)}
                    for t in (n.targets if isinstance(n, ast.Assign) else [n.target])
                )
                for n in walk_no_nested(f.node)
            )
            if writes:
                out.append((f, p))
    return out


def r4_1(repo: Repo, rule: str = "R4.1") -> RuleResult:
    rr = RuleResult(rule, "the (possibly reallocated) accumulator returned by an append is re-bound to the l-value it was called on", floor=4)
    accs = reallocating_functions(repo)
    names = {f.name for f, _ in accs}
    if "coo_append" not in names:
        raise AnalysisError("%s: coo_append no longer has the reallocate-and-return summary (anchors moved)" % rule)
    rr.facts["reallocating_functions"] = sorted(f.key for f, _ in accs)
    for caller in repo.all_funcs():
        pm = None
        for call in repo.calls_in(caller):
            tgt = [t for t in repo.resolve_call(caller, call) if isinstance(t, Func)]
            hit = [t for t in tgt if any(t is f for f, _ in accs)]
            if not hit:
                continue
            acc_param = [p_ for f_, p_ in accs if f_ is hit[0]][0]
            bound0 = repo.bind_args(hit[0], call).get(acc_param)
            if bound0 is None:
                continue
            pm = pm or parents_map(caller.node)
            st = enclosing_stmt(call, pm)
            arg0 = norm(bound0)
            construct = "%s(%s, ...)" % (hit[0].name, arg0)
            if isinstance(st, ast.Assign) and st.value is call and len(st.targets) == 1 and norm(st.targets[0]) == arg0:
                # a local that stands in for a slot of a container of accumulators (`acc = accs[i]`) must be written
                # back to that slot in the block that loaded it - i.e. for every i, not only for the last one
                lost = None
                if isinstance(bound0, ast.Name):
                    for ld in walk_no_nested(caller.node):
                        if isinstance(ld, ast.Assign) and len(ld.targets) == 1 and isinstance(ld.targets[0], ast.Name) and ld.targets[0].id == arg0 \
                                and isinstance(ld.value, ast.Subscript) and ld.lineno < call.lineno:
                            holder = pm.get(id(ld))
                            blk = next((b for fld in ("body", "orelse", "finalbody") for b in [getattr(holder, fld, None)]
                                        if isinstance(b, list) and any(x is ld for x in b)), None)
                            slot = norm(ld.value)
                            back = [x for x in (blk or []) if isinstance(x, ast.Assign) and x.lineno > call.lineno and norm(x.targets[0]) == slot
                                    and norm(x.value) == arg0]
                            if not back:
                                lost = (slot, ld.lineno)
                if lost:
                    rr.bad(caller, construct,
                           "`%s` stands in for `%s` (loaded at line %d) and is re-bound by %s, but it is not stored back to `%s` in the block that "
                           "loaded it: after a buffer growth the container keeps the old arrays for every slot but the last one written back"
                           % (arg0, lost[0], lost[1], hit[0].name, lost[0]), call.lineno)
                    continue
                rr.ok(caller, construct, "`%s = %s(%s, ...)`" % (arg0, hit[0].name, arg0), call.lineno)
            elif isinstance(st, ast.Return) and st.value is call:
                rr.ok(caller, construct, "returned to the caller", call.lineno)
            else:
                rr.bad(caller, construct,
                       "result of %s is not re-bound to `%s`: after the first buffer growth the caller keeps the old, shorter "
                       "arrays while the shared cursor advances - events are lost and memory beyond the arrays is written"
                       % (hit[0].name, arg0), call.lineno)
    return rr


def build_kernels(repo: Repo) -> List[Func]:
    app = repo.func(COO_FILE, "coo_append")
    out = []
    for f in repo.all_funcs():
        if f.is_njit and f is not app and any(app in repo.resolve_call(f, c) for c in repo.calls_in(f)):
            out.append(f)
    return out


def r4_2(repo: Repo) -> RuleResult:
    """Name-independent: the roles are read off the tuple handed to coo_append, (row, col, val, key)."""
    rr = RuleResult("R4.2", "the de-duplication key is injective in (row, column)", floor=4)
    app = repo.func(COO_FILE, "coo_append")
    for f in build_kernels(repo):
        calls = [c for c in repo.calls_in(f) if app in repo.resolve_call(f, c)]
        tup = repo.bind_args(app, calls[0]).get(app.params[1]) if calls else None
        if not (isinstance(tup, ast.Tuple) and len(tup.elts) == 4):
            raise AnalysisError("R4.2: %s does not append a (row, col, val, key) tuple" % f.key)
        sd = single_defs(f)

        def expand(e, keep=()):
            cur = e
            for _ in range(4):
                names = {n.id for n in ast.walk(cur) if isinstance(n, ast.Name) and n.id in sd and n.id not in keep}
                if not names:
                    break
                cur = sym.substitute(cur, {k: sd[k] for k in names})
            return cur

        row_e, col_e, key_e = tup.elts[0], tup.elts[1], tup.elts[3]
        # keep the row / col *names* as atoms when expanding the key, so that key = col + M * row can be read off
        row_atom = norm(row_e)
        col_atom = norm(col_e)
        if not (isinstance(row_e, ast.Name) and isinstance(col_e, ast.Name)):
            raise AnalysisError("R4.2: row / col handed to coo_append are not plain locals in %s" % f.key)
        pkey = sym.poly(expand(key_e, keep=(row_atom, col_atom)))
        k_col, rest = sym.coeff_of(pkey, col_atom)
        problems = []
        m_poly = None
        if k_col != 1:
            problems.append("key `%s` does not contain the column exactly once" % norm(expand(key_e, keep=(row_atom, col_atom))))
        else:
            # rest must be M * row: every monomial contains row exactly once
            m_poly = {}
            for mono, c in rest.items():
                if list(mono).count(row_atom) != 1:
                    problems.append("key is not of the form col + M * row")
                    m_poly = None
                    break
                mm = tuple(x for x in mono if x != row_atom)
                m_poly[mm] = m_poly.get(mm, 0) + c
        # column: context + i * n_unique_tokens with `context` / `i` loop variables
        pcol = sym.poly(expand(col_e))
        loopvars = set()
        for n in walk_no_nested(f.node):
            if isinstance(n, ast.For):
                loopvars |= set(target_names(n.target))
        singles = [(m, c) for m, c in pcol.items() if len(m) == 1]
        pairs = [(m, c) for m, c in pcol.items() if len(m) == 2]
        stride = None
        if len(pcol) == 2 and len(singles) == 1 and len(pairs) == 1 and singles[0][1] == 1 and pairs[0][1] == 1 \
                and singles[0][0][0] in loopvars and (set(pairs[0][0]) & loopvars):
            stride = [x for x in pairs[0][0] if x not in loopvars]
            stride = stride[0] if len(stride) == 1 else None
        if stride is None:
            problems.append("column `%s` is not <context> + <window index> * <vocabulary size>" % norm(expand(col_e)))
        c = None
        if m_poly is not None and stride is not None:
            # M - n_windows * stride must be a constant >= 0, with n_windows = number of windows = <array>.shape[0]
            m_exp = {}
            for mono, cc in m_poly.items():
                m_exp[mono] = cc
            # expand names inside M
            m_txt = sym.show(m_poly)
            m_full = {}
            for mono, cc in m_poly.items():
                term = {(): cc}
                for atom in mono:
                    term = sym._mul(term, sym.poly(expand(ast.parse(atom, mode="eval").body)))
                m_full = sym._add(m_full, term)
            # the number of windows is whatever multiplies the stride in M
            for mono, cc in m_full.items():
                if stride in mono and len(mono) == 2 and cc == 1:
                    other = [x for x in mono if x != stride][0]
                    diff = sym.sub(m_full, {mono: 1})
                    c = sym.const_of(diff)
                    # `other` must really be the number of windows: the length of the per-window array
                    if not other.endswith(".shape[0]") and not other.startswith("len("):
                        c = None
                    break
            if c is None or c < 0:
                problems.append("key multiplier `%s` is not <number of windows> * %s + c with c >= 0: two cells can share a key" % (m_txt, stride))
        if problems:
            rr.bad(f, "key/col/array_mul", "; ".join(problems), calls[0].lineno)
        else:
            rr.ok(f, "key/col/array_mul", "key = col + (n_windows*%s + %d) * row, col = context + i*%s" % (stride, c, stride), calls[0].lineno)
    return rr


def _callers_not_regenerating(repo: Repo, build: Func, attr: str, seq_param: str, comp: ast.AST) -> Optional[List[str]]:
    """Callers of `build` that do not assign self.<attr> = self._generate_chunk_boundaries(<the sequences they pass>)
    before the call (on every path, or under the very test that guards the comprehension using it)."""
    from ..cfg import CFG

    pm_b = parents_map(build.node)
    comp_guards = {norm(a.test) for a in ancestors(comp, pm_b) if isinstance(a, ast.If)}
    callers = []
    for f in repo.all_funcs():
        for c in repo.calls_in(f):
            if is_self_attr(c.func, build.name):
                callers.append((f, c))
    if not callers:
        return None
    lacking = []
    for f, call in callers:
        bound = repo.bind_args(build, call)
        passed = bound.get(seq_param)
        g = CFG(f.node)
        pm = parents_map(f.node)
        target = g.node_for(enclosing_stmt(call, pm))
        good_nodes = []
        for n in g.nodes:
            if n.kind == "stmt" and isinstance(n.ast, ast.Assign) and any(is_self_attr(t, attr) for t in n.ast.targets):
                v = n.ast.value
                if isinstance(v, ast.Call) and is_self_attr(v.func, "_generate_chunk_boundaries") and v.args and passed is not None \
                        and norm(v.args[0]) == norm(passed):
                    guards = {norm(a.test) for a in ancestors(n.ast, pm) if isinstance(a, ast.If)}
                    if not guards or guards <= comp_guards:
                        good_nodes.append((n.id, guards))
        ok = False
        uncond = [i for i, gs in good_nodes if not gs]
        if uncond and g.must_pass(uncond, target):
            ok = True
        elif good_nodes:
            # conditional regeneration under the comprehension's own guard: the statement must precede the call
            ok = all(g.nodes[i].ast.lineno < call.lineno for i, _ in good_nodes)
        if not ok:
            lacking.append(f.qualname)
    return sorted(set(lacking))


def r4_3(repo: Repo) -> RuleResult:
    rr = RuleResult("R4.3", "document chunks are exactly the generated boundaries and the boundaries partition [0, len(data))", floor=4)
    f = repo.func(BASE_FILE, "BaseCooccurrenceVectorizer._build_token_cooccurrence_matrix")
    n_sites = 0
    from .common import expand_locals

    for comp in [n for n in walk_no_nested(f.node) if isinstance(n, ast.ListComp)]:
        g = comp.generators[0]
        # a chunk comprehension hands a slice of one of the function's sequence parameters to a worker
        sliced = [s_ for s_ in ast.walk(comp.elt) if isinstance(s_, ast.Subscript) and isinstance(s_.slice, ast.Slice)
                  and isinstance(s_.value, ast.Name) and s_.value.id in f.params]
        if not sliced:
            continue
        n_sites += 1
        it = expand_locals(g.iter, f, 3)
        if is_self_attr(it):
            # boundaries kept in an attribute: fine if every caller regenerates them from the sequences it passes on
            lacking = _callers_not_regenerating(repo, f, it.attr, sliced[0].value.id, comp)
            construct = "chunk comprehension -> %s" % short(comp.elt.func if isinstance(comp.elt, ast.Call) else comp.elt, 50)
            if lacking is None:
                raise AnalysisError("R4.3: callers of %s not recognised" % f.qualname)
            if not lacking:
                rr.ok(f, construct, "boundaries stored in self.%s are regenerated by every caller from the sequences it passes" % it.attr, comp.lineno)
            else:
                rr.bad(f, construct,
                       "the chunk boundaries are read from self.%s, which %s does not regenerate from the sequences it passes to %s: "
                       "boundaries computed for another corpus (the training data) drop or misassign documents when transform is given "
                       "more or fewer of them" % (it.attr, ", ".join(lacking), f.name), comp.lineno)
            continue
        if not (isinstance(it, ast.Call) and is_self_attr(it.func, "_generate_chunk_boundaries")):
            rr.bad(f, "chunk comprehension -> %s" % short(comp.elt.func if isinstance(comp.elt, ast.Call) else comp.elt, 50),
                   "the chunk boundaries are `%s`, not generated from `%s`, the sequences being sliced" % (norm(g.iter), norm(sliced[0].value)), comp.lineno)
            continue
        seq = norm(it.args[0]) if it.args else None
        tgt = [norm(x) for x in g.target.elts] if isinstance(g.target, ast.Tuple) else []
        slices = [s for s in ast.walk(comp.elt) if isinstance(s, ast.Subscript) and isinstance(s.slice, ast.Slice)]
        construct = "chunk comprehension -> %s" % short(comp.elt.func if isinstance(comp.elt, ast.Call) else comp.elt, 50)
        ok = (
            len(tgt) == 2
            and len(slices) == 1
            and norm(slices[0].value) == seq
            and slices[0].slice.lower is not None
            and slices[0].slice.upper is not None
            and slices[0].slice.step is None
            and [norm(slices[0].slice.lower), norm(slices[0].slice.upper)] == tgt
        )
        if ok:
            rr.ok(f, construct, "slice %s[%s:%s] uses the generated pair in order" % (seq, tgt[0], tgt[1]), comp.lineno)
        else:
            rr.bad(f, construct, "the slice handed to the worker is not `%s[start:end]` of the generated boundaries" % seq, comp.lineno)
    if n_sites < 2:
        raise AnalysisError("R4.3: expected the build and the EM chunk comprehension, found %d" % n_sites)
    # boundary generators (base + overrides); names are derived, not assumed
    gens = [g for g in repo.all_funcs() if g.name == "_generate_chunk_boundaries"]
    for g in gens:
        data = g.params[1]
        problems = []
        rets = [n for n in walk_no_nested(g.node) if isinstance(n, ast.Return) and isinstance(n.value, ast.Name)]
        if len(rets) != 1:
            raise AnalysisError("R4.3: %s does not return its chunk list by name" % g.key)
        lst = rets[0].value.id
        appends = [n for n in ast.walk(g.node) if isinstance(n, ast.Call) and isinstance(n.func, ast.Attribute)
                   and n.func.attr == "append" and norm(n.func.value) == lst]
        tuples = [a.args[0] for a in appends if a.args and isinstance(a.args[0], ast.Tuple) and len(a.args[0].elts) == 2]
        if len(tuples) != len(appends) or not tuples or not all(isinstance(t.elts[0], ast.Name) for t in tuples):
            raise AnalysisError("R4.3: chunk pairs not recognised in %s" % g.key)
        cursors = {t.elts[0].id for t in tuples}
        if len(cursors) != 1:
            problems.append("chunks start at different cursors %s" % sorted(cursors))
        cur = sorted(cursors)[0]
        assigns = [n for n in walk_no_nested(g.node) if isinstance(n, ast.Assign) and any(
            isinstance(t, ast.Name) and t.id == cur for t in n.targets)]
        loops = [n for n in g.node.body if isinstance(n, ast.For)]
        if len(loops) != 1:
            raise AnalysisError("R4.3: %s no longer has a single boundary loop" % g.key)
        lp = loops[0]
        init = [a for a in assigns if a.lineno < lp.lineno]
        if len(init) != 1 or norm(init[0].value) != "0":
            problems.append("first chunk does not start at 0")
        pm = parents_map(g.node)
        in_loop = [a for a in appends if any(a is x for x in ast.walk(lp))]
        after = [a for a in appends if a not in in_loop]
        for a in in_loop:
            tup = a.args[0]
            st = enclosing_stmt(a, pm)
            parent = pm[id(st)]
            body = None
            for fld in ("body", "orelse"):
                if any(st is s2 for s2 in getattr(parent, fld, [])):
                    body = getattr(parent, fld)
            idx = [i for i, s2 in enumerate(body) if s2 is st][0]
            follow = [s2 for s2 in body[idx + 1:] if isinstance(s2, ast.Assign) and any(
                isinstance(t, ast.Name) and t.id == cur for t in s2.targets)]
            if not follow or norm(follow[0].value) != norm(tup.elts[1]):
                problems.append("the cursor is not advanced to the end of the chunk just emitted")
        if len(after) != 1 or norm(after[0].args[0].elts[1]) != "len(%s)" % data:
            problems.append("final chunk does not run from the cursor to len(%s)" % data)
        loop_assigns = [a for a in assigns if any(a is x for x in ast.walk(lp))]
        if len(assigns) != len(init) + len(loop_assigns) or len(loop_assigns) != len(in_loop):
            problems.append("unexpected extra assignment to the cursor `%s`" % cur)
        if problems:
            rr.bad(g, "chunk boundaries", "; ".join(problems), g.node.lineno)
        else:
            rr.ok(g, "chunk boundaries", "pairs (prev_end, end) chained from 0 to len(%s): a partition" % data, g.node.lineno)
    return rr


# --------------------------------------------------------------------------- R4.4 typestate
def _strip(tok: str) -> str:
    return tok.split("@", 1)[0]


def _has(written: Set[str], attr: str, conds) -> bool:
    """attr is definitely written, or written under a condition that is among the active ones."""
    return attr in written or any("%s@%s" % (attr, c) in written for c in conds)


def _satisfied(need: str, written: Set[str], conds=()) -> bool:
    """A (possibly conditional) need `A@c1|c2` is met by an unconditional write of A or by a write of A under one of
    its own conditions / the conditions active at the point of use."""
    attr = _strip(need)
    own = need.split("@", 1)[1].split("|") if "@" in need else []
    return _has(written, attr, list(own) + list(conds))


class _AttrFlow:
    """Order-sensitive summary of a method: attributes it needs (reads before it has definitely written them) and
    attributes it definitely writes.  Writes and needs under a plain `if T:` are remembered with their condition
    (`attr@T`), so an attribute initialised under `if T` and used under the same `if T` is not reported."""

    def __init__(self, repo: Repo, c: Cls):
        self.repo = repo
        self.c = c
        self.cache: Dict[Func, Tuple[Set[str], Set[str]]] = {}
        self.stack: List[Func] = []

    def summary(self, f: Func) -> Tuple[Set[str], Set[str]]:
        if f in self.cache:
            return self.cache[f]
        if f in self.stack:
            return set(), set()
        self.stack.append(f)
        needs: Set[str] = set()
        written = self._block(f, f.node.body, set(), needs, ())
        self.stack.pop()
        self.cache[f] = (needs, written)
        return needs, written

    def _need(self, needs: Set[str], attr: str, conds) -> None:
        needs.add(attr if not conds else "%s@%s" % (attr, "|".join(conds)))

    def _expr(self, f: Func, e: ast.AST, written: Set[str], needs: Set[str], conds=()) -> Set[str]:
        """Process reads and self-method calls inside an expression, in source order."""
        new_writes: Set[str] = set()
        nodes = [n for n in walk_no_nested(e)]
        nodes.sort(key=lambda n: (getattr(n, "lineno", 0), getattr(n, "col_offset", 0)))
        call_funcs = {id(n.func) for n in nodes if isinstance(n, ast.Call)}
        for n in nodes:
            if isinstance(n, ast.Call):
                tgt = None
                fn = n.func
                if isinstance(fn, ast.Call) and fn.args:  # dask.delayed(self.m)(...)
                    fn = fn.args[0]
                if is_self_attr(fn):
                    tgt = self.repo.resolve_method(self.c, fn.attr)
                if tgt is not None:
                    nd, wr = self.summary(tgt)
                    for need in nd:
                        if not _satisfied(need, written | new_writes, conds):
                            own = need.split("@", 1)[1].split("|") if "@" in need else []
                            self._need(needs, _strip(need), tuple(conds) + tuple(own))
                    new_writes |= wr
            elif is_self_attr(n) and isinstance(n.ctx, ast.Load):
                if id(n) in call_funcs and self.repo.resolve_method(self.c, n.attr) is not None:
                    continue
                if self.repo.resolve_method(self.c, n.attr) is not None:
                    continue  # bound method reference
                if not _has(written | new_writes, n.attr, conds):
                    self._need(needs, n.attr, conds)
        return new_writes

    def _block(self, f: Func, stmts, written: Set[str], needs: Set[str], conds=()) -> Set[str]:
        written = set(written)
        for s in stmts:
            if isinstance(s, ast.If):
                written |= self._expr(f, s.test, written, needs, conds)
                t = norm(s.test)
                a = self._block(f, s.body, written, needs, tuple(conds) + (t,))
                b = self._block(f, s.orelse, written, needs, tuple(conds) + ("not " + t,))
                # a branch that always raises/returns does not constrain the join
                a_term = bool(s.body) and isinstance(s.body[-1], (ast.Raise, ast.Return))
                b_term = bool(s.orelse) and isinstance(s.orelse[-1], (ast.Raise, ast.Return))
                if a_term and not b_term:
                    written = b
                elif b_term and not a_term:
                    written = a
                else:
                    both = a & b
                    cond_w = {"%s@%s" % (x, t) for x in a - both if "@" not in x} | {"%s@not %s" % (x, t) for x in b - both if "@" not in x}
                    written = both | cond_w
            elif isinstance(s, (ast.For, ast.While)):
                hdr = s.iter if isinstance(s, ast.For) else s.test
                written |= self._expr(f, hdr, written, needs, conds)
                self._block(f, s.body, written, needs, conds)  # zero-trip: writes not definite
                self._block(f, s.orelse, written, needs, conds)
            elif isinstance(s, ast.Try):
                w = self._block(f, s.body, written, needs, conds)
                for h in s.handlers:
                    self._block(f, h.body, written, needs, conds)
                self._block(f, s.orelse, w, needs, conds)
                written |= self._block(f, s.finalbody, written, needs, conds) - written
            elif isinstance(s, ast.With):
                for it in s.items:
                    written |= self._expr(f, it.context_expr, written, needs, conds)
                written = self._block(f, s.body, written, needs, conds)
            elif isinstance(s, (ast.FunctionDef, ast.ClassDef)):
                continue
            else:
                targets = []
                value = None
                if isinstance(s, ast.Assign):
                    targets, value = s.targets, s.value
                elif isinstance(s, ast.AugAssign):
                    targets, value = [s.target], s.value
                    if is_self_attr(s.target) and not _has(written, s.target.attr, conds):
                        self._need(needs, s.target.attr, conds)
                elif isinstance(s, ast.AnnAssign):
                    targets, value = [s.target], s.value
                if value is not None:
                    written |= self._expr(f, value, written, needs, conds)
                    for t_ in targets:
                        for e in (t_.elts if isinstance(t_, (ast.Tuple, ast.List)) else [t_]):
                            if is_self_attr(e):
                                written.add(e.attr)
                            else:
                                # self.x[...] = v / self.x.y = v read self.x
                                written |= self._expr(f, e, written, needs, conds)
                else:
                    written |= self._expr(f, s, written, needs, conds)
        return written


def r4_4(repo: Repo) -> RuleResult:
    rr = RuleResult("R4.4", "fit-pipeline typestate: every private attribute a helper reads was written by __init__ or an earlier helper", floor=8)
    base = repo.cls(BASE_FILE, "BaseCooccurrenceVectorizer")
    classes = [c for c in exported_estimators(repo) if base in repo.mro(c) and c is not base]
    if len(classes) < 4:
        raise AnalysisError("R4.4: expected the four co-occurrence vectorizers, found %s" % [c.name for c in classes])
    for c in classes:
        flow = _AttrFlow(repo, c)
        init = repo.resolve_method(c, "__init__")
        _, init_w = flow.summary(init)
        # attributes written somewhere in __init__ chains (even conditionally) count as initialised
        for x in repo.mro(c):
            if isinstance(x, Cls) and "__init__" in x.methods:
                for n in walk_no_nested(x.methods["__init__"].node):
                    if is_self_attr(n) and isinstance(n.ctx, ast.Store):
                        init_w.add(n.attr)
        fitted: Set[str] = set()
        for entry in ("fit", "fit_transform"):
            m = repo.resolve_method(c, entry)
            needs, writes = flow.summary(m)
            missing = sorted({_strip(a) for a in needs if not _satisfied(a, init_w) and (_strip(a).startswith("_") or _strip(a).endswith("_"))})
            construct = "%s.%s" % (c.name, entry)
            if missing:
                rr.add(m.file, construct, "helper order", "violation",
                       "%s reads %s before any helper has written it (helper order / missing helper call)" % (entry, missing),
                       m.node.lineno)
            else:
                rr.add(m.file, construct, "helper order", "ok",
                       "%d attributes read, all written earlier (%d by __init__, %d by earlier helpers)"
                       % (len(needs | writes), len(init_w), len(writes)), m.node.lineno)
            fitted |= writes
        tr = repo.resolve_method(c, "transform")
        needs, _ = flow.summary(tr)
        missing = sorted({_strip(a) for a in needs if not _satisfied(a, init_w | fitted) and (_strip(a).startswith("_") or _strip(a).endswith("_"))})
        if missing:
            rr.add(tr.file, "%s.transform" % c.name, "fitted state", "violation",
                   "transform reads %s which neither __init__ nor fit writes" % missing, tr.node.lineno)
        else:
            rr.add(tr.file, "%s.transform" % c.name, "fitted state", "ok",
                   "every attribute transform needs is written by __init__ or fit", tr.node.lineno)
    return rr


# --------------------------------------------------------------------------- R4.5
import copy as _copy


class _Rename(ast.NodeTransformer):
    def __init__(self, mapping):
        self.mapping = mapping

    def visit_Name(self, node):
        if node.id in self.mapping:
            return ast.copy_location(ast.Name(id=self.mapping[node.id], ctx=node.ctx), node)
        return node

    def visit_Attribute(self, node):
        self.generic_visit(node)
        if node.attr in self.mapping:
            node.attr = self.mapping[node.attr]
        return node


def _norm_block(stmts, mapping) -> str:
    return "\n".join(norm(_Rename(mapping).visit(_copy.deepcopy(s))) for s in stmts)


def r4_5(repo: Repo) -> RuleResult:
    rr = RuleResult("R4.5", "the hand-duplicated blocks of the accumulator (flush triggers, merge steps, buffer copies) agree with each other", floor=3)
    # (a) coo_append: both flush triggers run the same sum / merge / grow sequence
    f = repo.func(COO_FILE, "coo_append")
    ifs = [n for n in f.node.body if isinstance(n, ast.If)]
    if len(ifs) != 2:
        raise AnalysisError("R4.5: coo_append no longer has its two flush triggers")
    a, b = (_norm_block(i.body, {}) for i in ifs)
    if a == b:
        rr.ok(f, "flush triggers", "both triggers run: sum duplicates -> merge all (when the tail is short) -> grow (when >= 95% full)", ifs[0].lineno)
    else:
        rr.bad(f, "flush triggers", "the two flush triggers (sort limit reached / buffer full) no longer run the same sum-merge-grow sequence: "
               "events can be dropped or the buffer not grown on one of them", ifs[1].lineno)
    # the buffer-full trigger must fire one slot before the end (the append writes at ind, then increments)
    t = norm(ifs[1].test)
    from .common import rel_of

    if rel_of(ifs[1].test) in (("eq", frozenset(("coo.ind[0]", "coo.key.shape[0] - 1"))), ("le", "coo.key.shape[0] - 1", "coo.ind[0]")):
        rr.ok(f, "buffer-full trigger", "`%s`" % t, ifs[1].lineno)
    else:
        rr.bad(f, "buffer-full trigger", "buffer-full test is `%s`, not `coo.ind[0] == coo.key.shape[0] - 1`: the next append can write past the end" % t, ifs[1].lineno)
    # (b) merge_sum_duplicates: the three accumulate-or-advance blocks are the same
    f = repo.func(COO_FILE, "merge_sum_duplicates")
    blocks = [n for n in ast.walk(f.node) if isinstance(n, ast.If) and isinstance(n.test, ast.Compare) and isinstance(n.test.ops[0], ast.Eq)
              and isinstance(n.test.left, ast.Subscript) and isinstance(n.test.comparators[0], ast.Subscript)
              and len(n.body) == 1 and isinstance(n.body[0], (ast.AugAssign, ast.Assign))
              and isinstance(n.body[0].target if isinstance(n.body[0], ast.AugAssign) else n.body[0].targets[0], ast.Subscript)
              and n.orelse and isinstance(n.orelse[0], ast.AugAssign) and isinstance(n.orelse[0].target, ast.Name)]
    if len(blocks) != 3:
        raise AnalysisError("R4.5: expected 3 accumulate-or-advance blocks in merge_sum_duplicates, found %d" % len(blocks))
    forms = {norm(x) for x in blocks}
    if len(forms) == 1:
        rr.ok(f, "accumulate-or-advance x3", "the three copies (merge loop, left tail, right tail) are identical", blocks[0].lineno)
    else:
        rr.bad(f, "accumulate-or-advance x3", "the three copies of the accumulate-or-advance step differ: an entry is summed into / written to the wrong slot on one of the paths", blocks[0].lineno)
    # (c) coo_increase_mem: the array copies follow one pattern and the tuple is rebuilt in field order
    f = repo.func(COO_FILE, "coo_increase_mem")
    param = f.params[0]
    groups = []
    cur = None
    for st in f.node.body:
        if isinstance(st, ast.Assign) and isinstance(st.value, ast.Attribute) and norm(st.value.value) == param and isinstance(st.targets[0], ast.Name):
            cur = [st]
            groups.append(cur)
        elif cur is not None and isinstance(st, ast.Assign):
            cur.append(st)
    pats = set()
    new_of_field = {}
    for g in groups:
        field = g[0].value.attr
        tmp = g[0].targets[0].id
        zeros = [x for x in g if isinstance(x.value, ast.Call) and norm(x.value.func) == "np.zeros" and isinstance(x.targets[0], ast.Name)]
        if not zeros:
            raise AnalysisError("R4.5: copy block for %s.%s not recognised" % (param, field))
        nm = zeros[0].targets[0].id
        new_of_field[field] = nm
        sizes = [x.targets[0].id for x in g if isinstance(x.targets[0], ast.Name) and x is not zeros[0] and x is not g[0]]
        mapping = {nm: "NEW", tmp: "TEMP"}
        for z in sizes:
            mapping[z] = "SIZE"
        copies = [x for x in g if isinstance(x.targets[0], ast.Subscript)]
        pats.add(_norm_block(copies, mapping))
        if len(copies) != 1:
            pats.add("no single copy statement for %s" % field)
    ctor = [c for c in repo.calls_in(f) if norm(c.func) == "CooArray"]
    fields = None
    for n in repo.module(COO_FILE).tree.body:
        if isinstance(n, ast.Assign) and norm(n.targets[0]) == "CooArray":
            fields = [e.value for e in n.value.args[1].elts]
    order_ok = bool(ctor) and fields is not None and len(ctor[0].args) == len(fields) and all(
        norm(a) == new_of_field.get(fld, "%s.%s" % (param, fld)) for a, fld in zip(ctor[0].args, fields)
    )
    if len(pats) == 1 and order_ok and len(groups) >= 4:
        rr.ok(f, "buffer copies", "%d buffers copied with one pattern; CooArray rebuilt in field order %s" % (len(groups), fields), f.node.lineno)
    else:
        rr.bad(f, "buffer copies", "the buffer copies do not follow one pattern / the CooArray is not rebuilt with each field's own new buffer in field order: %s"
               % sorted(p[:60] for p in pats), f.node.lineno)
    return rr


# --------------------------------------------------------------------------- R4.6
_WIDE = {"numpy.float64", "numpy.int64", "numpy.double", "numpy.longlong", "numpy.uint64", "float", "int", "numpy.intp"}


def r4_6(repo: Repo) -> RuleResult:
    rr = RuleResult("R4.6", "cell keys and coordinates are never staged in a container too narrow to hold them exactly", floor=8)
    m = repo.module(COO_FILE)
    for f in m.all_funcs:
        # dtype of locally created arrays
        dtypes = {}
        for n in walk_no_nested(f.node):
            if isinstance(n, ast.Assign) and isinstance(n.targets[0], ast.Name) and isinstance(n.value, ast.Call):
                canon = repo.canonical(f.module, n.value.func)
                if canon in ("numpy.zeros", "numpy.empty", "numpy.ones", "numpy.full", "numpy.zeros_like", "numpy.empty_like"):
                    dt = None
                    for k in n.value.keywords:
                        if k.arg == "dtype":
                            dt = repo.canonical(f.module, k.value) or norm(k.value)
                    if dt is None and len(n.value.args) >= 2 and canon in ("numpy.zeros", "numpy.empty", "numpy.ones"):
                        dt = repo.canonical(f.module, n.value.args[1]) or norm(n.value.args[1])
                    dtypes[n.targets[0].id] = dt or "numpy.float64"
        for n in walk_no_nested(f.node):
            if not (isinstance(n, ast.Assign) and isinstance(n.targets[0], ast.Subscript) and isinstance(n.targets[0].value, ast.Name)):
                continue
            arr = n.targets[0].value.id
            if arr not in dtypes:
                continue
            fields = {x.attr for x in ast.walk(n.value) if isinstance(x, ast.Attribute) and x.attr in ("key", "row", "col")
                      and isinstance(x.value, ast.Name) and x.value.id in f.params}
            if not fields:
                continue
            dt = dtypes[arr]
            construct = "%s[...] = %s" % (arr, norm(n.value))
            need_wide = "key" in fields
            ok = dt in _WIDE or (not need_wide and dt in ("numpy.int32", "numpy.uint32"))
            if ok:
                rr.ok(f, construct, "staged in a %s buffer" % dt, n.lineno)
            else:
                rr.bad(f, construct,
                       "%s values are copied into `%s`, created with dtype %s: a %s cannot hold them exactly (float32 is exact only up to "
                       "2**24), so distinct cells compare equal / equal cells differ after the merge and events are credited to the wrong cell"
                       % ("/".join(sorted(fields)), arr, dt, dt.rsplit(".", 1)[-1]), n.lineno)
    return rr


def r4_7(repo: Repo) -> RuleResult:
    """The flush routines work on the live region [lower, upper) of the buffer; the slot at `upper` itself holds stale
    data from earlier flushes.  A decision taken from a read of coo.<array>[upper] therefore depends on the history of
    the buffer - e.g. the last run of equal keys was dropped whenever the stale key happened to equal it."""
    rr = RuleResult("R4.7", "the duplicate-summing routines never read a buffer slot at or beyond the live upper bound", floor=1)
    for name in ("coo_sum_duplicates", "merge_sum_duplicates"):
        f = repo.func(COO_FILE, name)
        sd = single_defs(f)
        uppers = {k for k, v in sd.items() if norm(v) == "coo.ind[0]"} | {"coo.ind[0]"}
        sites = [n for n in walk_no_nested(f.node) if isinstance(n, ast.Subscript) and isinstance(n.ctx, ast.Load) and isinstance(n.value, ast.Attribute)
                 and norm(n.value.value) == "coo" and n.value.attr in ("row", "col", "val", "key") and norm(n.slice) in uppers]
        if sites:
            for n in sites:
                rr.bad(f, "coo.%s[<upper bound>]" % n.value.attr, "`%s` reads the slot one past the live region: it holds whatever an earlier flush left "
                       "there, so the outcome (here: whether the last run of equal keys is written back) depends on the buffer's history - events are "
                       "lost for some volumes and buffer sizes and not for others" % norm(n), n.lineno)
        else:
            rr.ok(f, "reads of the coo arrays", "no read at the exclusive upper bound of the live region", f.node.lineno)
    return rr


def r4_8(repo: Repo) -> RuleResult:
    """coo_sum_duplicates is also called when nothing has been appended since the last flush (the event that triggers
    the flush is the last one of the buffer).  Then the region [lower, upper) is empty and the fill pointer must stay
    at `lower`: the function is evaluated symbolically on the path where its loops run zero times and every test
    `lower < upper` is false, and the value stored in coo.ind[0] must be `lower`."""
    from .. import sym
    from .common import rel_of

    rr = RuleResult("R4.8", "an empty flush leaves the fill pointer where it was (zero-trip path of coo_sum_duplicates evaluated symbolically)", floor=1)
    f = repo.func(COO_FILE, "coo_sum_duplicates")
    env: Dict[str, ast.AST] = {}
    lower = upper = None
    stored = None

    def ev(e: ast.AST):
        return sym.poly(sym.substitute(e, {k: v for k, v in env.items()}))

    def run(stmts) -> None:
        nonlocal lower, upper, stored
        for st in stmts:
            if isinstance(st, (ast.For, ast.While)):
                continue  # zero-trip
            if isinstance(st, ast.If):
                r = rel_of(st.test)
                nonempty = None
                if r is not None and lower is not None and upper is not None:
                    a, b = (sym.poly(sym.substitute(ast.parse(x, mode="eval").body, env)) for x in (r[1], r[2])) if r[0] in ("lt", "le") else (None, None)
                    if r[0] == "lt" and a == lower and b == upper:
                        nonempty = True
                if nonempty:
                    run(st.orelse)
                    continue
                touched = {x.id for s_ in st.body + st.orelse for x in ast.walk(s_) if isinstance(x, ast.Name) and isinstance(x.ctx, ast.Store)}
                writes_ind = any(isinstance(x, ast.Assign) and norm(x.targets[0]) == "coo.ind[0]" for s_ in st.body + st.orelse for x in ast.walk(s_))
                if (touched & set(env)) or writes_ind:
                    raise AnalysisError("R4.8: cannot decide the test `%s` on the empty-region path of coo_sum_duplicates" % norm(st.test))
                continue
            if isinstance(st, ast.Assign) and len(st.targets) == 1:
                t = st.targets[0]
                if isinstance(t, ast.Name):
                    env[t.id] = sym.substitute(st.value, env)
                    full = norm(env[t.id])
                    if full == "coo.ind[0]":
                        upper = ev(st.value)
                    if lower is None and full.replace(" ", "") in ("np.abs(coo.min[0])", "abs(coo.min[0])", "numpy.abs(coo.min[0])"):
                        lower = ev(ast.Name(id=t.id, ctx=ast.Load()))
                elif norm(t) == "coo.ind[0]":
                    stored = ev(st.value)
            elif isinstance(st, ast.AugAssign) and isinstance(st.target, ast.Name) and st.target.id in env:
                env[st.target.id] = ast.BinOp(left=env[st.target.id], op=st.op, right=sym.substitute(st.value, env))

    run(f.node.body)
    if lower is None or upper is None or stored is None:
        raise AnalysisError("R4.8: lower / upper bound or the store to coo.ind[0] not recognised in coo_sum_duplicates")
    # on the empty path upper == lower
    if stored == lower:
        rr.ok(f, "coo.ind[0] on an empty flush", "stays at the lower bound `%s`" % sym.show(lower), f.node.lineno)
    else:
        rr.bad(f, "coo.ind[0] on an empty flush", "with nothing appended since the last flush the fill pointer becomes `%s` instead of staying at `%s`: a "
               "stale slot is made live and its event is counted again (exactly when the event that triggers a flush is the last one of the buffer)"
               % (sym.show(stored), sym.show(lower)), f.node.lineno)
    return rr


RULES = [r4_1, r4_2, r4_3, r4_4, r4_5, r4_6, r4_7, r4_8]

CLAIM = (
    "R4.1 every call of a reallocate-and-return accumulator (coo_append) re-binds the result to the l-value it was (a local standing in for a container slot is stored back in the block that loaded it) "
    "called on; R4.2 the de-duplication key col + array_mul*row is injective (array_mul = n_windows*n_unique_tokens + c, "
    "c >= 0; col = context + i*n_unique_tokens) in all four build kernels (symbolic arithmetic); R4.3 worker chunks are "
    "exactly the generated boundary pairs and the boundaries are chained from 0 to len(data); R4.4 attribute-level "
    "definite assignment along the fit / fit_transform helper sequences of each concrete class; R4.5 the hand-duplicated blocks of coo_utils (two flush triggers, three accumulate-or-advance steps, four buffer copies) agree with each other; R4.6 precision flow: keys / coordinates are only staged in containers wide enough to hold them exactly; R4.7 the duplicate-summing routines never read a buffer slot at the exclusive upper bound of the live region (stale data); R4.8 on the zero-trip path of coo_sum_duplicates (empty region) the value stored in coo.ind[0] is symbolically the lower bound."
)
NOT_DECIDED = (
    "that the merge/sort/grow arithmetic of coo_utils never overruns its buffers for all event volumes, and independence "
    "from thread interleavings: these need invariants over runtime counters (ind, min[], depth) that no sound static "
    "argument within reach bounds."
)
