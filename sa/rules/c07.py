"""C07 - the exact transport plan: index plumbing only."""
from __future__ import annotations

import ast
import glob
import os
from typing import Dict, List, Optional, Tuple

from .. import sym
from ..model import AnalysisError, Func, Module, Repo, short, walk_no_nested
from ..report import RuleResult
from .common import norm, single_defs

LOT = "vectorizers/linear_optimal_transport.py"


def _pynndescent_ot() -> Tuple[str, ast.Module]:
    cands = sorted(glob.glob("/venv/lib/python*/site-packages/pynndescent/optimal_transport.py"))
    if not cands:
        raise AnalysisError("R7.1: installed pynndescent/optimal_transport.py not found under /venv")
    with open(cands[-1]) as fh:
        src = fh.read()
    return cands[-1], ast.parse(src)


def _fn(tree: ast.Module, name: str) -> ast.FunctionDef:
    for n in tree.body:
        if isinstance(n, ast.FunctionDef) and n.name == name:
            return n
    raise AnalysisError("R7.1: function %s not found in pynndescent.optimal_transport" % name)


def _nested_range_loops(fn: ast.FunctionDef) -> Tuple[ast.For, ast.For]:
    for n in ast.walk(fn):
        if isinstance(n, ast.For):
            inner = [x for x in n.body if isinstance(x, ast.For)]
            if len(inner) == 1:
                return n, inner[0]
    raise AnalysisError("R7.1: nested i/j loops not found in %s" % fn.name)


def r7_1(repo: Repo) -> RuleResult:
    rr = RuleResult("R7.1", "the arc numbering written by initialize_cost equals the one read by get_transport_plan", floor=1)
    path, tree = _pynndescent_ot()
    writer = _fn(tree, "initialize_cost")
    setc = _fn(tree, "set_cost")
    wo, wi = _nested_range_loops(writer)
    i, j = norm(wo.target), norm(wi.target)
    cm = writer.args.args[0].arg
    if norm(wo.iter) != "range(%s.shape[0])" % cm or norm(wi.iter) != "range(%s.shape[1])" % cm:
        raise AnalysisError("R7.1: writer loops are not range(cost.shape[0]) x range(cost.shape[1])")
    calls = [c for c in ast.walk(wi) if isinstance(c, ast.Call) and norm(c.func) == "set_cost"]
    w_arc, w_val = calls[0].args[0], calls[0].args[1]
    # set_cost writes cost[arc_id(arc, graph)]
    sc_ok = any(isinstance(n, ast.Assign) and "arc_id(%s" % setc.args.args[0].arg in norm(n.targets[0]) for n in ast.walk(setc))
    reader = repo.func(LOT, "get_transport_plan")
    ro, ri = _nested_range_loops(reader.node)
    sd = single_defs(reader)
    ri_, rj_ = norm(ro.target), norm(ri.target)

    def full(e):
        cur = e
        for _ in range(3):
            names = {x.id for x in ast.walk(cur) if isinstance(x, ast.Name) and x.id in sd}
            if not names:
                break
            cur = sym.substitute(cur, {k: sd[k] for k in names})
        return cur

    # loop bounds expanded: outer over graph.n, inner over graph.m
    outer_b = norm(full(ro.iter.args[0])) if isinstance(ro.iter, ast.Call) and ro.iter.args else "?"
    inner_b = norm(full(ri.iter.args[0])) if isinstance(ri.iter, ast.Call) and ri.iter.args else "?"
    n_def, m_def = outer_b, inner_b
    # the arc is whatever is mapped through arc_id; the store is the subscript store indexed by (i, j)
    arc_calls = [c for c in ast.walk(ri) if isinstance(c, ast.Call) and norm(c.func) == "arc_id" and c.args]
    r_arc = full(arc_calls[0].args[0]) if arc_calls else None
    store = [n for n in ast.walk(ri) if isinstance(n, ast.Assign) and isinstance(n.targets[0], ast.Subscript)
             and isinstance(n.targets[0].slice, ast.Tuple) and len(n.targets[0].slice.elts) == 2]
    tp = repo.func(LOT, "transport_plan")
    alloc = [c for c in repo.calls_in(tp) if norm(c.func) == "allocate_graph_structures"]
    problems = []
    if not sc_ok:
        problems.append("set_cost no longer writes cost[arc_id(arc)]")
    if not (n_def == "graph.n" and m_def == "graph.m"):
        problems.append("reader loops are not i over graph.n (outer), j over graph.m (inner)")
    if not alloc or [norm(a) for a in alloc[0].args[:2]] != ["p.shape[0]", "q.shape[0]"]:
        problems.append("graph is not allocated as (|p|, |q|)")
    # allocate_graph_structures(n, m, ...) -> DiGraph(n, m, ...) with fields (n, m, ...)
    al = _fn(tree, "allocate_graph_structures")
    digraph_fields = None
    for n in tree.body:
        if isinstance(n, ast.Assign) and norm(n.targets[0]) == "DiGraph" and isinstance(n.value, ast.Call):
            for a in n.value.args:
                if isinstance(a, (ast.List, ast.Tuple)):
                    digraph_fields = [x.value for x in a.elts if isinstance(x, ast.Constant)]
    dg = [c for c in ast.walk(al) if isinstance(c, ast.Call) and norm(c.func) == "DiGraph"]
    if not dg or digraph_fields is None or "n" not in digraph_fields or "m" not in digraph_fields:
        problems.append("DiGraph construction in allocate_graph_structures not recognised")
    else:
        args = [norm(a) for a in dg[0].args]
        got = (args[digraph_fields.index("n")], args[digraph_fields.index("m")])
        if got != (al.args.args[0].arg, al.args.args[1].arg):
            problems.append("graph.n / graph.m are filled with %s, not with allocate_graph_structures' (n, m)" % (got,))
    if r_arc is None or not store:
        problems.append("reader arc computation / result store not found")
    else:
        # writer: i*cost.shape[1] + j with cost.shape = (|p|, |q|) = (graph.n, graph.m)   reader: i*m + j
        w = sym.poly(w_arc, {"%s.shape[1]" % cm: ast.parse("M", mode="eval").body, i: ast.parse("I", mode="eval").body, j: ast.parse("J", mode="eval").body})
        r = sym.poly(r_arc, {"graph.m": ast.parse("M", mode="eval").body, ri_: ast.parse("I", mode="eval").body, rj_: ast.parse("J", mode="eval").body})
        if w != r:
            problems.append("writer numbers cell (i, j) as %s but the reader uses %s" % (sym.show(w), sym.show(r)))
        if norm(w_val) != "%s[%s, %s]" % (cm, i, j):
            problems.append("writer stores %s for arc (i, j)" % norm(w_val))
        if norm(store[0].targets[0].slice) not in ("(%s, %s)" % (ri_, rj_), "%s, %s" % (ri_, rj_)):
            problems.append("reader stores the flow of arc (i, j) at result[%s]" % norm(store[0].targets[0].slice))
        # the stored value must be flow[arc_id(arc, graph)]
        val = full(store[0].value)
        if not (isinstance(val, ast.Subscript) and norm(val.value) == reader.params[0] and "arc_id(" in norm(val.slice)):
            problems.append("reader does not store flow[arc_id(arc, graph)]")
    if problems:
        rr.bad(reader, "arc numbering", "; ".join(problems), reader.node.lineno)
    else:
        rr.ok(reader, "arc numbering", "writer (%s) and reader agree: arc(i, j) = i*|q| + j through arc_id, result[i, j]" % os.path.basename(path), reader.node.lineno)
    rr.facts["pynndescent_source"] = path
    return rr


def _shape_of(e: ast.AST, env: Dict[str, Tuple[str, str]]) -> Optional[Tuple[str, str]]:
    if isinstance(e, ast.Name):
        return env.get(e.id)
    if isinstance(e, ast.Attribute) and e.attr == "T":
        s = _shape_of(e.value, env)
        return (s[1], s[0]) if s else None
    if isinstance(e, ast.Call) and norm(e.func) == "chunked_pairwise_distance":
        a = list(e.args)
        kws = {k.arg: k.value for k in e.keywords}
        first = a[0] if a else kws.get("data1")
        second = a[1] if len(a) > 1 else kws.get("data2")
        if first is not None and second is not None:
            return (norm(first), norm(second))
    if isinstance(e, ast.Call) and isinstance(e.func, ast.Attribute) and e.func.attr in ("astype", "copy"):
        return _shape_of(e.func.value, env)
    return None


def r7_2(repo: Repo) -> RuleResult:
    rr = RuleResult("R7.2", "the cost matrix handed to the solver is oriented (|p|, |q|) on both branches of the size test", floor=2)
    tp = repo.func(LOT, "transport_plan")
    for name in ("lot_vectors_sparse_internal", "lot_vectors_dense_internal"):
        f = repo.func(LOT, name)
        calls = [c for c in repo.calls_in(f) if tp in repo.resolve_call(f, c)]
        if len(calls) != 1:
            raise AnalysisError("R7.2: %s calls transport_plan %d times" % (name, len(calls)))
        b = repo.bind_args(tp, calls[0])
        p, q, cost = norm(b["p"]), norm(b["q"]), b["cost"]
        if not isinstance(cost, ast.Name):
            raise AnalysisError("R7.2: cost argument is not a local name in %s" % name)
        shapes = []
        for n in walk_no_nested(f.node):
            if isinstance(n, ast.Assign) and len(n.targets) == 1 and norm(n.targets[0]) == cost.id:
                shapes.append((n.lineno, _shape_of(n.value, {})))
        if len(shapes) < 2 or any(s is None for _, s in shapes):
            raise AnalysisError("R7.2: cost assignments not recognised in %s" % name)

        def stem(x: str) -> str:
            return x.split("_")[0]

        want = (stem(p), stem(q))
        bad = [(ln, s) for ln, s in shapes if (stem(s[0]), stem(s[1])) != want]
        if bad:
            rr.bad(f, "transport_plan(%s, %s, %s)" % (p, q, cost.id),
                   "cost assigned at line %d has orientation (%s, %s) but the solver is given marginals (%s, %s): rows and columns of the plan are swapped on that branch"
                   % (bad[0][0], bad[0][1][0], bad[0][1][1], p, q), bad[0][0])
        else:
            rr.ok(f, "transport_plan(%s, %s, %s)" % (p, q, cost.id), "all %d cost assignments have orientation (%s.., %s..)" % (len(shapes), want[0], want[1]), calls[0].lineno)
    return rr


def r7_3(repo: Repo) -> RuleResult:
    rr = RuleResult("R7.3", "the demand vector enters the network with negative sign", floor=1)
    f = repo.func(LOT, "transport_plan")
    calls = [c for c in repo.calls_in(f) if norm(c.func) == "initialize_supply"]
    if len(calls) != 1:
        raise AnalysisError("R7.3: initialize_supply call not found")
    a = calls[0].args
    ok = norm(a[0]) == f.params[0] and isinstance(a[1], ast.UnaryOp) and isinstance(a[1].op, ast.USub) and norm(a[1].operand) == f.params[1]
    (rr.ok if ok else rr.bad)(f, "initialize_supply", "initialize_supply(%s, %s, ...)" % (norm(a[0]), norm(a[1])) + ("" if ok else ": supply must be p and demand -q"), calls[0].lineno)
    return rr


def _slice_stmts(f: Func, e: ast.AST) -> List[ast.stmt]:
    """Assignments (plain and augmented) the value of `e` may depend on inside f (flow-insensitive closure)."""
    defs: Dict[str, List[ast.stmt]] = {}
    for n in walk_no_nested(f.node):
        if isinstance(n, ast.Assign):
            for t in n.targets:
                for x in ast.walk(t):
                    if isinstance(x, ast.Name):
                        defs.setdefault(x.id, []).append(n)
        elif isinstance(n, ast.AugAssign):
            for x in ast.walk(n.target):
                if isinstance(x, ast.Name):
                    defs.setdefault(x.id, []).append(n)
    out: List[ast.stmt] = []
    seen = set()
    work = [e]
    while work:
        x = work.pop()
        for nm in ast.walk(x):
            if isinstance(nm, ast.Name) and nm.id in defs and nm.id not in seen:
                seen.add(nm.id)
                for st in defs[nm.id]:
                    out.append(st)
                    work.append(st.value)
    return out


def r7_4(repo: Repo) -> RuleResult:
    """The solver must see the problem that was given.  Rescaling the cost is harmless for the optimum - unless the
    scale can be zero: an all-zero cost matrix (every support point on a reference point) is valid input, and dividing
    it by its own maximum / sum / norm turns every cost into NaN, after which no pivot is ever taken."""
    from ..cfg import CFG
    from .common import ancestors, enclosing_stmt, parents_map, rel_of, rel_under

    rr = RuleResult("R7.4", "marginals and cost reach the network-simplex set-up as given, or rescaled only under a non-zero test of the scale", floor=3)
    f = repo.func(LOT, "transport_plan")
    p_, q_, cost_ = f.params[0], f.params[1], f.params[2]
    g = CFG(f.node)
    pm = parents_map(f.node)
    handed: List[Tuple[str, ast.AST, ast.Call]] = []
    for c in repo.calls_in(f):
        nm = norm(c.func)
        if nm == "initialize_supply" and len(c.args) >= 2:
            handed += [("supply", c.args[0], c), ("demand", c.args[1], c)]
        elif (nm == "initialize_cost" or (len(c.args) >= 3 and norm(c.args[2]).endswith(".cost") and "cost" in nm)) and c.args:
            handed.append(("cost", c.args[0], c))
    if len(handed) != 3:
        raise AnalysisError("R7.4: initialize_supply / initialize_cost calls of transport_plan not recognised")
    sd = single_defs(f)

    def nonzero_guarded(div: ast.AST, d: ast.AST) -> Optional[str]:
        names = {norm(d)}
        if isinstance(d, ast.Name) and d.id in sd:
            names.add(norm(sd[d.id]))
        want = lambda r: r is not None and ((r[0] == "lt" and r[1] in ("0", "0.0") and r[2] in names)
                                            or (r[0] == "ne" and any(frozenset((n_, z)) == r[1] for n_ in names for z in ("0", "0.0"))))
        prev = div
        for a in ancestors(div, pm):
            if isinstance(a, ast.IfExp):
                if prev is a.body and want(rel_of(a.test)):
                    return "conditional expression on `%s`" % norm(a.test)
                if prev is a.orelse and want(rel_under(a.test, "false")):
                    return "conditional expression on `%s`" % norm(a.test)
            if isinstance(a, ast.stmt):
                break
            prev = a
        st = enclosing_stmt(div, pm)
        nid = g.node_for(st)
        for t, lab in g.guards_of(nid):
            if isinstance(g.nodes[t].ast, ast.AST) and want(rel_under(g.nodes[t].ast, lab)):
                return "dominating test `%s` (%s edge)" % (norm(g.nodes[t].ast), lab)
        return None

    for what, e, call in handed:
        stmts = _slice_stmts(f, e)
        roots: List[ast.AST] = [e] + stmts
        divs: List[Tuple[ast.AST, ast.AST]] = []
        for r_ in roots:
            if isinstance(r_, ast.AugAssign) and isinstance(r_.op, (ast.Div, ast.FloorDiv, ast.Mod)):
                divs.append((r_.value, r_.value))
            for x in ast.walk(r_):
                if isinstance(x, ast.BinOp) and isinstance(x.op, (ast.Div, ast.FloorDiv, ast.Mod)):
                    divs.append((x, x.right))
                elif isinstance(x, ast.Call) and repo.canonical(f.module, x.func) in ("numpy.divide", "numpy.true_divide") and len(x.args) >= 2:
                    divs.append((x, x.args[1]))
        construct = "%s handed to the solver: `%s`" % (what, short(e, 50))
        if not divs:
            rr.ok(f, construct, "as given (no division on its way; %d assignment(s) in its slice)" % len(stmts), call.lineno)
            continue
        for div, d in divs:
            c2 = "%s divided by `%s`" % (what, short(d, 40))
            if isinstance(d, ast.Constant) and isinstance(d.value, (int, float)) and d.value != 0:
                rr.ok(f, c2, "non-zero constant divisor", div.lineno)
                continue
            why = nonzero_guarded(div, d)
            dsrc = {x.id for s_ in [d] + [st.value for st in _slice_stmts(f, d)] for x in ast.walk(s_) if isinstance(x, ast.Name) and x.id in f.params}
            if why:
                rr.ok(f, c2, "guarded: %s" % why, div.lineno)
            elif cost_ in dsrc:
                rr.bad(f, c2,
                       "the %s is divided by `%s`, computed from the cost matrix, with no test that it is non-zero: an all-zero cost "
                       "matrix is valid input (every support point on a reference point), the quotient is NaN everywhere, no arc ever "
                       "enters the basis and the returned plan does not have the given marginals" % (what, norm(d)), div.lineno)
            else:
                rr.note(f, c2, "divisor derived from %s only (probability vectors have positive mass): not judged" % sorted(dsrc), div.lineno)
    return rr


def r7_5(repo: Repo) -> RuleResult:
    """The flat arc number `i * m + j` of a 256 x 300 problem is 76 799: it must be computed in a full-width integer."""
    from .c10 import r10_9

    return r10_9(repo, "R7.5", {"get_transport_plan", "transport_plan"})


def r7_6(repo: Repo) -> RuleResult:
    """R7.1 proves the cell -> arc numbering of pynndescent's initialize_cost against get_transport_plan.  If the
    repository writes the costs itself, the writer must address cells by explicit (i, j) indices as well: iterating the
    matrix in *memory* order (np.nditer, .flat, ravel) pairs arcs with cells by layout, and the cost matrix is handed
    over transposed (Fortran-ordered view) whenever the row has no more points than the reference."""
    rr = RuleResult("R7.6", "arc costs are written by pynndescent.initialize_cost or by a writer that addresses cells by (i, j)", floor=1)
    tp = repo.func(LOT, "transport_plan")
    calls = [c for c in repo.calls_in(tp) if len(c.args) >= 3 and norm(c.args[2]).endswith(".cost")]
    if len(calls) != 1:
        raise AnalysisError("R7.6: the call that fills node_arc_data.cost not found in transport_plan")
    c = calls[0]
    tg = [t for t in repo.resolve_call(tp, c) if isinstance(t, Func)]
    if not tg:
        canon = repo.canonical(tp.module, c.func) or norm(c.func)
        if canon.endswith("initialize_cost"):
            rr.ok(tp, "cost writer", "%s (numbering proved by R7.1)" % canon, c.lineno)
        else:
            raise AnalysisError("R7.6: unknown external cost writer `%s`" % canon)
        return rr
    w = tg[0]
    layout = [x for x in walk_no_nested(w.node) if (isinstance(x, ast.Call) and (norm(x.func).endswith("nditer") or (isinstance(x.func, ast.Attribute) and x.func.attr in ("ravel", "flatten"))))
              or (isinstance(x, ast.Attribute) and x.attr == "flat")]
    if layout:
        rr.bad(w, "cost writer", "`%s` walks the cost matrix in memory order (`%s`): for a Fortran-ordered or transposed cost matrix - which transport_plan "
               "receives whenever the row has no more support points than the reference - cells are paired with the wrong arcs and the plan is "
               "feasible but not optimal" % (w.name, short(layout[0], 40)), layout[0].lineno)
    else:
        loops = [n for n in walk_no_nested(w.node) if isinstance(n, ast.For)]
        if len(loops) >= 2:
            rr.ok(w, "cost writer", "%s addresses cells through explicit loop indices" % w.name, w.node.lineno)
        else:
            raise AnalysisError("R7.6: cost writer %s has an unrecognised shape" % w.key)
    return rr


RULES = [r7_1, r7_2, r7_3, r7_4, r7_5, r7_6]
CLAIM = (
    "index plumbing only: R7.1 the linearisation of cell (i, j) used when costs are written (pynndescent initialize_cost, parsed "
    "from the installed package) equals the one used when the flow is read back (get_transport_plan), proved symbolically under "
    "cost.shape = (|p|, |q|); R7.2 the cost matrix has orientation (|p|, |q|) on both branches at both call sites (shape-kind "
    "propagation through .T); R7.3 demand enters negated; R7.4 p, -q and cost reach the solver set-up as given - a "
    "division on the way whose divisor derives from the cost matrix needs a dominating non-zero test (an all-zero cost matrix is valid input); "
    "R7.5 the arc number is not pinned to a narrow integer type through @njit(locals=...); R7.6 arc costs are written by pynndescent's initialize_cost or by a writer addressing cells by explicit indices, never by memory-order iteration."
)
NOT_DECIDED = (
    "non-negativity, marginals to 1e-9 and optimality to 1e-7 of the network-simplex result: numerical facts about an iterative "
    "solver in a third-party package; no static argument bounds them."
)
