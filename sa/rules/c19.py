"""C19 - sliding windows contain exactly the documented in-range elements."""
from __future__ import annotations

import ast
from typing import List, Optional, Tuple

from .. import sym
from ..model import AnalysisError, Func, Repo, is_self_attr, short, walk_no_nested
from ..report import RuleResult
from .common import expand_locals, norm, single_defs

SW = "vectorizers/transformers/sliding_windows.py"
WK = "vectorizers/_window_kernels.py"


def _arange(repo: Repo, f: Func, e: ast.AST) -> Optional[Tuple[ast.AST, ast.AST, ast.AST]]:
    if isinstance(e, ast.Call) and repo.canonical(f.module, e.func) == "numpy.arange":
        a = e.args
        zero, one = ast.Constant(value=0), ast.Constant(value=1)
        if len(a) == 1:
            return zero, a[0], one
        if len(a) == 2:
            return a[0], a[1], one
        if len(a) == 3:
            return a[0], a[1], a[2]
    return None


def _branch_kind(test: ast.AST) -> Optional[str]:
    s = norm(test)
    if s == "self.window_sample is None":
        return "none"
    if "issubdtype(type(self.window_sample), np.integer)" in s and "len(" not in s:
        return "int"
    if "len(self.window_sample) == 2" in s:
        return "pair"
    if "'random'" in s or '"random"' in s:
        return "random"
    return None


def r19_1(repo: Repo) -> RuleResult:
    rr = RuleResult("R19.1", "each window_sample form builds the documented arange(start, width, step)", floor=3)
    f = repo.func(SW, "SlidingWindowTransformer.fit")
    chain = None
    for n in f.node.body:
        if isinstance(n, ast.If) and _branch_kind(n.test) == "none":
            chain = n
    if chain is None:
        raise AnalysisError("R19.1: window_sample dispatch not found in SlidingWindowTransformer.fit")
    cur = chain
    seen = set()
    while isinstance(cur, ast.If):
        kind = _branch_kind(cur.test)
        assigns = [n for s in cur.body for n in ast.walk(s) if isinstance(n, ast.Assign) and is_self_attr(n.targets[0], "window_sample_")]
        if kind in ("none", "int", "pair"):
            seen.add(kind)
            if len(assigns) != 1:
                raise AnalysisError("R19.1: %s branch does not assign window_sample_ exactly once" % kind)
            a = assigns[0]
            ar = _arange(repo, f, a.value)
            construct = "window_sample %s branch" % kind
            if ar is None:
                rr.bad(f, construct, "`%s` is not an np.arange(...)" % short(a.value), a.lineno)
            else:
                env = {}
                if kind == "pair":
                    # start, stride = self.window_sample
                    for s in cur.body:
                        if isinstance(s, ast.Assign) and isinstance(s.targets[0], ast.Tuple) and norm(s.value) == "self.window_sample":
                            names = [norm(x) for x in s.targets[0].elts]
                            env = {names[0]: ast.parse("PAIR0", mode="eval").body, names[1]: ast.parse("PAIR1", mode="eval").body}
                want = {
                    "none": ("0", "self.window_width", "1"),
                    "int": ("0", "self.window_width", "self.window_sample"),
                    "pair": ("PAIR0", "self.window_width", "PAIR1"),
                }[kind]
                got = tuple(sym.show(sym.poly(x, env)) for x in ar)
                exp = tuple(sym.show(sym.poly(ast.parse(w, mode="eval").body)) for w in want)
                if got == exp:
                    rr.ok(f, construct, "arange(%s, %s, %s)" % got, a.lineno)
                else:
                    rr.bad(f, construct,
                           "builds arange(start=%s, stop=%s, step=%s) but the documented sample is arange(%s, %s, %s)"
                           % (got + exp), a.lineno)
        cur = cur.orelse[0] if len(cur.orelse) == 1 and isinstance(cur.orelse[0], ast.If) else None
    if seen != {"none", "int", "pair"}:
        raise AnalysisError("R19.1: window_sample branches recognised: %s" % sorted(seen))
    return rr


def _ceil_calls(repo: Repo, f: Func) -> List[ast.Call]:
    return [c for c in repo.calls_in(f) if repo.canonical(f.module, c.func) in ("numpy.ceil", "math.ceil")]


def _strip(e: ast.AST) -> ast.AST:
    while isinstance(e, ast.Call) and norm(e.func) in ("int", "float") and len(e.args) == 1:
        e = e.args[0]
    return e


def r19_2(repo: Repo) -> RuleResult:
    rr = RuleResult("R19.2", "window / difference counts are the ceiling of a *true* division (ceil of a floor division is dead)", floor=2)
    scoped = [repo.func(WK, "difference_kernel"), repo.func(SW, "sliding_windows")]
    for f in scoped:
        calls = _ceil_calls(repo, f)
        if not calls:
            raise AnalysisError("R19.2: no ceil(...) count found in %s" % f.key)
        for c in calls:
            arg = _strip(c.args[0])
            full = expand_locals(arg, f, 2)
            construct = "ceil(%s)" % short(arg, 50)
            floor_div = [n for n in ast.walk(full) if isinstance(n, ast.BinOp) and isinstance(n.op, ast.FloorDiv)]
            if floor_div:
                rr.bad(f, construct,
                       "ceil of a floor division: the rounding-up the author asks for never happens, so the count is floor(a / b) "
                       "- one short whenever b does not divide a (SequentialDifferenceTransformer(stride >= 2) gets zero columns)", c.lineno)
            else:
                rr.ok(f, construct, "true division under ceil", c.lineno)
    # cross-reference, not a C19 clause: the same contradiction elsewhere in the window kernels
    for f in repo.module(WK).all_funcs:
        if f in scoped:
            continue
        for c in _ceil_calls(repo, f):
            if any(isinstance(n, ast.BinOp) and isinstance(n.op, ast.FloorDiv) for n in ast.walk(c.args[0])):
                rr.note(f, "ceil(%s)" % short(c.args[0], 40), "same ceil-of-floor-division shape (kernel outside C19's statement; reported for reference)", c.lineno)
    return rr


def r19_3(repo: Repo) -> RuleResult:
    rr = RuleResult("R19.3", "every row of the np.empty result buffer is written and window i is [i*stride, i*stride + width)", floor=2)
    f = repo.func(SW, "sliding_windows")
    empties = [n for n in walk_no_nested(f.node) if isinstance(n, ast.Assign) and isinstance(n.value, ast.Call)
               and repo.canonical(f.module, n.value.func) == "numpy.empty" and isinstance(n.targets[0], ast.Name)]
    if len(empties) != 1:
        raise AnalysisError("R19.3: expected one np.empty result buffer in sliding_windows")
    res = empties[0].targets[0].id
    shape = empties[0].value.args[0]
    rows = norm(shape.elts[0]) if isinstance(shape, ast.Tuple) else None
    loops = [n for n in walk_no_nested(f.node) if isinstance(n, ast.For) and norm(n.iter) == "range(%s)" % rows]
    branch_ifs = [n for n in f.node.body if isinstance(n, ast.If) and any(isinstance(x, ast.For) for x in n.body)]
    if len(loops) < 1:
        raise AnalysisError("R19.3: no loop over range(%s) fills the buffer" % rows)
    # every path after the allocation must run one of the filling loops
    if branch_ifs:
        b = branch_ifs[0]
        for fld, stmts in (("true branch", b.body), ("false branch", b.orelse)):
            if not any(isinstance(s, ast.For) and norm(s.iter) == "range(%s)" % rows for s in stmts):
                rr.bad(f, fld, "no loop over range(%s) on this branch: rows of the np.empty buffer stay uninitialised" % rows, b.lineno)
    for lp in loops:
        i = norm(lp.target)
        construct = "fill loop `for %s in range(%s)`" % (i, rows)
        stores = [s for s in lp.body if isinstance(s, ast.Assign) and isinstance(s.targets[0], ast.Subscript)
                  and norm(s.targets[0].value) == res and norm(s.targets[0].slice) == i]
        if len(stores) != 1:
            rr.bad(f, construct, "row %s[%s] is not assigned exactly once per iteration" % (res, i), lp.lineno)
            continue
        sl = [n for n in ast.walk(stores[0].value) if isinstance(n, ast.Subscript) and isinstance(n.slice, ast.Slice)]
        want_lo = sym.poly(ast.parse("%s * stride" % i, mode="eval").body)
        # the sampled positions taken in one step: sequence[sample + <offset>] - the offset must be the window start
        seq_p, sample_p = f.params[0], f.params[3]
        fancy = [n for n in ast.walk(stores[0].value) if isinstance(n, ast.Subscript) and norm(n.value) == seq_p
                 and not isinstance(n.slice, ast.Slice) and sample_p in {x.id for x in ast.walk(n.slice) if isinstance(x, ast.Name)}]
        if not sl and len(fancy) == 1:
            off = sym.sub(sym.poly(fancy[0].slice), sym.poly(ast.Name(id=sample_p, ctx=ast.Load())))
            if off == want_lo:
                rr.ok(f, construct, "%s[%s] = kernel(sequence[sample + %s*stride])" % (res, i, i), lp.lineno)
            else:
                rr.bad(f, construct, "window %s takes the sampled positions `%s`: its offset is `%s`, not the window start %s*stride - for "
                       "stride > 1 every window after the first reads the wrong elements" % (i, norm(fancy[0].slice), sym.show(off), i), lp.lineno)
            continue
        if len(sl) != 1 or sl[0].slice.lower is None or sl[0].slice.upper is None:
            raise AnalysisError("R19.3: window slice not recognised in %s" % short(stores[0]))
        lo, hi = sym.poly(sl[0].slice.lower), sym.poly(sl[0].slice.upper)
        width = sym.sub(hi, lo)
        if lo == want_lo and width == sym.poly(ast.parse("width", mode="eval").body):
            rr.ok(f, construct, "%s[%s] = kernel(sequence[%s*stride : %s*stride + width])" % (res, i, i, i), lp.lineno)
        else:
            rr.bad(f, construct, "window slice is [%s, %s), not [%s*stride, %s*stride + width)" % (sym.show(lo), sym.show(hi), i, i), lp.lineno)
    return rr


def r19_4(repo: Repo) -> RuleResult:
    """SequentialDifferenceTransformer = sliding window of width stride + 1 with the 'differences' kernel started at 0
    with step = stride; row i of that kernel is -1 at column start + i*stride and +1 exactly `step` columns later."""
    rr = RuleResult("R19.4", "difference rows are +x[c + step] - x[c], and the difference transformer asks for start 0, step = stride, width stride + 1", floor=3)
    f = repo.func(WK, "difference_kernel")
    start, step, stride = f.params[1], f.params[2], f.params[3]
    loops = [n for n in walk_no_nested(f.node) if isinstance(n, ast.For)]
    if len(loops) != 1 or not isinstance(loops[0].target, ast.Name):
        raise AnalysisError("R19.4: row loop of difference_kernel not recognised")
    i = loops[0].target.id
    stores = {}
    for st in loops[0].body:
        if isinstance(st, ast.Assign) and isinstance(st.targets[0], ast.Subscript) and isinstance(st.targets[0].slice, ast.Tuple) \
                and len(st.targets[0].slice.elts) == 2 and norm(st.targets[0].slice.elts[0]) == i:
            v = st.value
            val = v.value if isinstance(v, ast.Constant) else (-v.operand.value if isinstance(v, ast.UnaryOp) and isinstance(v.op, ast.USub) and isinstance(v.operand, ast.Constant) else None)
            stores[val] = sym.poly(st.targets[0].slice.elts[1])
    if set(stores) != {1, -1}:
        raise AnalysisError("R19.4: the +1 / -1 stores of difference_kernel not recognised (%s)" % sorted(map(str, stores)))
    want_minus = sym.poly(ast.parse("%s + %s * %s" % (start, i, stride), mode="eval").body)
    if stores[-1] == want_minus:
        rr.ok(f, "-1 column", "start + i*stride", loops[0].lineno)
    else:
        rr.bad(f, "-1 column", "row i subtracts column `%s`, not start + i*stride" % sym.show(stores[-1]), loops[0].lineno)
    gap = sym.sub(stores[1], stores[-1])
    if gap == sym.poly(ast.Name(id=step, ctx=ast.Load())):
        rr.ok(f, "+1 column", "exactly `%s` columns after the -1 column: row i is x[c + step] - x[c]" % step, loops[0].lineno)
    else:
        rr.bad(f, "+1 column", "the +1 entry sits `%s` columns after the -1 entry, not `%s`: the row is not x[c + step] - x[c]" % (sym.show(gap), step), loops[0].lineno)
    # the transformer's configuration
    c = repo.module(SW).classes.get("SequentialDifferenceTransformer")
    if c is None:
        raise AnalysisError("R19.4: SequentialDifferenceTransformer not found")
    fit = repo.resolve_method(c, "fit")
    calls = [n for n in walk_no_nested(fit.node) if isinstance(n, ast.Call) and norm(n.func) == "SlidingWindowTransformer"]
    if len(calls) != 1:
        raise AnalysisError("R19.4: SequentialDifferenceTransformer.fit does not build one SlidingWindowTransformer")
    from .common import kw

    width, kernels = kw(calls[0], "window_width"), kw(calls[0], "kernels")
    ok = width is not None and sym.poly(width) == sym.poly(ast.parse("self.stride + 1", mode="eval").body)
    tup = kernels.elts[0] if isinstance(kernels, (ast.List, ast.Tuple)) and len(kernels.elts) == 1 else None
    ok_k = isinstance(tup, ast.Tuple) and [norm(e) for e in tup.elts] == ["'differences'", "0", "self.stride", "self.stride"]
    if ok and ok_k:
        rr.ok(fit, "SlidingWindowTransformer(...)", "window_width = stride + 1, kernel ('differences', start 0, step stride, stride stride)", calls[0].lineno)
    else:
        rr.bad(fit, "SlidingWindowTransformer(...)", "configured with window_width=%s, kernels=%s: the result is not x[i + stride] - x[i] for every valid i"
               % (norm(width) if width is not None else None, norm(kernels) if kernels is not None else None), calls[0].lineno)
    return rr


def r19_5(repo: Repo) -> RuleResult:
    """The sequence is padded by pad_width copies of pad_value on both sides *inside* sliding_windows; the number of
    windows is computed from the padded length.  A shortcut in the estimator that decides "too short for one window"
    must therefore compare the padded length L + 2 * pad_width with the window width, not the raw length."""
    rr = RuleResult("R19.5", "a short-sequence shortcut of SlidingWindowTransformer compares the padded length with the window width", floor=1)
    c = repo.module(SW).classes.get("SlidingWindowTransformer")
    if c is None:
        raise AnalysisError("R19.5: SlidingWindowTransformer not found")
    n_tests = 0
    for entry in ("transform", "fit_transform", "fit"):
        f = repo.resolve_method(c, entry)
        if f is None:
            continue
        for n in walk_no_nested(f.node):
            if not (isinstance(n, ast.Compare) and len(n.ops) == 1 and isinstance(n.ops[0], (ast.Lt, ast.LtE, ast.Gt, ast.GtE))):
                continue
            sides = [n.left, n.comparators[0]]
            if not any(is_self_attr(x, "window_width") for s_ in sides for x in ast.walk(s_)):
                continue
            lens = [s_ for s_ in sides if any((isinstance(x, ast.Attribute) and x.attr == "shape") or (isinstance(x, ast.Call) and norm(x.func) == "len") for x in ast.walk(s_))]
            if not lens:
                continue
            n_tests += 1
            p = sym.poly(lens[0])
            k, _rest = sym.coeff_of(p, "self.pad_width")
            construct = "length test `%s`" % short(n, 50)
            if k == 2:
                rr.ok(f, construct, "compares the padded length (L + 2 * pad_width)", n.lineno)
            else:
                rr.bad(f, construct, "the raw sequence length is compared with the window width although the sequence is padded by pad_width on both "
                       "sides before windows are cut: a sequence shorter than the width whose padded length reaches it loses all its windows", n.lineno)
    if n_tests == 0:
        f = repo.resolve_method(c, "transform")
        rr.ok(f, "no short-sequence shortcut", "every sequence goes to sliding_windows, which pads before it counts windows", f.node.lineno, nontrivial=False)
    return rr


RULES = [r19_1, r19_2, r19_3, r19_4, r19_5]
CLAIM = (
    "R19.1 each window_sample branch of SlidingWindowTransformer.fit builds the documented arange(start, width, step) "
    "(symbolic comparison); R19.2 the window and difference counts are ceil of a true division; R19.3 every row of the "
    "np.empty buffer is written on both branches with the slice [i*stride, i*stride + width) (or the one-step sampled form "
    "sequence[sample + i*stride]); R19.4 the difference kernel's row i is -1 at start + i*stride and +1 exactly `step` columns "
    "later, and SequentialDifferenceTransformer asks for width stride + 1, start 0, step = stride; R19.5 a short-sequence shortcut in the estimator compares the padded length L + 2 * pad_width with the window width."
)
NOT_DECIDED = "the kernel arithmetic, padding values and the multivariate layout."
