"""C02 - fit returns self; fit_transform == fit . transform (structural clauses)."""
from __future__ import annotations

import ast
from typing import Dict, List, Optional, Set, Tuple

from ..agree import (
    Site,
    collect_sites,
    equals_default,
    is_closed,
    param_uses_all_in_none_guard,
    self_attrs_in,
)
from ..cfg import CFG
from ..model import AnalysisError, Cls, Func, Repo, is_self_attr, short, walk_no_nested
from ..report import RuleResult
from .common import cfg_of, exported_estimators, norm, surface_estimators, value_form


# --------------------------------------------------------------------------- R2.1
def _returns_only_self(repo: Repo, f: Func, depth: int = 0) -> Tuple[bool, str, int]:
    g = CFG(f.node)
    live = g.live_nodes()
    if any(p in live for p in g.fallthrough_preds):
        return False, "falls off the end (returns None) on some path", f.node.end_lineno or f.node.lineno
    for n in g.nodes:
        if n.id in live and n.kind == "stmt" and isinstance(n.ast, ast.Return):
            v = n.ast.value
            if isinstance(v, ast.Name) and v.id == "self":
                continue
            if (
                depth == 0
                and isinstance(v, ast.Call)
                and is_self_attr(v.func)
                and f.cls is not None
            ):
                m = repo.resolve_method(f.cls, v.func.attr)
                if m is not None and m.name != "fit_transform" and _returns_only_self(repo, m, 1)[0]:
                    continue
            return False, "returns `%s`, not the estimator" % (short(v) if v is not None else "None"), n.lineno
    return True, "", 0


def r2_1(repo: Repo) -> RuleResult:
    rr = RuleResult("R2.1", "every normal exit of every estimator's fit is `return self`", floor=20)
    for c in surface_estimators(repo):
        f = c.methods.get("fit")
        if f is None:
            continue
        ok, what, line = _returns_only_self(repo, f)
        if ok:
            rr.ok(f, "fit", "all exits return self", f.node.lineno)
        else:
            rr.bad(f, "fit", "fit %s" % what, line)
    return rr


# --------------------------------------------------------------------------- R2.2
def _self_calls(f: Func, name: str) -> List[ast.Call]:
    return [
        n
        for n in walk_no_nested(f.node)
        if isinstance(n, ast.Call) and is_self_attr(n.func, name)
    ]


def _reads_param(f: Func, p: str) -> bool:
    return any(
        isinstance(n, ast.Name) and n.id == p and isinstance(n.ctx, ast.Load) for n in walk_no_nested(f.node)
    )


def _summary(repo: Repo, c: Cls, f: Func):
    """(ordered self-method call facts, attribute write set) of a stand-alone pipeline."""
    calls = []
    writes: Set[str] = set()
    for n in walk_no_nested(f.node):
        if isinstance(n, ast.Call) and is_self_attr(n.func):
            tgt = repo.resolve_method(c, n.func.attr)
            cands = [tgt] if tgt else repo.attr_function_candidates(c, n.func.attr)
            if cands:
                bound = repo.bind_args(cands[0], n)
                calls.append(
                    (
                        n.lineno,
                        n.col_offset,
                        n.func.attr,
                        tuple(sorted((k, value_form(v, f, n)) for k, v in bound.items())),
                    )
                )
        targets = []
        if isinstance(n, ast.Assign):
            targets = n.targets
        elif isinstance(n, ast.AugAssign):
            targets = [n.target]
        for t in targets:
            for e in t.elts if isinstance(t, (ast.Tuple, ast.List)) else [t]:
                if is_self_attr(e):
                    writes.add(e.attr)
    calls.sort()
    return [(name, args) for _, _, name, args in calls], writes


def r2_2(repo: Repo) -> RuleResult:
    rr = RuleResult("R2.2", "fit and fit_transform are one pipeline (delegation idiom or equal summaries)", floor=18)
    for c in exported_estimators(repo):
        fit = repo.resolve_method(c, "fit")
        ft = repo.resolve_method(c, "fit_transform")
        if fit is None:
            continue
        if ft is None:
            rr.ok(fit, "fit_transform", "inherited TransformerMixin.fit_transform = fit(X).transform(X)", fit.node.lineno, nontrivial=False)
            continue
        ft_calls_fit = _self_calls(ft, "fit")
        fit_calls_ft = _self_calls(fit, "fit_transform")
        if ft_calls_fit:
            call = ft_calls_fit[0]
            bound = repo.bind_args(fit, call)
            passed = set(bound)
            has_kwargs = "**" in bound
            missing = []
            for p in ft.params:
                if p in ("self",):
                    continue
                if p in fit.params and p not in passed and _reads_param(fit, p):
                    missing.append(p)
            vararg_ok = True
            if fit.node.args.kwarg is not None and ft.node.args.kwarg is not None and not has_kwargs:
                # **fit_params swallowed: only matters if fit reads it
                if _reads_param(fit, fit.node.args.kwarg.arg):
                    vararg_ok = False
            if missing or not vararg_ok:
                rr.add(
                    ft.file, c.name + ".fit_transform", "self.fit(...)", "violation",
                    "fit_transform does not pass %s through to fit, which reads it" % (missing or ["**fit_params"]),
                    call.lineno,
                )
                continue
            # returned value: fitted attribute written by fit, or self.transform(...)
            rets = [n for n in walk_no_nested(ft.node) if isinstance(n, ast.Return)]
            fitted = repo.fitted_attrs(c)
            verdicts = []
            for r in rets:
                v = r.value
                if is_self_attr(v):
                    verdicts.append(v.attr in fitted)
                elif isinstance(v, ast.Call) and is_self_attr(v.func, "transform"):
                    verdicts.append(True)
                else:
                    verdicts.append(None)
            if any(v is False for v in verdicts):
                rr.add(ft.file, c.name + ".fit_transform", "return", "violation",
                       "fit_transform returns a self attribute that fit never writes", rets[0].lineno)
            else:
                extra = "" if all(v is True for v in verdicts) else " (returns a computed expression: value not compared)"
                rr.add(ft.file, c.name + ".fit_transform", "self.fit(...)", "ok",
                       "idiom (i): delegates to self.fit with all read parameters passed" + extra, call.lineno)
        elif fit_calls_ft:
            call = fit_calls_ft[0]
            bound = repo.bind_args(ft, call)
            missing = [
                p for p in fit.params
                if p != "self" and p in ft.params and p not in bound and _reads_param(ft, p)
            ]
            if missing:
                rr.add(fit.file, c.name + ".fit", "self.fit_transform(...)", "violation",
                       "fit does not pass %s through to fit_transform, which reads it" % missing, call.lineno)
            else:
                rr.add(fit.file, c.name + ".fit", "self.fit_transform(...)", "ok",
                       "idiom (ii): fit delegates to self.fit_transform", call.lineno)
        else:
            s_fit, w_fit = _summary(repo, c, fit)
            s_ft, w_ft = _summary(repo, c, ft)
            problems = []
            if [n for n, _ in s_fit] != [n for n, _ in s_ft]:
                problems.append(
                    "helper sequences differ: fit=%s fit_transform=%s" % ([n for n, _ in s_fit], [n for n, _ in s_ft])
                )
            else:
                for (n1, a1), (n2, a2) in zip(s_fit, s_ft):
                    if a1 != a2:
                        d1 = dict(a1)
                        d2 = dict(a2)
                        keys = sorted(k for k in set(d1) | set(d2) if d1.get(k) != d2.get(k))
                        problems.append("self.%s(...) bound differently for %s" % (n1, keys))
            if w_fit != w_ft:
                problems.append("attribute write sets differ: %s" % sorted(w_fit ^ w_ft))
            if problems:
                rr.add(fit.file, c.name + ".fit|fit_transform", "duplicated pipeline", "violation",
                       "; ".join(problems), ft.node.lineno)
            else:
                rr.add(fit.file, c.name + ".fit|fit_transform", "duplicated pipeline", "ok",
                       "idiom (iii): stand-alone copies with equal helper sequence (%d calls), bound arguments and write sets"
                       % len(s_fit), ft.node.lineno)
    return rr


# --------------------------------------------------------------------------- R2.3
def _site_groups(repo: Repo, c: Cls):
    fit_sites: List[Site] = []
    for e in ("fit", "fit_transform"):
        fit_sites += collect_sites(repo, c, e)
    tr_sites = collect_sites(repo, c, "transform")
    by: Dict[Func, Tuple[List[Site], List[Site]]] = {}
    for s in fit_sites:
        by.setdefault(s.callee, ([], []))[0].append(s)
    for s in tr_sites:
        by.setdefault(s.callee, ([], []))[1].append(s)
    out = {}
    for k, (fs, ts) in by.items():
        # a call node reached from both entries is shared code: consistent by construction as long
        # as its own caller's arguments are (and those are compared at the caller's site)
        shared = {id(s.call) for s in fs} & {id(s.call) for s in ts}
        fs = [s for s in fs if id(s.call) not in shared]
        ts = [s for s in ts if id(s.call) not in shared]
        if fs and ts:
            out[k] = (fs, ts)
    return out


def config_agreement(repo: Repo, rule: str, title: str, only_params: Optional[Set[str]] = None,
                     only_callees: Optional[Set[str]] = None, floor: int = 1) -> RuleResult:
    """R2.3 core.  One instance per (class, callee, defaulted parameter)."""
    rr = RuleResult(rule, title, floor=floor)
    seen_bad: Set[Tuple] = set()
    seen_ok: Set[Tuple] = set()
    callees_seen: Set[str] = set()
    for c in exported_estimators(repo):
        fitted = repo.fitted_attrs(c)
        ctor = set(repo.ctor_params(c))
        for k, (fs, ts) in _site_groups(repo, c).items():
            if k.cls is not None:
                continue  # methods are covered by R2.2 / typestate, not by this rule
            if only_callees is not None and k.name not in only_callees:
                continue
            defaults = k.defaults
            for p in k.params:
                d = defaults.get(p)
                if only_params is not None and p not in only_params:
                    continue
                callees_seen.add(k.name)

                def explicit(s: Site) -> Optional[ast.AST]:
                    e = s.bound.get(p)
                    if e is None or equals_default(e, d):
                        return None
                    return e

                f_exp = [(s, explicit(s)) for s in fs]
                t_exp = [(s, explicit(s)) for s in ts]
                # sites through **kwargs cannot be judged
                if any("**" in s.bound for s in fs + ts):
                    rr.not_analysed.append("%s.%s(%s): a call passes **kwargs" % (c.name, k.name, p))
                    continue
                f_any = [s for s, e in f_exp if e is not None]
                t_any = [s for s, e in t_exp if e is not None]
                f_def = [s for s, e in f_exp if e is None]
                t_def = [s for s, e in t_exp if e is None]
                key_base = (c.name, k.name, p)
                flagged = False
                # presence: explicit on one side, default on the other
                for side_exp, side_def, who in ((f_any, t_def, "transform"), (t_any, f_def, "fit")):
                    if side_exp and side_def:
                        for s in side_def:
                            if param_uses_all_in_none_guard(repo, k, p, s.nonnull):
                                continue
                            # a defaulted site is only inconsistent if *every* explicit site of the other
                            # side is non-default; (it is: explicit() filtered defaults out)
                            other = side_exp[0]
                            key = (s.caller.key, k.name, p)
                            flagged = True
                            if key in seen_bad:
                                continue
                            seen_bad.add(key)
                            rr.add(
                                s.caller.file, s.caller.qualname, "%s(%s=)" % (k.name, p), "violation",
                                "%s path calls %s without `%s` (default %s) while the %s path passes `%s` "
                                "(%s:%d): the two paths compute with different settings whenever that differs from the default"
                                % (who, k.name, p, norm(d) if d is not None else "-", "fit" if who == "transform" else "transform",
                                   norm(other.raw.get(p, other.bound[p])), other.caller.qualname, other.line),
                                s.line,
                                path=list(s.chain) + [k.name],
                            )
                # both explicit: closed forms must agree unless transform side is fitted state
                if f_any and t_any and not flagged:
                    f_forms = {norm(s.bound[p]) for s in f_any if is_closed(repo, s.caller, s.bound[p])}
                    for s in t_any:
                        e = s.bound[p]
                        if not is_closed(repo, s.caller, e) or not f_forms:
                            rr.not_analysed.append(
                                "%s.%s(%s): `%s` does not expand to a closed form; not compared" % (c.name, k.name, p, norm(e))
                            )
                            continue
                        if norm(e) in f_forms:
                            continue
                        attrs = self_attrs_in(e)
                        if attrs and attrs <= fitted - ctor:
                            continue  # fitted state replaces the configuration value
                        key = (s.caller.key, k.name, p)
                        flagged = True
                        if key in seen_bad:
                            continue
                        seen_bad.add(key)
                        rr.add(
                            s.caller.file, s.caller.qualname, "%s(%s=)" % (k.name, p), "violation",
                            "transform path passes %s=`%s` but the fit path passes `%s`"
                            % (p, norm(e), " | ".join(sorted(f_forms))),
                            s.line, path=list(s.chain) + [k.name],
                        )
                if not flagged and key_base not in seen_ok:
                    seen_ok.add(key_base)
                    nontrivial = bool(f_any or t_any)
                    rr.add(
                        ts[0].caller.file, ts[0].caller.qualname, "%s(%s=)" % (k.name, p), "ok",
                        "%s: fit sites %d (explicit %d), transform sites %d (explicit %d) agree"
                        % (c.name, len(fs), len(f_any), len(ts), len(t_any)),
                        ts[0].line, nontrivial=nontrivial,
                    )
    rr.facts["callees_compared"] = sorted(callees_seen)
    return rr


def r2_3(repo: Repo) -> RuleResult:
    rr = config_agreement(
        repo, "R2.3",
        "a kernel called from both the fit path and the transform path gets the same configuration arguments",
        floor=30,
    )
    need = {
        "lot_vectors_sparse_internal", "lot_vectors_dense_internal", "sinkhorn_vectors_sparse_internal",
        "lempel_ziv_based_encode", "skip_grams_matrix_coo_data", "sequence_tree_skip_grams",
        "preprocess_token_sequences", "preprocess_timed_token_sequences", "preprocess_multi_token_sequences",
        "preprocess_tree_sequences",
    }
    missing = need - set(rr.facts["callees_compared"])
    if missing:
        raise AnalysisError("R2.3 lost its confirmed instances: %s not compared any more" % sorted(missing))
    return rr


# --------------------------------------------------------------------------- R2.4
# reviewed exceptions: (class, method) -> reason; re-validated on every run
_IDENTITY_EXCEPTIONS = {
    ("RowDenoisingTransformer", "fit_transform"): (
        "guarded by an emptiness test of X (`X.nnz == 0` / `X.count_nonzero() == 0`): on an all-zero matrix fit() leaves the estimator unfitted "
        "(warns 'Cannot fit an empty matrix'), so fit(X).transform(X) is undefined there; not valid training input"
    ),
}


def _identity_returns(f: Func) -> List[ast.Return]:
    data = [p for p in f.positional_params if p != "self"][:1]
    out = []
    for n in walk_no_nested(f.node):
        if isinstance(n, ast.Return) and isinstance(n.value, ast.Name) and n.value.id in data:
            # the parameter must not have been re-bound before (then it is not the input any more)
            rebound = any(
                isinstance(m, ast.Assign) and any(isinstance(t, ast.Name) and t.id == n.value.id for t in m.targets)
                and m.lineno < n.lineno
                for m in walk_no_nested(f.node)
            )
            if not rebound:
                out.append(n)
    return out


def r2_4(repo: Repo) -> RuleResult:
    rr = RuleResult("R2.4", "fit_transform may return its input unchanged only where transform can as well", floor=18)
    for c in exported_estimators(repo):
        ft = repo.resolve_method(c, "fit_transform")
        tr = repo.resolve_method(c, "transform")
        if ft is None or tr is None:
            if ft is not None or tr is not None:
                f = ft or tr
                rr.ok(f, "identity return", "only one of fit_transform/transform defined", f.node.lineno, nontrivial=False)
            continue
        a = _identity_returns(ft)
        b = _identity_returns(tr)
        if bool(a) == bool(b):
            rr.add(ft.file, c.name + ".fit_transform", "identity return", "ok",
                   "fit_transform %s, transform %s" % ("can return X" if a else "never returns X", "can too" if b else "neither"),
                   ft.node.lineno, nontrivial=bool(a))
            continue
        which, f, rets = ("fit_transform", ft, a) if a else ("transform", tr, b)
        exc = _IDENTITY_EXCEPTIONS.get((c.name, which))
        if exc is not None:
            # re-validate: the return is guarded by `<X>.nnz == 0`
            g = CFG(f.node)
            okay = True
            for r in rets:
                nid = g.node_for(r)
                guards = [g.nodes[t].ast for t, lab in g.guards_of(nid) if lab == "true"]
                if not any(("nnz == 0" in norm(x)) or ("count_nonzero() == 0" in norm(x)) for x in guards):
                    okay = False
            if okay:
                rr.add(f.file, c.name + "." + which, "identity return", "exception", exc, rets[0].lineno)
                continue
        rr.add(f.file, c.name + "." + which, "identity return", "violation",
               "%s returns its input unchanged (`return %s`) on some path while %s never does: "
               "fit_transform(X) and fit(X).transform(X) differ on that path"
               % (which, rets[0].value.id, "transform" if which == "fit_transform" else "fit_transform"),
               rets[0].lineno)
    return rr


# --------------------------------------------------------------------------- R2.5
def _extend_shape(arg: ast.AST):
    """('per-element', source, n_generators) for tuple([... for x in S]) / [... for x in S];
    ('whole', source) for f(S[a:b]) applied to the slice as one object."""
    e = arg
    while isinstance(e, ast.Call) and isinstance(e.func, ast.Name) and e.func.id in ("tuple", "list") and len(e.args) == 1:
        e = e.args[0]
    if isinstance(e, (ast.ListComp, ast.GeneratorExp)):
        return ("per-element", norm(e.generators[0].iter))
    subs = [n for n in ast.walk(e) if isinstance(n, ast.Subscript) and isinstance(n.slice, ast.Slice)]
    if subs:
        return ("whole", norm(subs[0]))
    return ("other", norm(e))


def r2_5(repo: Repo) -> RuleResult:
    rr = RuleResult("R2.5", "sibling branches that fill the same accumulator consume their source the same way (element-wise vs whole slice)", floor=1)
    for c in exported_estimators(repo):
        for entry in ("fit", "transform"):
            f = repo.resolve_method(c, entry)
            if f is None or f.cls is not c:
                continue
            for n in walk_no_nested(f.node):
                if not (isinstance(n, ast.If) and n.orelse):
                    continue
                def extends(stmts):
                    out = {}
                    for s in stmts:
                        for x in ast.walk(s):
                            if isinstance(x, ast.Call) and isinstance(x.func, ast.Attribute) and x.func.attr == "extend" \
                                    and isinstance(x.func.value, ast.Name) and x.args:
                                out.setdefault(x.func.value.id, []).append(x)
                    return out
                a, b = extends(n.body), extends(n.orelse)
                for acc in sorted(set(a) & set(b)):
                    if len(a[acc]) != 1 or len(b[acc]) != 1:
                        continue
                    sa, sb = _extend_shape(a[acc][0].args[0]), _extend_shape(b[acc][0].args[0])
                    construct = "%s.extend(...) in both arms of `if %s`" % (acc, short(n.test, 30))
                    if sa[0] == sb[0]:
                        rr.ok(f, construct, "both arms are %s over `%s`" % (sa[0], sa[1]), n.lineno)
                    else:
                        rr.bad(f, construct,
                               "one arm fills `%s` element by element (`%s`), the other converts the whole slice at once (`%s`): for a list of "
                               "arrays of different sizes the whole-slice conversion cannot build one array and raises, so the two "
                               "configurations accept different inputs" % (acc, sa[1] if sa[0] == "per-element" else sb[1], sb[1] if sb[0] == "whole" else sa[1]),
                               b[acc][0].lineno)
    return rr


# --------------------------------------------------------------------------- R2.6
_LIB_TRANSFORMS = {"sklearn.preprocessing.normalize", "numpy.power", "numpy.sqrt", "sklearn.preprocessing.scale"}


def _lib_facts(repo: Repo, c: Cls, entries) -> Dict[Tuple, List[Tuple[Func, ast.Call]]]:
    """(library callee, constant keyword arguments, configuration operands) for the library
    data transformations applied on the given entry paths."""
    out: Dict[Tuple, List[Tuple[Func, ast.Call]]] = {}
    tr = repo.resolve_method(c, "transform")
    for e in entries:
        for f in repo.reachable_from(c, e):
            if e != "transform" and f is tr:
                continue  # a fit path that delegates to self.transform says nothing about agreement
            for call in repo.calls_in(f):
                canon = repo.canonical(f.module, call.func)
                if canon not in _LIB_TRANSFORMS:
                    continue
                kws = tuple(sorted((k.arg, norm(k.value)) for k in call.keywords if k.arg and isinstance(k.value, ast.Constant)))
                # configuration operands: self.<ctor param> anywhere in the positional arguments after the data
                conf = tuple(sorted({"self." + a for x in call.args[1:] for a in self_attrs_in(x)}))
                if canon in ("numpy.power", "numpy.sqrt") and not conf and not any(self_attrs_in(x) for x in call.args):
                    continue  # plain arithmetic on locals
                if canon == "numpy.sqrt":
                    conf = tuple(sorted({"self." + a for x in call.args for a in self_attrs_in(x)}))
                out.setdefault((canon, kws, conf, _config_guards(repo, f, call)), []).append((f, call))
    return out


def _config_guards(repo: Repo, f: Func, call: ast.Call) -> Tuple[str, ...]:
    """Dominating tests of `call` that compare the estimator's configuration with a module-level object (the metric
    against `cosine`, ...), in name-free value form with their polarity.  Tests on plain string options are the
    input-format / method dispatch, which fit and transform organise differently, and are left out."""
    from .common import _assigned_names, ancestors, parents_map

    pm = parents_map(f.node)
    local = (_assigned_names(f) | set(f.params)) - {"self"}
    out = []
    prev: ast.AST = call
    for a in ancestors(call, pm):
        if isinstance(a, ast.If):
            in_body = any(prev is x or any(prev is y for y in ast.walk(x)) for x in a.body)
            conj = a.test.values if isinstance(a.test, ast.BoolOp) and isinstance(a.test.op, ast.And) and in_body else [a.test]
            for t in conj:
                if not (isinstance(t, ast.Compare) and len(t.ops) == 1 and isinstance(t.ops[0], (ast.Eq, ast.NotEq, ast.Is, ast.IsNot))):
                    continue
                sides = [t.left, t.comparators[0]]
                glob = [x for x in sides if isinstance(x, ast.Name) and x.id not in local and x.id in f.module.imports]
                if not glob:
                    continue
                txt = value_form(t, f, a)
                try:
                    names = {n.id for n in ast.walk(ast.parse(txt, mode="eval")) if isinstance(n, ast.Name)}
                except SyntaxError:
                    continue
                if any(n in local or (n.startswith("M") and n[1:].isdigit()) for n in names):
                    continue
                out.append(("" if in_body else "not ") + txt)
        prev = a
    return tuple(sorted(set(out)))


def r2_6(repo: Repo) -> RuleResult:
    rr = RuleResult("R2.6", "library data transformations on the transform path (normalize norm/axis, power exponents, scalings) are the ones used on the fit path", floor=10)
    seen: Set[Tuple[str, int]] = set()
    for c in exported_estimators(repo):
        ff = _lib_facts(repo, c, ("fit", "fit_transform"))
        tf = _lib_facts(repo, c, ("transform",))
        for key, sites in tf.items():
            canon, kws, conf, guards = key
            for f, call in sites:
                if (f.key, call.lineno) in seen:
                    continue
                seen.add((f.key, call.lineno))
                construct = "%s(%s)" % (canon.rsplit(".", 1)[1], ", ".join(["%s=%s" % kv for kv in kws] + list(conf)))
                if key in ff:
                    rr.ok(f, construct, "same transformation on the fit path (%s:%d)%s" % (ff[key][0][0].qualname, ff[key][0][1].lineno,
                                                                                        " under the same configuration test(s) %s" % list(guards) if guards else ""), call.lineno)
                elif any(k[:3] == key[:3] for k in ff):
                    other = sorted({k[3] for k in ff if k[:3] == key[:3]})
                    rr.bad(f, construct,
                           "the transform path applies %s under the configuration test(s) %s, the fit path of %s under %s: for the settings on "
                           "which the two differ, training data and new data go through different transformations"
                           % (construct, list(guards) or "none", c.name, [list(o) or "none" for o in other]), call.lineno)
                elif not any(k[0] == canon for k in ff):
                    # the fit path never applies this library transformation at all (e.g. a model that is fitted on
                    # raw counts and normalises rows only when transforming): nothing to disagree with
                    rr.ok(f, construct, "no %s call on the fit path of %s: not comparable" % (canon.rsplit(".", 1)[1], c.name), call.lineno, nontrivial=False)
                else:
                    same_callee = sorted({"%s(%s)" % (k[0].rsplit(".", 1)[1], ", ".join(["%s=%s" % kv for kv in k[1]] + list(k[2]))) for k in ff if k[0] == canon})
                    rr.bad(f, construct,
                           "the transform path applies %s, which the fit path of %s never does (fit path uses: %s): the training data and new "
                           "data go through different transformations" % (construct, c.name, same_callee or "no such call"), call.lineno)
    return rr


def r2_7(repo: Repo) -> RuleResult:
    """fit can return the estimator only if it returns at all: on no path through fit / fit_transform (and the
    non-compiled helpers they reach) is a local read before it is assigned."""
    from .common import definite_assignment_over

    rr = RuleResult("R2.7", "every local read on a fit / fit_transform path is assigned on all paths (no parameter setting makes fit raise UnboundLocalError)", floor=60)
    return definite_assignment_over(repo, rr, exported_estimators(repo), ("fit", "fit_transform"),
                                    "fit raises UnboundLocalError for the parameter settings / input formats that take that path")


def _alpha_block(loop: ast.For, f: Func) -> str:
    """Text of a loop's target and body with the function's locals named by first occurrence (a, b, c...)."""
    import copy
    from .common import _assigned_names

    local = _assigned_names(f) - set(f.params)
    order: Dict[str, str] = {}

    class R(ast.NodeTransformer):
        def visit_Name(self, node):
            if node.id in local:
                if node.id not in order:
                    order[node.id] = "v%d" % len(order)
                return ast.copy_location(ast.Name(id=order[node.id], ctx=node.ctx), node)
            return node

    tgt = norm(R().visit(copy.deepcopy(loop.target)))
    body = [norm(R().visit(copy.deepcopy(st))) for st in loop.body]
    return "for %s in ...:\n" % tgt + "\n".join(body)


def r2_8(repo: Repo) -> RuleResult:
    """Where fit and transform each carry their own copy of the loop that turns items into columns through the fitted
    dictionaries, the two copies must be the same loop (up to the names of locals and what they iterate over)."""
    rr = RuleResult("R2.8", "duplicated look-up loops of fit and transform (same fitted dictionaries) have the same body", floor=1)
    for c in exported_estimators(repo):
        fit, tr = repo.resolve_method(c, "fit"), repo.resolve_method(c, "transform")
        if fit is None or tr is None or fit is tr:
            continue

        def loops(f: Func):
            out = []
            for n in walk_no_nested(f.node):
                if isinstance(n, ast.For) and not any(isinstance(x, ast.For) for s_ in n.body for x in ast.walk(s_)):
                    attrs = frozenset(x.value.attr for x in ast.walk(n) if isinstance(x, ast.Subscript) and is_self_attr(x.value))
                    if attrs:
                        out.append((attrs, n))
            return out

        la, lb = loops(fit), loops(tr)
        for attrs, n1 in la:
            mates = [n2 for a2, n2 in lb if a2 == attrs]
            if len(mates) != 1:
                continue
            n2 = mates[0]
            a, b = _alpha_block(n1, fit), _alpha_block(n2, tr)
            construct = "look-up loop over %s" % ", ".join(sorted(attrs))
            if a == b:
                rr.ok(tr, construct, "fit (line %d) and transform (line %d) copies are the same loop" % (n1.lineno, n2.lineno), n2.lineno)
            else:
                import difflib

                d = [l for l in difflib.unified_diff(a.splitlines(), b.splitlines(), lineterm="", n=0) if l[:1] in "+-" and l[:3] not in ("+++", "---")]
                rr.bad(tr, construct,
                       "the copy in transform (line %d) differs from the copy in fit (line %d): %s - items are mapped to columns "
                       "differently by fit_transform and by transform" % (n2.lineno, n1.lineno, d[:4]), n2.lineno)
    return rr


CFC = "vectorizers/transformers/count_feature_compression.py"


def r2_9(repo: Repo) -> RuleResult:
    """CountFeatureCompressionTransformer: fit_transform returns u * c and transform returns (X' v^T) / c.  With the
    factorisation X' = u diag(s) v the two agree on the training data exactly when c * c = s, i.e. c = sqrt(s) - any
    other power of the singular values gives u s^p against u s^(1 - p)."""
    rr = RuleResult("R2.9", "the SVD scaling stored by fit_transform is the square root of the singular values (u * c on one side, / c on the other)", floor=1)
    c = repo.module(CFC).classes.get("CountFeatureCompressionTransformer")
    if c is None:
        raise AnalysisError("R2.9: CountFeatureCompressionTransformer not found")
    ft, tr = repo.resolve_method(c, "fit_transform"), repo.resolve_method(c, "transform")
    A = "component_scaling_"
    mul = [n for n in walk_no_nested(ft.node) if isinstance(n, ast.BinOp) and isinstance(n.op, ast.Mult) and any(is_self_attr(x, A) for x in (n.left, n.right))]
    div = [n for n in walk_no_nested(tr.node) if isinstance(n, ast.BinOp) and isinstance(n.op, ast.Div) and is_self_attr(n.right, A)]
    if not mul or not div:
        raise AnalysisError("R2.9: the `u * scaling` / `... / scaling` pair of CountFeatureCompressionTransformer not recognised")
    svals = set()
    for n in walk_no_nested(ft.node):
        if isinstance(n, ast.Assign) and isinstance(n.targets[0], ast.Tuple) and len(n.targets[0].elts) == 3 and isinstance(n.value, ast.Call) \
                and ("svd" in norm(n.value.func)):
            svals.add(norm(n.targets[0].elts[1]))
    if not svals:
        raise AnalysisError("R2.9: the (u, s, v) = ...svd... unpacking of fit_transform not recognised")
    for n in walk_no_nested(ft.node):
        if isinstance(n, ast.Assign) and any(is_self_attr(t, A) for t in n.targets):
            v = n.value
            if isinstance(v, ast.Call) and norm(v.func) in ("np.ones", "numpy.ones"):
                rr.ok(ft, "self.%s = %s" % (A, short(v, 40)), "no compression: scaling by ones on both sides", n.lineno, nontrivial=False)
                continue
            is_sqrt = (isinstance(v, ast.Call) and repo.canonical(ft.module, v.func) == "numpy.sqrt" and v.args and norm(v.args[0]) in svals) \
                or (isinstance(v, ast.Call) and repo.canonical(ft.module, v.func) == "numpy.power" and len(v.args) == 2 and norm(v.args[0]) in svals and norm(v.args[1]) == "0.5") \
                or (isinstance(v, ast.BinOp) and isinstance(v.op, ast.Pow) and norm(v.left) in svals and norm(v.right) == "0.5")
            construct = "self.%s = %s" % (A, short(v, 40))
            if is_sqrt:
                rr.ok(ft, construct, "c = sqrt(s): u * c == (u s) / c", n.lineno)
            else:
                rr.bad(ft, construct, "fit_transform returns u * c and transform divides by c, which agree only for c = sqrt(s); with c = `%s` the training "
                       "data come out as u s^p from fit_transform and u s^(1-p) from transform" % norm(v), n.lineno)
    return rr


RULES = [r2_1, r2_2, r2_3, r2_4, r2_5, r2_6, r2_7, r2_8, r2_9]

CLAIM = (
    "R2.1 every normal exit of every estimator's fit is `return self` (CFG); R2.2 fit/fit_transform are one pipeline "
    "(delegation with all read parameters passed through, or stand-alone copies with equal helper sequences, bound "
    "arguments and attribute write sets); R2.3 every repository function called from both the fit path and the "
    "transform path of a class gets the same configuration arguments (presence and closed-form equality of bound "
    "arguments, fitted state may replace configuration); R2.4 fit_transform may return its input unchanged only "
    "where transform can as well; R2.5 sibling branches filling the same accumulator consume their source the same way; R2.6 library data transformations (normalize norm/axis, power exponents, scalings by fitted values) on the transform path also occur on the fit path; R2.7 definite assignment (CFG dataflow) on every fit / fit_transform path and the non-compiled helpers it reaches; R2.8 fit and transform copies of a look-up loop over the same fitted dictionaries are the same loop (alpha-renamed bodies); R2.9 CountFeatureCompressionTransformer stores sqrt(s) as the scaling it multiplies by in fit_transform and divides by in transform (the only power for which the two agree)."
)
NOT_DECIDED = (
    "numerical equality of SVD outputs (u*s vs X @ V^T) and that BPE's incremental training merges equal the "
    "replay of the merge list - statements about values, not about the shape of the code."
)
