"""C18 - distances: finite, symmetric, sparse = dense (structural clauses)."""
from __future__ import annotations

import ast
from typing import Dict, List, Optional, Set, Tuple

from ..cfg import CFG
from ..model import AnalysisError, Func, Repo, short, walk_no_nested
from ..report import RuleResult
from .common import expand_locals, norm, single_defs, cfg_of, parents_map, enclosing_stmt

DIST = "vectorizers/distances.py"


def _one_minus(e: ast.AST) -> Optional[ast.AST]:
    """The q of a `1 - q` sub-expression, if any."""
    for n in ast.walk(e):
        if isinstance(n, ast.BinOp) and isinstance(n.op, ast.Sub) and isinstance(n.left, ast.Constant) \
                and n.left.value in (1, 1.0):
            return n.right
    return None


def _clamped(arg: ast.AST) -> bool:
    if isinstance(arg, ast.Call) and norm(arg.func) in ("np.maximum", "max", "numpy.maximum", "np.fmax") and len(arg.args) == 2:
        return any(isinstance(a, ast.Constant) and a.value in (0, 0.0) for a in arg.args)
    if isinstance(arg, ast.Call) and norm(arg.func) in ("np.clip", "numpy.clip"):
        return True
    if isinstance(arg, ast.Call) and norm(arg.func) in ("np.abs", "abs", "np.fabs"):
        return True
    return False


def r18_1(repo: Repo) -> RuleResult:
    rr = RuleResult("R18.1", "sqrt(1 - q) is dominated by a guard excluding q > 1 or is clamped, in every Hellinger variant", floor=2)
    m = repo.module(DIST)
    for f in m.all_funcs:
        g = None
        for call in repo.calls_in(f):
            if repo.canonical(f.module, call.func) != "numpy.sqrt" or not call.args:
                continue
            arg = call.args[0]
            full = expand_locals(arg, f, 2)
            q = _one_minus(full)
            if q is None:
                continue
            construct = "sqrt(%s)" % short(arg, 50)
            if _clamped(arg) or _clamped(full):
                rr.ok(f, construct, "argument clamped at zero", call.lineno)
                continue
            # guard: q = A / B ; a dominating test `A > B` (false edge) or `A <= B` (true edge)
            ok = False
            q_raw = _one_minus(arg) or q
            if isinstance(q_raw, ast.BinOp) and isinstance(q_raw.op, ast.Div):
                a, b = norm(q_raw.left), norm(q_raw.right)
                g = g or CFG(f.node)
                pm = parents_map(f.node)
                st = enclosing_stmt(call, pm)
                nid = g.node_for(st)
                defs = single_defs(f)

                def same(x: str, y: str) -> bool:
                    if x == y:
                        return True
                    return (x in defs and norm(defs[x]) == y) or (y in defs and norm(defs[y]) == x)

                from .common import rel_under

                for t, lab in g.guards_of(nid):
                    test = g.nodes[t].ast
                    if not isinstance(test, ast.AST):
                        continue
                    # the fact that holds on this edge, whichever way round (and however negated) the test is written
                    r_ = rel_under(test, lab)
                    if r_ is not None and r_[0] == "le" and same(r_[1], a) and same(r_[2], b):
                        ok = True  # a <= b, i.e. q = a / b <= 1
            if ok:
                rr.ok(f, construct, "dominated by a comparison that excludes q > 1", call.lineno)
            else:
                rr.bad(f, construct,
                       "sqrt of `1 - %s` with neither a clamp nor a dominating test that the quotient is <= 1: rounding makes "
                       "the Bhattacharyya coefficient of proportional vectors exceed 1 by an ulp and the result is NaN" % short(q, 60),
                       call.lineno)
    return rr


def _kind_of(f: Func, name: str, ind_params: Set[str]) -> str:
    """'element' (read out of an index array), 'position' (a counter), or 'unknown'."""
    vals = []
    aug = []
    for n in walk_no_nested(f.node):
        if isinstance(n, ast.Assign) and len(n.targets) == 1 and isinstance(n.targets[0], ast.Name) and n.targets[0].id == name:
            vals.append(n.value)
        if isinstance(n, ast.AugAssign) and isinstance(n.target, ast.Name) and n.target.id == name:
            aug.append(n)
    if vals and all(isinstance(v, ast.Subscript) and norm(v.value) in ind_params for v in vals) and not aug:
        return "element"
    if vals and all(isinstance(v, ast.Constant) and isinstance(v.value, int) for v in vals) and aug and all(
        isinstance(a.op, ast.Add) and isinstance(a.value, ast.Constant) for a in aug
    ):
        return "position"
    return "unknown"


def r18_2(repo: Repo) -> RuleResult:
    rr = RuleResult("R18.2", "stores into a merged index array carry index values (elements of the inputs), never positions", floor=4)
    m = repo.module(DIST)
    for f in m.all_funcs:
        sd = single_defs(f)
        # index result arrays: R = arr_union/arr_intersect(indA, indB)  (possibly re-sliced later)
        results = {}
        for n in walk_no_nested(f.node):
            if isinstance(n, ast.Assign) and isinstance(n.value, ast.Call) and norm(n.value.func) in ("arr_union", "arr_intersect") \
                    and isinstance(n.targets[0], ast.Name):
                results[n.targets[0].id] = {norm(a) for a in n.value.args} | {norm(k.value) for k in n.value.keywords}
        for rname, inds in results.items():
            stores = [n for n in walk_no_nested(f.node) if isinstance(n, ast.Assign) and isinstance(n.targets[0], ast.Subscript)
                      and norm(n.targets[0].value) == rname]
            for st in stores:
                rhs = st.value
                construct = "%s[%s] = %s" % (rname, norm(st.targets[0].slice), norm(rhs))
                if isinstance(rhs, ast.Name):
                    k = _kind_of(f, rhs.id, inds)
                elif isinstance(rhs, ast.Subscript) and norm(rhs.value) in inds:
                    k = "element"
                else:
                    k = "unknown"
                # the loop the store sits in tells which input the tail belongs to
                if k == "element":
                    rr.ok(f, construct, "right-hand side is read out of an input index array", st.lineno)
                elif k == "position":
                    rr.bad(f, construct,
                           "`%s` is a position counter (initialised to 0, advanced by += 1), but %s holds column indices: the "
                           "tail of the longer input is written with positions instead of its indices" % (norm(rhs), rname), st.lineno)
                else:
                    raise AnalysisError("R18.2: cannot classify `%s` stored into %s in %s" % (norm(rhs), rname, f.key))
    return rr


def _zero_cases(f: Func) -> Set[Tuple[str, int, str]]:
    """What the function returns when both / exactly one of its two mass totals are zero, decided by *evaluating* its
    top-level tests of the form `<total> == 0` (combined with and / or / not) for those cases - so an if / elif chain,
    separate ifs and un-nested returns all read alike.  Result: {('both', 2, const), ('one', 1, const), ...}."""
    totals: List[str] = []
    for n in walk_no_nested(f.node):
        if isinstance(n, ast.Compare) and len(n.ops) == 1 and isinstance(n.ops[0], (ast.Eq, ast.NotEq)) and norm(n.comparators[0]) in ("0", "0.0") \
                and isinstance(n.left, ast.Name) and n.left.id not in totals:
            totals.append(n.left.id)
    if len(totals) != 2:
        return set()

    def truth(t: ast.AST, zero: Set[str]) -> Optional[bool]:
        if isinstance(t, ast.UnaryOp) and isinstance(t.op, ast.Not):
            v = truth(t.operand, zero)
            return None if v is None else not v
        if isinstance(t, ast.BoolOp):
            vals = [truth(v, zero) for v in t.values]
            if any(v is None for v in vals):
                return None
            return all(vals) if isinstance(t.op, ast.And) else any(vals)
        if isinstance(t, ast.Compare) and len(t.ops) == 1 and isinstance(t.left, ast.Name) and t.left.id in totals and norm(t.comparators[0]) in ("0", "0.0"):
            if isinstance(t.ops[0], ast.Eq):
                return t.left.id in zero
            if isinstance(t.ops[0], ast.NotEq):
                return t.left.id not in zero
        return None

    def run(stmts, zero: Set[str]) -> Optional[str]:
        for st in stmts:
            if isinstance(st, ast.If):
                v = truth(st.test, zero)
                if v is None:
                    continue  # a test about something else (e.g. the Bhattacharyya bound): not a zero-mass case
                r = run(st.body if v else st.orelse, zero)
                if r is not None:
                    return r
            elif isinstance(st, ast.Return):
                return repr(float(st.value.value)) if isinstance(st.value, ast.Constant) and isinstance(st.value.value, (int, float)) else "<computed>"
        return None

    out = set()
    a, b = totals
    for label, n_zero, zero in (("both", 2, {a, b}), ("one", 1, {a}), ("one", 1, {b})):
        r = run(f.node.body, zero)
        if r is not None and r != "<computed>":
            out.add((label, n_zero, r))
    return out


def r18_3(repo: Repo) -> RuleResult:
    rr = RuleResult("R18.3", "each dense/sparse pair handles the same zero-mass cases with the same return values", floor=2)
    for dense, sparse in (("hellinger", "sparse_hellinger"), ("total_variation", "sparse_total_variation")):
        d, s = repo.func(DIST, dense), repo.func(DIST, sparse)
        zd, zs = _zero_cases(d), _zero_cases(s)
        if zd == zs:
            rr.ok(s, "%s vs %s" % (dense, sparse), "zero-mass cases agree: %s" % sorted(zd), s.node.lineno, nontrivial=bool(zd))
        else:
            rr.bad(s, "%s vs %s" % (dense, sparse), "zero-mass handling differs: dense %s, sparse %s" % (sorted(zd), sorted(zs)), s.node.lineno)
    return rr


# --------------------------------------------------------------------------- R18.4 syntactic symmetry
import copy as _copy

SYMMETRIC = ("hellinger", "total_variation", "jensen_shannon_divergence", "symmetric_kl_divergence", "kantorovich1d")


def _swap_id(name: str, a: str, b: str) -> str:
    toks = name.split("_")
    return "_".join(b if t == a else a if t == b else t for t in toks)


_PAIR = ["x", "y"]


class _Swap(ast.NodeTransformer):
    def __init__(self, a, b):
        self.a, self.b = a, b

    def visit_Name(self, node):
        node.id = _swap_id(node.id, self.a, self.b)
        return node


def _canon(e: ast.AST, signfree: Set[str]) -> str:
    """Canonical text modulo commutativity of + * and/or ==, and the sign of differences under abs / squares."""
    if isinstance(e, ast.BinOp) and isinstance(e.op, (ast.Add, ast.Mult)):
        # flatten
        items = []

        def flat(x):
            if isinstance(x, ast.BinOp) and type(x.op) is type(e.op):
                flat(x.left)
                flat(x.right)
            else:
                items.append(_canon(x, signfree))

        flat(e)
        return "(" + (" + " if isinstance(e.op, ast.Add) else " * ").join(sorted(items)) + ")"
    if isinstance(e, ast.BinOp):
        return "(%s %s %s)" % (_canon(e.left, signfree), type(e.op).__name__, _canon(e.right, signfree))
    if isinstance(e, ast.BoolOp):
        return "(" + (" and " if isinstance(e.op, ast.And) else " or ").join(sorted(_canon(v, signfree) for v in e.values)) + ")"
    if isinstance(e, ast.Compare) and len(e.ops) == 1 and isinstance(e.ops[0], (ast.Eq, ast.NotEq)):
        return "(%s %s %s)" % tuple(sorted([_canon(e.left, signfree), _canon(e.comparators[0], signfree)])[:1] + [type(e.ops[0]).__name__] + sorted([_canon(e.left, signfree), _canon(e.comparators[0], signfree)])[1:])
    if isinstance(e, ast.Call):
        fn = norm(e.func)
        args = list(e.args)
        if fn in ("np.abs", "abs", "np.fabs") and len(args) == 1 and isinstance(args[0], ast.BinOp) and isinstance(args[0].op, ast.Sub):
            # |u - v| = |v - u| ; extra subtracted terms keep their place
            u, v = args[0].left, args[0].right
            return "%s(DIFF{%s})" % (fn, " , ".join(sorted([_canon(u, signfree), _canon(v, signfree)])))
        return "%s(%s)" % (fn, ", ".join([_canon(a, signfree) for a in args] + ["%s=%s" % (k.arg, _canon(k.value, signfree)) for k in e.keywords]))
    if isinstance(e, ast.Subscript):
        # both arguments have the same length by contract: <x-ish>.shape[0] and <y-ish>.shape[0] are one dimension
        if isinstance(e.value, ast.Attribute) and e.value.attr == "shape" and norm(e.slice) == "0" and isinstance(e.value.value, ast.Name):
            nm = e.value.value.id
            if _swap_id(nm, _PAIR[0], _PAIR[1]) != nm:
                return "DIM"
        return "%s[%s]" % (_canon(e.value, signfree), _canon(e.slice, signfree))
    if isinstance(e, ast.Attribute):
        return "%s.%s" % (_canon(e.value, signfree), e.attr)
    if isinstance(e, ast.UnaryOp):
        return "%s(%s)" % (type(e.op).__name__, _canon(e.operand, signfree))
    if isinstance(e, ast.Tuple):
        return "(%s)" % ", ".join(_canon(x, signfree) for x in e.elts)
    return norm(e)


def _stmt_facts(f: Func, fn_node: ast.FunctionDef) -> List[str]:
    # names used only as v*v / abs(v) / v**2: the sign of their defining difference is irrelevant
    loads: Dict[str, List[ast.AST]] = {}
    pm = parents_map(fn_node)
    for n in ast.walk(fn_node):
        if isinstance(n, ast.Name) and isinstance(n.ctx, ast.Load):
            loads.setdefault(n.id, []).append(n)
    signfree = set()
    for name, nodes in loads.items():
        ok = True
        for n in nodes:
            par = pm.get(id(n))
            if isinstance(par, ast.BinOp) and isinstance(par.op, ast.Mult) and norm(par.left) == norm(par.right) == name:
                continue
            if isinstance(par, ast.Call) and norm(par.func) in ("np.abs", "abs"):
                continue
            ok = False
        if ok and nodes:
            signfree.add(name)
    facts = []

    def walk(stmts, ctx):
        for st in stmts:
            if isinstance(st, ast.If):
                c = ctx + ("if " + _canon(st.test, signfree),)
                walk(st.body, c + ("T",))
                walk(st.orelse, c + ("F",))
            elif isinstance(st, (ast.For, ast.While)):
                hdr = "for %s in %s" % (norm(st.target), _canon(st.iter, signfree)) if isinstance(st, ast.For) else "while " + _canon(st.test, signfree)
                walk(st.body, ctx + (hdr,))
            elif isinstance(st, ast.Assign):
                tgt = norm(st.targets[0])
                v = st.value
                if isinstance(st.targets[0], ast.Name) and st.targets[0].id in signfree and isinstance(v, ast.BinOp) and isinstance(v.op, ast.Sub):
                    val = "DIFF{%s}" % " , ".join(sorted([_canon(v.left, signfree), _canon(v.right, signfree)]))
                else:
                    val = _canon(v, signfree)
                facts.append(" | ".join(ctx) + " :: %s = %s" % (tgt, val))
            elif isinstance(st, ast.AugAssign):
                facts.append(" | ".join(ctx) + " :: %s %s= %s" % (norm(st.target), type(st.op).__name__, _canon(st.value, signfree)))
            elif isinstance(st, ast.Return):
                facts.append(" | ".join(ctx) + " :: return %s" % (_canon(st.value, signfree) if st.value is not None else ""))
            elif isinstance(st, ast.Raise):
                facts.append(" | ".join(ctx) + " :: raise")
            elif isinstance(st, ast.Expr) and isinstance(st.value, ast.Constant):
                continue
            else:
                facts.append(" | ".join(ctx) + " :: " + norm(st))

    walk(fn_node.body, ())
    return sorted(facts)


def r18_4(repo: Repo) -> RuleResult:
    rr = RuleResult("R18.4", "each distance is syntactically symmetric in its two arguments (modulo commutativity and the sign of differences under abs / squares)", floor=5)
    for name in SYMMETRIC:
        f = repo.func(DIST, name)
        a, b = f.params[0], f.params[1]
        _PAIR[0], _PAIR[1] = a, b
        orig = _stmt_facts(f, f.node)
        swapped_node = _Swap(a, b).visit(_copy.deepcopy(f.node))
        swapped = _stmt_facts(f, swapped_node)
        if orig == swapped:
            rr.ok(f, "swap(%s, %s)" % (a, b), "%d statements map onto themselves when the arguments are exchanged" % len(orig), f.node.lineno)
        else:
            only_o = [x for x in orig if x not in swapped]
            only_s = [x for x in swapped if x not in orig]
            rr.bad(f, "swap(%s, %s)" % (a, b),
                   "the body is not invariant under exchanging `%s` and `%s`: %s has no counterpart (after the exchange it reads %s), so d(x, y) and d(y, x) are computed differently"
                   % (a, b, [x.split(" :: ")[-1][:80] for x in only_o][:2], [x.split(" :: ")[-1][:80] for x in only_s][:2]), f.node.lineno)
    return rr


_FLOAT_DTYPES = {"numpy.float32", "numpy.float64", "numpy.double", "numpy.single", "float"}
_ALLOC = {"numpy.zeros", "numpy.empty", "numpy.ones", "numpy.full"}


def _param_sources(f: Func, e: ast.AST, params: Set[str]) -> Set[str]:
    """Parameters a value may be computed from (flow-insensitive closure over every assignment to the locals it names)."""
    defs: Dict[str, List[ast.AST]] = {}
    for n in walk_no_nested(f.node):
        if isinstance(n, ast.Assign):
            for t in n.targets:
                if isinstance(t, ast.Name):
                    defs.setdefault(t.id, []).append(n.value)
        elif isinstance(n, ast.AugAssign) and isinstance(n.target, ast.Name):
            defs.setdefault(n.target.id, []).append(n.value)
    out: Set[str] = set()
    seen: Set[str] = set()
    work = [e]
    while work:
        x = work.pop()
        for nm in ast.walk(x):
            if isinstance(nm, ast.Name):
                if nm.id in params:
                    out.add(nm.id)
                elif nm.id in defs and nm.id not in seen:
                    seen.add(nm.id)
                    work.extend(defs[nm.id])
    return out


def r18_5(repo: Repo) -> RuleResult:
    """A value buffer of the sparse helpers must be able to hold what is stored in it.  A literal floating dtype can;
    a dtype borrowed from one operand can hold only that operand's values - a sum or product with the other operand
    stored into it is truncated when the borrowed dtype is an integer (raw counts against a normalised row)."""
    from .common import expand_locals, kw

    rr = RuleResult("R18.5", "value buffers of the sparse helpers have a floating dtype, or a dtype borrowed from the only operand stored in them", floor=4)
    m = repo.module(DIST)
    for f in m.all_funcs:
        if not f.is_njit:
            continue
        params = set(f.params)
        for n in walk_no_nested(f.node):
            if not (isinstance(n, ast.Assign) and len(n.targets) == 1 and isinstance(n.targets[0], ast.Name) and isinstance(n.value, ast.Call)
                    and repo.canonical(f.module, n.value.func) in _ALLOC):
                continue
            buf = n.targets[0].id
            srcs: Set[str] = set()
            n_stores = 0
            for st in walk_no_nested(f.node):
                tgt = st.targets[0] if isinstance(st, ast.Assign) and len(st.targets) == 1 else (st.target if isinstance(st, ast.AugAssign) else None)
                if isinstance(tgt, ast.Subscript) and norm(tgt.value) == buf:
                    n_stores += 1
                    srcs |= _param_sources(f, st.value, params)
            if not srcs:
                continue  # not a buffer of operand values
            d = kw(n.value, "dtype")
            if d is None and len(n.value.args) >= 2:
                d = n.value.args[1]
            construct = "%s = %s" % (buf, short(n.value, 60))
            if d is None:
                rr.ok(f, construct, "default dtype (float64)", n.lineno)
            elif repo.canonical(f.module, d) in _FLOAT_DTYPES or (isinstance(d, ast.Constant) and str(d.value).startswith("float")):
                rr.ok(f, construct, "literal floating dtype; %d store(s) of values from %s" % (n_stores, sorted(srcs)), n.lineno)
            elif isinstance(d, ast.Attribute) and d.attr == "dtype" and isinstance(d.value, ast.Name) and d.value.id in params:
                if srcs <= {d.value.id}:
                    rr.ok(f, construct, "dtype of `%s`, the only operand stored in it" % d.value.id, n.lineno)
                else:
                    rr.bad(f, construct,
                           "the buffer takes the dtype of `%s` but receives values computed from %s: when `%s` is an integer array (raw "
                           "counts) and the other operand is floating, sums / products are truncated on the store and the result "
                           "depends on the argument order" % (d.value.id, sorted(srcs), d.value.id), n.lineno)
            else:
                raise AnalysisError("R18.5: dtype `%s` of value buffer %s in %s not classified" % (norm(d), buf, f.key))
    return rr


def r18_6(repo: Repo) -> RuleResult:
    """The cumulative distributions of the Kantorovich distances are running sums over the whole dimension.  np.cumsum
    accumulates in the dtype of its operand, so applied to the raw input it runs in float32 for the float32 rows the
    vectorizers emit and the rounding drift reaches 1e-4 at dimension 500 (the property asks for 1e-6 on proportional
    inputs); the operand must be the normalised (float64) array, or the call must carry dtype=np.float64."""
    from .common import kw

    rr = RuleResult("R18.6", "running sums of the Kantorovich distances accumulate in float64 (no np.cumsum over the raw input without dtype)", floor=2)
    for name in ("kantorovich1d", "circular_kantorovich"):
        f = repo.func(DIST, name)
        calls = [c for c in repo.calls_in(f) if repo.canonical(f.module, c.func) == "numpy.cumsum" or (isinstance(c.func, ast.Attribute) and c.func.attr == "cumsum")]
        if not calls:
            rr.ok(f, "running sum", "accumulated by an explicit loop over the normalised array", f.node.lineno)
            continue
        for c in calls:
            operand = c.args[0] if (c.args and not (isinstance(c.func, ast.Attribute) and c.func.attr == "cumsum" and norm(c.func.value) not in ("np", "numpy"))) else c.func.value
            d = kw(c, "dtype")
            raw = isinstance(operand, ast.Name) and operand.id in f.params
            construct = "cumsum(%s)" % short(operand, 30)
            if d is not None and norm(d).endswith("float64"):
                rr.ok(f, construct, "dtype=float64", c.lineno)
            elif raw:
                rr.bad(f, construct, "np.cumsum over the raw input `%s` accumulates in its dtype: float32 rows drift by 1e-6..1e-4 with the dimension, so the "
                       "distance of proportional vectors no longer vanishes to 1e-6 and differs from the float64 value" % operand.id, c.lineno)
            else:
                rr.ok(f, construct, "operand is a derived (normalised) array", c.lineno)
    return rr


RULES = [r18_1, r18_2, r18_3, r18_4, r18_5, r18_6]
CLAIM = (
    "R18.1 every sqrt(1 - q) in distances.py is clamped or dominated (CFG edge dominance) by a comparison excluding q > 1; "
    "R18.2 kind check (position vs element) on every store into the merged index array of sparse_sum / sparse_mul; "
    "R18.3 dense and sparse Hellinger / total-variation handle the same zero-mass cases with the same constants; R18.4 the five dense distances are syntactically invariant under exchanging their arguments (statement multisets modulo commutativity and the sign of differences under abs / squares); "
    "R18.5 every value buffer of the sparse helpers has a literal floating dtype or the dtype of the only operand stored in it; R18.6 the running sums of the Kantorovich distances are not an np.cumsum over the raw (possibly float32) input."
)
NOT_DECIDED = "symmetry beyond the syntactic invariance of R18.4, the triangle inequality, vanishing on proportional inputs and closeness of sparse and dense values - numerical statements."
