"""Helpers shared by the rule modules."""
from __future__ import annotations

import ast
from typing import Dict, Iterable, List, Optional, Sequence, Set, Tuple

from ..model import AnalysisError, Cls, Func, Repo, dotted, is_self_attr, short, unparse, walk_no_nested
from ..cfg import CFG, target_names

ENTRY_METHODS = ("fit", "fit_transform", "transform")


def parents_map(root: ast.AST) -> Dict[int, ast.AST]:
    out: Dict[int, ast.AST] = {}
    for n in ast.walk(root):
        for c in ast.iter_child_nodes(n):
            out[id(c)] = n
    return out


def ancestors(node: ast.AST, pm: Dict[int, ast.AST]) -> List[ast.AST]:
    out = []
    cur = pm.get(id(node))
    while cur is not None:
        out.append(cur)
        cur = pm.get(id(cur))
    return out


def enclosing_stmt(node: ast.AST, pm: Dict[int, ast.AST]) -> ast.stmt:
    cur = node
    while cur is not None and not isinstance(cur, ast.stmt):
        cur = pm.get(id(cur))
    return cur


def cfg_of(f: Func, cache: Dict[Func, CFG] = {}) -> CFG:
    g = cache.get(f)
    if g is None or g.fn is not f.node:
        g = CFG(f.node)
        cache[f] = g
    return g


def exported_estimators(repo: Repo) -> List[Cls]:
    return [c for c in repo.exported_classes() if repo.is_estimator(c)]


def surface_estimators(repo: Repo) -> List[Cls]:
    return repo.estimator_classes(surface_only=True)


def reach(repo: Repo, c: Cls, entry: str) -> List[Func]:
    return repo.reachable_from(c, entry)


def transform_reachable_all(repo: Repo) -> Dict[Func, List[Cls]]:
    out: Dict[Func, List[Cls]] = {}
    for c in exported_estimators(repo):
        for f in reach(repo, c, "transform"):
            out.setdefault(f, []).append(c)
    return out


def fit_reachable_all(repo: Repo) -> Dict[Func, List[Cls]]:
    out: Dict[Func, List[Cls]] = {}
    for c in exported_estimators(repo):
        for e in ("fit", "fit_transform"):
            for f in reach(repo, c, e):
                lst = out.setdefault(f, [])
                if c not in lst:
                    lst.append(c)
    return out


def calls_to(repo: Repo, f: Func, target: Func, cls_ctx: Optional[Cls] = None) -> List[ast.Call]:
    out = []
    for call in repo.calls_in(f):
        if target in [t for t in repo.resolve_call(f, call, cls_ctx) if isinstance(t, Func)]:
            out.append(call)
    return out


def canonical_call(repo: Repo, f: Func, call: ast.Call) -> Optional[str]:
    return repo.canonical(f.module, call.func)


def single_defs(f: Func) -> Dict[str, ast.AST]:
    """Locals assigned exactly once in f by a plain ``name = expr`` (not in a loop
    target, not augmented, not a parameter)."""
    counts: Dict[str, int] = {}
    values: Dict[str, ast.AST] = {}
    for n in walk_no_nested(f.node):
        if isinstance(n, ast.Assign):
            for t in n.targets:
                for name in target_names(t):
                    counts[name] = counts.get(name, 0) + 1
                if isinstance(t, ast.Name):
                    values[t.id] = n.value
        elif isinstance(n, (ast.AugAssign, ast.AnnAssign)):
            for name in target_names(n.target):
                counts[name] = counts.get(name, 0) + 2
        elif isinstance(n, ast.For):
            for name in target_names(n.target):
                counts[name] = counts.get(name, 0) + 2
        elif isinstance(n, ast.With):
            for item in n.items:
                if item.optional_vars is not None:
                    for name in target_names(item.optional_vars):
                        counts[name] = counts.get(name, 0) + 2
    params = set(f.params)
    return {k: v for k, v in values.items() if counts.get(k) == 1 and k not in params}


class _Subst(ast.NodeTransformer):
    """Substitute Name loads; names re-bound by a comprehension or lambda are left
    alone inside it (they are a different variable there)."""

    def __init__(self, mapping: Dict[str, ast.AST]):
        self.mapping = mapping

    def _scoped(self, node, bound):
        hidden = {k: self.mapping.pop(k) for k in list(self.mapping) if k in bound}
        try:
            return self.generic_visit(node)
        finally:
            self.mapping.update(hidden)

    def _comp(self, node):
        bound = set()
        for g in node.generators:
            bound |= set(target_names(g.target))
        return self._scoped(node, bound)

    visit_ListComp = visit_SetComp = visit_GeneratorExp = visit_DictComp = _comp

    def visit_Lambda(self, node):
        a = node.args
        return self._scoped(node, {p.arg for p in a.posonlyargs + a.args + a.kwonlyargs})

    def visit_Name(self, node: ast.Name):
        if isinstance(node.ctx, ast.Load) and node.id in self.mapping:
            import copy

            return copy.deepcopy(self.mapping[node.id])
        return node


def expand_locals(expr: ast.AST, f: Func, depth: int = 3) -> ast.AST:
    """Replace single-definition locals by their defining expression (bounded)."""
    import copy

    defs = single_defs(f)
    cur = copy.deepcopy(expr)
    for _ in range(depth):
        names = {n.id for n in ast.walk(cur) if isinstance(n, ast.Name) and n.id in defs}
        if not names:
            break
        cur = _Subst({k: defs[k] for k in names}).visit(cur)
        ast.fix_missing_locations(cur)
    return cur


def norm(expr: ast.AST) -> str:
    return " ".join(unparse(expr).split())


def names_in(expr: ast.AST) -> Set[str]:
    return {n.id for n in ast.walk(expr) if isinstance(n, ast.Name)}


def tainted_names(f: Func, seeds: Iterable[str]) -> Set[str]:
    """Flow-insensitive closure: names assigned from expressions mentioning a tainted
    name (or iterating over one) are tainted."""
    tainted = set(seeds)
    changed = True
    while changed:
        changed = False
        for n in walk_no_nested(f.node):
            srcs: Set[str] = set()
            tgts: List[str] = []
            if isinstance(n, ast.Assign):
                srcs = names_in(n.value)
                for t in n.targets:
                    tgts += target_names(t)
            elif isinstance(n, ast.AugAssign):
                srcs = names_in(n.value)
                tgts = target_names(n.target)
            elif isinstance(n, (ast.For, ast.comprehension)):
                srcs = names_in(n.iter)
                tgts = target_names(n.target)
            elif isinstance(n, ast.Call) and isinstance(n.func, ast.Attribute) and isinstance(n.func.value, ast.Name) \
                    and n.func.attr in ("append", "extend", "add", "update", "insert"):
                # accumulators filled with tainted values are tainted
                for a in n.args:
                    srcs |= names_in(a)
                tgts = [n.func.value.id]
            if isinstance(n, (ast.Assign, ast.AugAssign)):
                # container[key] = value with a tainted key or value taints the container
                for t in (n.targets if isinstance(n, ast.Assign) else [n.target]):
                    if isinstance(t, ast.Subscript) and isinstance(t.value, ast.Name):
                        if (names_in(t.slice) | names_in(n.value)) & tainted and t.value.id not in tainted:
                            tainted.add(t.value.id)
                            changed = True
            if srcs & tainted:
                for t in tgts:
                    if t not in tainted:
                        tainted.add(t)
                        changed = True
    return tainted


def loop_level_jumps(loop: ast.For) -> List[ast.stmt]:
    """continue/break statements that belong to `loop` itself (not to inner loops)
    plus return statements anywhere inside."""
    out: List[ast.stmt] = []

    def go(stmts, inner: bool):
        for s in stmts:
            if isinstance(s, (ast.FunctionDef, ast.AsyncFunctionDef, ast.ClassDef)):
                continue
            if isinstance(s, ast.Return):
                out.append(s)
            elif isinstance(s, (ast.Continue, ast.Break)) and not inner:
                out.append(s)
            elif isinstance(s, (ast.For, ast.While)):
                go(s.body, True)
                go(s.orelse, inner)
            else:
                for fld in ("body", "orelse", "finalbody"):
                    go(getattr(s, fld, []) or [], inner)
                for h in getattr(s, "handlers", []) or []:
                    go(h.body, inner)

    go(loop.body, False)
    return out


def method_call(node: ast.AST, attr: Optional[str] = None) -> Optional[Tuple[ast.AST, str, ast.Call]]:
    """(receiver, method name, call) if node is ``recv.method(...)`` (optionally
    wrapped in an Expr statement)."""
    if isinstance(node, ast.Expr):
        node = node.value
    if isinstance(node, ast.Call) and isinstance(node.func, ast.Attribute):
        if attr is None or node.func.attr == attr:
            return node.func.value, node.func.attr, node
    return None


def kw(call: ast.Call, name: str) -> Optional[ast.AST]:
    for k in call.keywords:
        if k.arg == name:
            return k.value
    return None


# ---------------------------------------------------------------- relational facts
def rel_of(e: ast.AST):
    """Canonical relational fact of a single-operator comparison: ('lt'|'le', small, large) for orderings,
    ('eq'|'ne', frozenset({a, b})) for equalities - independent of the way round the comparison is written."""
    if not (isinstance(e, ast.Compare) and len(e.ops) == 1):
        return None
    a, b, op = norm(e.left), norm(e.comparators[0]), e.ops[0]
    if isinstance(op, ast.Lt):
        return ("lt", a, b)
    if isinstance(op, ast.LtE):
        return ("le", a, b)
    if isinstance(op, ast.Gt):
        return ("lt", b, a)
    if isinstance(op, ast.GtE):
        return ("le", b, a)
    if isinstance(op, ast.Eq):
        return ("eq", frozenset((a, b)))
    if isinstance(op, ast.NotEq):
        return ("ne", frozenset((a, b)))
    return None


def rel_negate(r):
    if r is None:
        return None
    if r[0] == "lt":
        return ("le", r[2], r[1])
    if r[0] == "le":
        return ("lt", r[2], r[1])
    if r[0] == "eq":
        return ("ne", r[1])
    if r[0] == "ne":
        return ("eq", r[1])
    return None


def rel_under(test: ast.AST, label: str):
    """The relational fact that holds on the `label` ('true' / 'false') edge of a test (leading `not`s folded)."""
    pos = label in ("true", "iter")
    while isinstance(test, ast.UnaryOp) and isinstance(test.op, ast.Not):
        test, pos = test.operand, not pos
    r = rel_of(test)
    return r if pos else rel_negate(r)


# ---------------------------------------------------------------- name-free value forms
class _LoopVarCanon(ast.NodeTransformer):
    """Loop variables -> `<iteration source>.position`; comprehension variables are named the same way, so a list
    built by a comprehension and one built by a loop of appends read alike."""

    def __init__(self, mapping: Dict[str, str]):
        self.mapping = mapping

    def _comp(self, node):
        saved = self.mapping
        self.mapping = dict(saved)
        for g in node.generators:
            g.iter = self.visit(g.iter)
            src = norm(g.iter)
            elts: List[ast.AST] = []

            def flat(t):
                if isinstance(t, (ast.Tuple, ast.List)):
                    for e_ in t.elts:
                        flat(e_)
                else:
                    elts.append(t)

            flat(g.target)
            for k, t in enumerate(elts):
                if isinstance(t, ast.Name):
                    canon = "<%s>.%d" % (src, k)
                    while canon in self.mapping.values():
                        canon += "'"
                    self.mapping[t.id] = canon
            g.target = self.visit(g.target)
            g.ifs = [self.visit(i) for i in g.ifs]
        if isinstance(node, ast.DictComp):
            node.key = self.visit(node.key)
            node.value = self.visit(node.value)
        else:
            node.elt = self.visit(node.elt)
        self.mapping = saved
        return node

    visit_ListComp = visit_SetComp = visit_GeneratorExp = visit_DictComp = _comp

    def visit_Name(self, node):
        if node.id in self.mapping:
            return ast.copy_location(ast.Name(id=self.mapping[node.id], ctx=node.ctx), node)
        return node


def _loop_targets(f: Func) -> Dict[str, List[Tuple[ast.AST, int]]]:
    """Names bound by a for target or by tuple unpacking, with the binding statement and the position."""
    out: Dict[str, List[Tuple[ast.AST, int]]] = {}
    for n in walk_no_nested(f.node):
        if isinstance(n, ast.Assign) and len(n.targets) == 1 and isinstance(n.targets[0], (ast.Tuple, ast.List)):
            # a, b = <value>: the k-th component of that value
            for k, t in enumerate(n.targets[0].elts):
                if isinstance(t, ast.Name):
                    out.setdefault(t.id, []).append((n, k))
        if isinstance(n, ast.For):
            elts = []

            def flat(t):
                if isinstance(t, (ast.Tuple, ast.List)):
                    for e in t.elts:
                        flat(e)
                else:
                    elts.append(t)

            flat(n.target)
            for k, t in enumerate(elts):
                if isinstance(t, ast.Name):
                    out.setdefault(t.id, []).append((n, k))
    return out


def value_form(e: ast.AST, f: Func, at: Optional[ast.AST] = None, depth: int = 4, _level: int = 0) -> str:
    return norm(_value_ast(e, f, at, depth, _level))


def _value_ast(e: ast.AST, f: Func, at: Optional[ast.AST] = None, depth: int = 4, _level: int = 0) -> ast.AST:
    """Text of `e` that does not depend on how f names its locals: single-definition locals are replaced by their
    definitions, loop variables by `<iteration source>.position`, comprehension variables by their nesting position.
    `at` (a node of f at which e is evaluated) selects the enclosing loop when a loop variable name is reused."""
    import copy

    x = expand_locals(e, f, depth)
    lt = _loop_targets(f)
    mapping: Dict[str, str] = {}
    picked: List[Tuple[int, str, str]] = []
    used = {n.id for n in ast.walk(x) if isinstance(n, ast.Name)}
    enclosing: List[ast.AST] = []
    if at is not None:
        pm = parents_map(f.node)
        enclosing = [a for a in ancestors(at, pm) if isinstance(a, ast.For)]
    for name in used & set(lt):
        cands = lt[name]
        pick = None
        if len(cands) == 1:
            pick = cands[0]
        else:
            for a in enclosing:
                hit = [c for c in cands if c[0] is a]
                if hit:
                    pick = hit[0]
                    break
            if pick is None:
                forms = {(value_form(_src_of(c[0]), f, c[0], depth, _level + 1) if _level < 3 else norm(_src_of(c[0])), c[1]) for c in cands}
                if len(forms) == 1:
                    pick = cands[0]
        if pick is not None:
            loop, k = pick
            if isinstance(loop, ast.Assign) and isinstance(loop.value, ast.Call):
                # a, b = g(...): "component k of the n-th call of g"; the arguments of that call are a fact of their own
                ftxt = norm(loop.value.func)
                same = sorted((c_.lineno, c_.col_offset) for c_ in walk_no_nested(f.node) if isinstance(c_, ast.Call) and norm(c_.func) == ftxt)
                src = "%s(...)#%d" % (ftxt, same.index((loop.value.lineno, loop.value.col_offset)))
            else:
                src = value_form(_src_of(loop), f, loop, depth, _level + 1) if _level < 3 else norm(_src_of(loop))
            picked.append((loop.lineno, name, "<%s>.%d" % (src, k)))
    for _, name, canon in sorted(picked):
        while canon in mapping.values():
            canon += "'"
        mapping[name] = canon
    y = _LoopVarCanon(mapping).visit(copy.deepcopy(x))
    # what is left are locals with several definitions: named by first occurrence inside this expression
    assigned = _assigned_names(f) - set(f.params)
    order: Dict[str, str] = {}

    class Rest(ast.NodeTransformer):
        def visit_Name(self, node):
            if node.id in assigned:
                if node.id not in order:
                    order[node.id] = "M%d" % len(order)
                return ast.copy_location(ast.Name(id=order[node.id], ctx=node.ctx), node)
            return node

    return Rest().visit(y) if _level == 0 else y


def _src_of(binder: ast.AST) -> ast.AST:
    return binder.iter if isinstance(binder, ast.For) else binder.value


def _assigned_names(f: Func) -> Set[str]:
    out: Set[str] = set()
    for n in walk_no_nested(f.node):
        if isinstance(n, ast.Assign):
            for t in n.targets:
                out |= {x.id for x in ast.walk(t) if isinstance(x, ast.Name) and isinstance(x.ctx, ast.Store)}
        elif isinstance(n, (ast.AugAssign, ast.AnnAssign)):
            out |= {x.id for x in ast.walk(n.target) if isinstance(x, ast.Name)}
        elif isinstance(n, ast.For):
            out |= {x.id for x in ast.walk(n.target) if isinstance(x, ast.Name)}
        elif isinstance(n, ast.With):
            for it in n.items:
                if it.optional_vars is not None:
                    out |= {x.id for x in ast.walk(it.optional_vars) if isinstance(x, ast.Name)}
    return out


def comp_elt_form(comp: ast.AST, f: Func, at: Optional[ast.AST] = None) -> str:
    """Value form of the element of a list comprehension, its variables named like loop variables."""
    y = _value_ast(comp, f, at)
    return norm(y.elt) if isinstance(y, (ast.ListComp, ast.SetComp, ast.GeneratorExp)) else norm(y)


# ---------------------------------------------------------------- definite assignment over estimator entry points
def definite_assignment_over(repo: Repo, rr, classes: Iterable[Cls], entries: Iterable[str], consequence: str, only_file: Optional[str] = None):
    """Adds one instance per non-compiled function reachable from the given entry points of the given classes: every
    local that is read must be assigned on every path (CFG dataflow; a `for` target is unassigned on the zero-trip edge)."""
    from ..cfg import definite_assignment

    seen = set()
    for c in classes:
        for entry in entries:
            for f in repo.reachable_from(c, entry):
                if f in seen or f.is_njit or (only_file is not None and f.file != only_file):
                    continue
                seen.add(f)
                g = CFG(f.node)
                params = list(f.params) + ([f.node.args.vararg.arg] if f.node.args.vararg else []) + ([f.node.args.kwarg.arg] if f.node.args.kwarg else [])
                outer: Set[str] = set()
                p = f.parent
                while p is not None:
                    outer |= set(p.params)
                    for n in walk_no_nested(p.node):
                        if isinstance(n, ast.Assign):
                            for t in n.targets:
                                outer |= set(target_names(t))
                    p = p.parent
                by_name: Dict[str, List[ast.AST]] = {}
                for n, name in definite_assignment(g, params):
                    if name not in outer:
                        by_name.setdefault(name, []).append(n)
                if not by_name:
                    rr.ok(f, "locals", "assigned on all paths", f.node.lineno, nontrivial=len(g.nodes) > 10)
                for name, nodes in sorted(by_name.items()):
                    rr.bad(f, "local `%s`" % name,
                           "`%s` is read at line %s but some path reaches that line without assigning it: %s"
                           % (name, ", ".join(str(n.lineno) for n in nodes[:3]), consequence), nodes[0].lineno)
    return rr


# ---------------------------------------------------------------- dispatch on string constants
def const_test_truth(test: ast.AST, key: str) -> Optional[bool]:
    """Truth of `<var> == 'c'` / `!=` / `in (...)` / `not in (...)` (possibly under `not`) when <var> is `key`."""
    neg = False
    while isinstance(test, ast.UnaryOp) and isinstance(test.op, ast.Not):
        test, neg = test.operand, not neg
    truth = None
    if isinstance(test, ast.Compare) and len(test.ops) == 1:
        c = test.comparators[0]
        l = test.left
        if isinstance(l, ast.Constant) and isinstance(l.value, str) and not isinstance(c, ast.Constant):
            l, c = c, l
        if isinstance(c, ast.Constant) and isinstance(c.value, str):
            if isinstance(test.ops[0], ast.Eq):
                truth = key == c.value
            elif isinstance(test.ops[0], ast.NotEq):
                truth = key != c.value
        elif isinstance(c, (ast.Tuple, ast.List, ast.Set)) and all(isinstance(e, ast.Constant) for e in c.elts):
            vals = [e.value for e in c.elts]
            if isinstance(test.ops[0], ast.In):
                truth = key in vals
            elif isinstance(test.ops[0], ast.NotIn):
                truth = key not in vals
    if truth is None:
        return None
    return (not truth) if neg else truth


def flatten_dispatch(stmts: Sequence[ast.stmt], key: str, var: Optional[str] = None) -> List[ast.stmt]:
    """The statements executed for the option value `key`: every `if` whose test compares (the variable `var`, when
    given) with string constants is resolved for that value, recursively, wherever it sits in the block."""
    out: List[ast.stmt] = []
    for st in stmts:
        if isinstance(st, ast.If) and (var is None or var in norm(st.test)):
            t = const_test_truth(st.test, key)
            if t is not None:
                out.extend(flatten_dispatch(st.body if t else st.orelse, key, var))
                if any(isinstance(x, (ast.Raise, ast.Return)) for x in out[-1:]):
                    break
                continue
        out.append(st)
    return out
