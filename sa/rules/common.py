"""Helpers shared by the rule modules."""
from __future__ import annotations

import ast
from typing import Dict, Iterable, List, Optional, Sequence, Set, Tuple

from ..model import AnalysisError, Cls, Func, Repo, dotted, is_self_attr, short, unparse, walk_no_nested
from ..cfg import CFG, target_names

ENTRY_METHODS = ("fit", "fit_transform", "transform")


def parents_map(root: ast.AST) -> Dict[int, ast.AST]:
    out: Dict[int, ast.AST] = {}
    for n in ast.walk(root):
        for c in ast.iter_child_nodes(n):
            out[id(c)] = n
    return out


def ancestors(node: ast.AST, pm: Dict[int, ast.AST]) -> List[ast.AST]:
    out = []
    cur = pm.get(id(node))
    while cur is not None:
        out.append(cur)
        cur = pm.get(id(cur))
    return out


def enclosing_stmt(node: ast.AST, pm: Dict[int, ast.AST]) -> ast.stmt:
    cur = node
    while cur is not None and not isinstance(cur, ast.stmt):
        cur = pm.get(id(cur))
    return cur


def cfg_of(f: Func, cache: Dict[Func, CFG] = {}) -> CFG:
    g = cache.get(f)
    if g is None or g.fn is not f.node:
        g = CFG(f.node)
        cache[f] = g
    return g


def exported_estimators(repo: Repo) -> List[Cls]:
    return [c for c in repo.exported_classes() if repo.is_estimator(c)]


def surface_estimators(repo: Repo) -> List[Cls]:
    return repo.estimator_classes(surface_only=True)


def reach(repo: Repo, c: Cls, entry: str) -> List[Func]:
    return repo.reachable_from(c, entry)


def transform_reachable_all(repo: Repo) -> Dict[Func, List[Cls]]:
    out: Dict[Func, List[Cls]] = {}
    for c in exported_estimators(repo):
        for f in reach(repo, c, "transform"):
            out.setdefault(f, []).append(c)
    return out


def fit_reachable_all(repo: Repo) -> Dict[Func, List[Cls]]:
    out: Dict[Func, List[Cls]] = {}
    for c in exported_estimators(repo):
        for e in ("fit", "fit_transform"):
            for f in reach(repo, c, e):
                lst = out.setdefault(f, [])
                if c not in lst:
                    lst.append(c)
    return out


def calls_to(repo: Repo, f: Func, target: Func, cls_ctx: Optional[Cls] = None) -> List[ast.Call]:
    out = []
    for call in repo.calls_in(f):
        if target in [t for t in repo.resolve_call(f, call, cls_ctx) if isinstance(t, Func)]:
            out.append(call)
    return out


def canonical_call(repo: Repo, f: Func, call: ast.Call) -> Optional[str]:
    return repo.canonical(f.module, call.func)


def single_defs(f: Func) -> Dict[str, ast.AST]:
    """Locals assigned exactly once in f by a plain ``name = expr`` (not in a loop
    target, not augmented, not a parameter)."""
    counts: Dict[str, int] = {}
    values: Dict[str, ast.AST] = {}
    for n in walk_no_nested(f.node):
        if isinstance(n, ast.Assign):
            for t in n.targets:
                for name in target_names(t):
                    counts[name] = counts.get(name, 0) + 1
                if isinstance(t, ast.Name):
                    values[t.id] = n.value
        elif isinstance(n, (ast.AugAssign, ast.AnnAssign)):
            for name in target_names(n.target):
                counts[name] = counts.get(name, 0) + 2
        elif isinstance(n, ast.For):
            for name in target_names(n.target):
                counts[name] = counts.get(name, 0) + 2
        elif isinstance(n, ast.With):
            for item in n.items:
                if item.optional_vars is not None:
                    for name in target_names(item.optional_vars):
                        counts[name] = counts.get(name, 0) + 2
    params = set(f.params)
    return {k: v for k, v in values.items() if counts.get(k) == 1 and k not in params}


class _Subst(ast.NodeTransformer):
    """Substitute Name loads; names re-bound by a comprehension or lambda are left
    alone inside it (they are a different variable there)."""

    def __init__(self, mapping: Dict[str, ast.AST]):
        self.mapping = mapping

    def _scoped(self, node, bound):
        hidden = {k: self.mapping.pop(k) for k in list(self.mapping) if k in bound}
        try:
            return self.generic_visit(node)
        finally:
            self.mapping.update(hidden)

    def _comp(self, node):
        bound = set()
        for g in node.generators:
            bound |= set(target_names(g.target))
        return self._scoped(node, bound)

    visit_ListComp = visit_SetComp = visit_GeneratorExp = visit_DictComp = _comp

    def visit_Lambda(self, node):
        a = node.args
        return self._scoped(node, {p.arg for p in a.posonlyargs + a.args + a.kwonlyargs})

    def visit_Name(self, node: ast.Name):
        if isinstance(node.ctx, ast.Load) and node.id in self.mapping:
            import copy

            return copy.deepcopy(self.mapping[node.id])
        return node


def expand_locals(expr: ast.AST, f: Func, depth: int = 3) -> ast.AST:
    """Replace single-definition locals by their defining expression (bounded)."""
    import copy

    defs = single_defs(f)
    cur = copy.deepcopy(expr)
    for _ in range(depth):
        names = {n.id for n in ast.walk(cur) if isinstance(n, ast.Name) and n.id in defs}
        if not names:
            break
        cur = _Subst({k: defs[k] for k in names}).visit(cur)
        ast.fix_missing_locations(cur)
    return cur


def norm(expr: ast.AST) -> str:
    return " ".join(unparse(expr).split())


def names_in(expr: ast.AST) -> Set[str]:
    return {n.id for n in ast.walk(expr) if isinstance(n, ast.Name)}


def tainted_names(f: Func, seeds: Iterable[str]) -> Set[str]:
    """Flow-insensitive closure: names assigned from expressions mentioning a tainted
    name (or iterating over one) are tainted."""
    tainted = set(seeds)
    changed = True
    while changed:
        changed = False
        for n in walk_no_nested(f.node):
            srcs: Set[str] = set()
            tgts: List[str] = []
            if isinstance(n, ast.Assign):
                srcs = names_in(n.value)
                for t in n.targets:
                    tgts += target_names(t)
            elif isinstance(n, ast.AugAssign):
                srcs = names_in(n.value)
                tgts = target_names(n.target)
            elif isinstance(n, (ast.For, ast.comprehension)):
                srcs = names_in(n.iter)
                tgts = target_names(n.target)
            elif isinstance(n, ast.Call) and isinstance(n.func, ast.Attribute) and isinstance(n.func.value, ast.Name) \
                    and n.func.attr in ("append", "extend", "add", "update", "insert"):
                # accumulators filled with tainted values are tainted
                for a in n.args:
                    srcs |= names_in(a)
                tgts = [n.func.value.id]
            if isinstance(n, (ast.Assign, ast.AugAssign)):
                # container[key] = value with a tainted key or value taints the container
                for t in (n.targets if isinstance(n, ast.Assign) else [n.target]):
                    if isinstance(t, ast.Subscript) and isinstance(t.value, ast.Name):
                        if (names_in(t.slice) | names_in(n.value)) & tainted and t.value.id not in tainted:
                            tainted.add(t.value.id)
                            changed = True
            if srcs & tainted:
                for t in tgts:
                    if t not in tainted:
                        tainted.add(t)
                        changed = True
    return tainted


def loop_level_jumps(loop: ast.For) -> List[ast.stmt]:
    """continue/break statements that belong to `loop` itself (not to inner loops)
    plus return statements anywhere inside."""
    out: List[ast.stmt] = []

    def go(stmts, inner: bool):
        for s in stmts:
            if isinstance(s, (ast.FunctionDef, ast.AsyncFunctionDef, ast.ClassDef)):
                continue
            if isinstance(s, ast.Return):
                out.append(s)
            elif isinstance(s, (ast.Continue, ast.Break)) and not inner:
                out.append(s)
            elif isinstance(s, (ast.For, ast.While)):
                go(s.body, True)
                go(s.orelse, inner)
            else:
                for fld in ("body", "orelse", "finalbody"):
                    go(getattr(s, fld, []) or [], inner)
                for h in getattr(s, "handlers", []) or []:
                    go(h.body, inner)

    go(loop.body, False)
    return out


def method_call(node: ast.AST, attr: Optional[str] = None) -> Optional[Tuple[ast.AST, str, ast.Call]]:
    """(receiver, method name, call) if node is ``recv.method(...)`` (optionally
    wrapped in an Expr statement)."""
    if isinstance(node, ast.Expr):
        node = node.value
    if isinstance(node, ast.Call) and isinstance(node.func, ast.Attribute):
        if attr is None or node.func.attr == attr:
            return node.func.value, node.func.attr, node
    return None


def kw(call: ast.Call, name: str) -> Optional[ast.AST]:
    for k in call.keywords:
        if k.arg == name:
            return k.value
    return None


# ---------------------------------------------------------------- relational facts
def rel_of(e: ast.AST):
    """Canonical relational fact of a single-operator comparison: ('lt'|'le', small, large) for orderings,
    ('eq'|'ne', frozenset({a, b})) for equalities - independent of the way round the comparison is written."""
    if not (isinstance(e, ast.Compare) and len(e.ops) == 1):
        return None
    a, b, op = norm(e.left), norm(e.comparators[0]), e.ops[0]
    if isinstance(op, ast.Lt):
        return ("lt", a, b)
    if isinstance(op, ast.LtE):
        return ("le", a, b)
    if isinstance(op, ast.Gt):
        return ("lt", b, a)
    if isinstance(op, ast.GtE):
        return ("le", b, a)
    if isinstance(op, ast.Eq):
        return ("eq", frozenset((a, b)))
    if isinstance(op, ast.NotEq):
        return ("ne", frozenset((a, b)))
    return None


def rel_negate(r):
    if r is None:
        return None
    if r[0] == "lt":
        return ("le", r[2], r[1])
    if r[0] == "le":
        return ("lt", r[2], r[1])
    if r[0] == "eq":
        return ("ne", r[1])
    if r[0] == "ne":
        return ("eq", r[1])
    return None


def rel_under(test: ast.AST, label: str):
    """The relational fact that holds on the `label` ('true' / 'false') edge of a test (leading `not`s folded)."""
    pos = label in ("true", "iter")
    while isinstance(test, ast.UnaryOp) and isinstance(test.op, ast.Not):
        test, pos = test.operand, not pos
    r = rel_of(test)
    return r if pos else rel_negate(r)
