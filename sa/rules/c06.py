"""C06 - exact counts; '+' merges models (structural clauses)."""
from __future__ import annotations

import ast
from typing import Dict, List, Optional, Set, Tuple

from ..kinds import DICT, I2L, L2I, KindEngine
from ..model import AnalysisError, Cls, Func, Repo, short
from ..report import RuleResult
from .common import exported_estimators, norm


# The public attribute names are the documented API contract: <x>_label_dictionary_ maps labels to
# indices, <x>_index_dictionary_ maps indices to labels (docstrings of every vectorizer).
def declared_kind(attr: str) -> Optional[str]:
    if attr.endswith("label_dictionary_") or attr == "_token_dictionary_" or attr == "_raw_ngram_dictionary_":
        return L2I
    if attr.endswith("index_dictionary_") or attr == "_inverse_token_dictionary_":
        return I2L
    return None


def r6_1(repo: Repo) -> RuleResult:
    rr = RuleResult("R6.1", "dictionary orientation (label->index vs index->label) is the same at every assignment to a fitted attribute", floor=45)
    ke = KindEngine(repo)
    n_attrs = 0
    seen: Set[Tuple[str, int, str]] = set()
    for c in exported_estimators(repo):
        ke.infer_class(c)
        refs = {a: k for (cc, a), k in ke.attr_kind.items() if cc is c and k in (L2I, I2L, "CONFLICT")}
        n_attrs += len(refs)
        for m, a, v, line, k in ke.attr_sites(c):
            ref = refs.get(a)
            if ref is None:
                continue
            key = (m.key, line, a)
            if key in seen:
                continue
            seen.add(key)
            construct = "%s = %s" % (a, short(v, 40))
            decl = declared_kind(a)
            if ref == "CONFLICT":
                rr.bad(m, construct, "the fit path itself assigns both orientations to `%s`" % a, line)
            elif decl is not None and k in (L2I, I2L) and k != decl:
                names = {L2I: "label->index", I2L: "index->label"}
                rr.bad(m, construct,
                       "`%s` is documented as a %s dictionary but is assigned a %s mapping here" % (a, names[decl], names[k]), line)
            elif k in (L2I, I2L) and k != ref:
                names = {L2I: "label->index", I2L: "index->label"}
                rr.bad(m, construct,
                       "`%s` is %s everywhere on the fit path but is assigned a %s mapping here: look-ups through it use the wrong kind of "
                       "key (they raise KeyError, which the counting loops swallow - every row comes out empty)" % (a, names[ref], names[k]), line)
            elif k in (L2I, I2L):
                rr.ok(m, construct, "%s, as on the fit path" % k, line)
            else:
                rr.ok(m, construct, "orientation-neutral value (%s)" % (k or "unknown"), line, nontrivial=False)
    rr.facts["oriented_dictionary_attributes"] = n_attrs
    if n_attrs < 20:
        raise AnalysisError("R6.1: only %d oriented dictionary attributes inferred (>= 20 confirmed by hand)" % n_attrs)
    return rr


def r6_3(repo: Repo) -> RuleResult:
    import ast as _ast
    from .. import sym
    from ..model import walk_no_nested

    rr = RuleResult("R6.3", "n-gram enumeration takes every run sequence[i : i + n] that fits and no other", floor=2)
    f = repo.func("vectorizers/ngram_vectorizer.py", "ngrams_of")
    seq = f.params[0]
    appends = [n for n in walk_no_nested(f.node) if isinstance(n, _ast.Call) and norm(n.func) == "result.append"]
    if len(appends) != 2:
        raise AnalysisError("R6.3: expected the exact and the subgram append in ngrams_of")
    from .common import parents_map, ancestors

    pm = parents_map(f.node)
    for a in appends:
        sl = a.args[0]
        if not (isinstance(sl, _ast.Subscript) and isinstance(sl.slice, _ast.Slice) and norm(sl.value) == seq):
            raise AnalysisError("R6.3: appended value is not a slice of the sequence")
        lo, hi = sl.slice.lower, sl.slice.upper
        guards = [x for x in ancestors(a, pm) if isinstance(x, _ast.If) and "len(%s)" % seq in norm(x.test)]
        loops = [x for x in ancestors(a, pm) if isinstance(x, _ast.For)]
        construct = "append(%s)" % norm(sl)
        problems = []
        if not guards:
            problems.append("no length guard")
        else:
            t = guards[0].test
            ok = isinstance(t, _ast.Compare) and len(t.ops) == 1 and isinstance(t.ops[0], _ast.LtE) \
                and sym.poly(t.left) == sym.poly(hi) and norm(t.comparators[0]) == "len(%s)" % seq
            if not ok:
                problems.append("length guard is `%s`, not `%s <= len(%s)`: the last n-gram is dropped or a short run is emitted" % (norm(t), norm(hi), seq))
        outer = loops[-1] if loops else None
        if outer is None or norm(outer.iter) != "range(len(%s))" % seq or norm(lo) != norm(outer.target):
            problems.append("runs do not start at every position i of range(len(%s))" % seq)
        if problems:
            rr.bad(f, construct, "; ".join(problems), a.lineno)
        else:
            rr.ok(f, construct, "start i over range(len(seq)), guard `%s`" % norm(guards[0].test), a.lineno)
    # subgrams: lengths 1..n
    sub = [x for x in walk_no_nested(f.node) if isinstance(x, _ast.For) and norm(x.target) == "j"]
    if sub:
        if norm(sub[0].iter) == "range(1, ngram_size + 1)":
            rr.ok(f, "subgram lengths", "j over range(1, ngram_size + 1)", sub[0].lineno)
        else:
            rr.bad(f, "subgram lengths", "subgram lengths iterate `%s`, not 1..ngram_size" % norm(sub[0].iter), sub[0].lineno)
    return rr


RULES = [r6_1, r6_3]
CLAIM = (
    "R6.1 a small kinds checker infers, from the fit path, whether each fitted dictionary attribute maps labels to indices or "
    "indices to labels (dict(zip(A, range)), enumerate comprehensions, items() flips, .copy(), returns of the preprocessing "
    "functions) and requires every other assignment to the same attribute - in particular in NgramVectorizer.__add__ - to have the same kind (and the kind its documented name declares); R6.3 ngrams_of enumerates sequence[i : i + n] for every i with the guard i + n <= len(sequence) (symbolic), subgram lengths 1..n."
)
NOT_DECIDED = (
    "the counts themselves, EdgeList duplicate summation, and the skip-gram encode/decode modulus agreement (R6.2 of the design: "
    "len(window_sizes) - 1 vs len(token_dictionary) cannot be proved equal mechanically - they differ for a user-supplied dictionary "
    "with tokens absent from the corpus - so the rule is not armed rather than fed facts by hand)."
)
