"""C06 - exact counts; '+' merges models (structural clauses)."""
from __future__ import annotations

import ast
from typing import Dict, List, Optional, Set, Tuple

from ..kinds import DICT, I2L, L2I, KindEngine
from ..model import AnalysisError, Cls, Func, Repo, short
from ..report import RuleResult
from .common import exported_estimators, norm


# The public attribute names are the documented API contract: <x>_label_dictionary_ maps labels to
# indices, <x>_index_dictionary_ maps indices to labels (docstrings of every vectorizer).
def declared_kind(attr: str) -> Optional[str]:
    if attr.endswith("label_dictionary_") or attr == "_token_dictionary_" or attr == "_raw_ngram_dictionary_":
        return L2I
    if attr.endswith("index_dictionary_") or attr == "_inverse_token_dictionary_":
        return I2L
    return None


def r6_1(repo: Repo) -> RuleResult:
    rr = RuleResult("R6.1", "dictionary orientation (label->index vs index->label) is the same at every assignment to a fitted attribute", floor=45)
    ke = KindEngine(repo)
    n_attrs = 0
    seen: Set[Tuple[str, int, str]] = set()
    for c in exported_estimators(repo):
        ke.infer_class(c)
        refs = {a: k for (cc, a), k in ke.attr_kind.items() if cc is c and k in (L2I, I2L, "CONFLICT")}
        n_attrs += len(refs)
        for m, a, v, line, k in ke.attr_sites(c):
            ref = refs.get(a)
            if ref is None:
                continue
            key = (m.key, line, a)
            if key in seen:
                continue
            seen.add(key)
            construct = "%s = %s" % (a, short(v, 40))
            decl = declared_kind(a)
            if ref == "CONFLICT":
                rr.bad(m, construct, "the fit path itself assigns both orientations to `%s`" % a, line)
            elif decl is not None and k in (L2I, I2L) and k != decl:
                names = {L2I: "label->index", I2L: "index->label"}
                rr.bad(m, construct,
                       "`%s` is documented as a %s dictionary but is assigned a %s mapping here" % (a, names[decl], names[k]), line)
            elif k in (L2I, I2L) and k != ref:
                names = {L2I: "label->index", I2L: "index->label"}
                rr.bad(m, construct,
                       "`%s` is %s everywhere on the fit path but is assigned a %s mapping here: look-ups through it use the wrong kind of "
                       "key (they raise KeyError, which the counting loops swallow - every row comes out empty)" % (a, names[ref], names[k]), line)
            elif k in (L2I, I2L):
                rr.ok(m, construct, "%s, as on the fit path" % k, line)
            else:
                rr.ok(m, construct, "orientation-neutral value (%s)" % (k or "unknown"), line, nontrivial=False)
    rr.facts["oriented_dictionary_attributes"] = n_attrs
    if n_attrs < 20:
        raise AnalysisError("R6.1: only %d oriented dictionary attributes inferred (>= 20 confirmed by hand)" % n_attrs)
    return rr


RULES = [r6_1]
CLAIM = (
    "R6.1 a small kinds checker infers, from the fit path, whether each fitted dictionary attribute maps labels to indices or "
    "indices to labels (dict(zip(A, range)), enumerate comprehensions, items() flips, .copy(), returns of the preprocessing "
    "functions) and requires every other assignment to the same attribute - in particular in NgramVectorizer.__add__ - to have the same kind."
)
NOT_DECIDED = (
    "the counts themselves, EdgeList duplicate summation, and the skip-gram encode/decode modulus agreement (R6.2 of the design: "
    "len(window_sizes) - 1 vs len(token_dictionary) cannot be proved equal mechanically - they differ for a user-supplied dictionary "
    "with tokens absent from the corpus - so the rule is not armed rather than fed facts by hand)."
)
