"""C06 - exact counts; '+' merges models (structural clauses)."""
from __future__ import annotations

import ast
from typing import Dict, List, Optional, Set, Tuple

from ..kinds import DICT, I2L, L2I, KindEngine
from ..model import AnalysisError, Cls, Func, Repo, short
from ..report import RuleResult
from .common import exported_estimators, norm


# The public attribute names are the documented API contract: <x>_label_dictionary_ maps labels to
# indices, <x>_index_dictionary_ maps indices to labels (docstrings of every vectorizer).
def declared_kind(attr: str) -> Optional[str]:
    if attr.endswith("label_dictionary_") or attr == "_token_dictionary_" or attr == "_raw_ngram_dictionary_":
        return L2I
    if attr.endswith("index_dictionary_") or attr == "_inverse_token_dictionary_":
        return I2L
    return None


def r6_1(repo: Repo) -> RuleResult:
    rr = RuleResult("R6.1", "dictionary orientation (label->index vs index->label) is the same at every assignment to a fitted attribute", floor=45)
    ke = KindEngine(repo)
    n_attrs = 0
    seen: Set[Tuple[str, int, str]] = set()
    for c in exported_estimators(repo):
        ke.infer_class(c)
        refs = {a: k for (cc, a), k in ke.attr_kind.items() if cc is c and k in (L2I, I2L, "CONFLICT")}
        n_attrs += len(refs)
        for m, a, v, line, k in ke.attr_sites(c):
            ref = refs.get(a)
            if ref is None:
                continue
            key = (m.key, line, a)
            if key in seen:
                continue
            seen.add(key)
            construct = "%s = %s" % (a, short(v, 40))
            decl = declared_kind(a)
            if ref == "CONFLICT":
                rr.bad(m, construct, "the fit path itself assigns both orientations to `%s`" % a, line)
            elif decl is not None and k in (L2I, I2L) and k != decl:
                names = {L2I: "label->index", I2L: "index->label"}
                rr.bad(m, construct,
                       "`%s` is documented as a %s dictionary but is assigned a %s mapping here" % (a, names[decl], names[k]), line)
            elif k in (L2I, I2L) and k != ref:
                names = {L2I: "label->index", I2L: "index->label"}
                rr.bad(m, construct,
                       "`%s` is %s everywhere on the fit path but is assigned a %s mapping here: look-ups through it use the wrong kind of "
                       "key (they raise KeyError, which the counting loops swallow - every row comes out empty)" % (a, names[ref], names[k]), line)
            elif k in (L2I, I2L):
                rr.ok(m, construct, "%s, as on the fit path" % k, line)
            else:
                rr.ok(m, construct, "orientation-neutral value (%s)" % (k or "unknown"), line, nontrivial=False)
    rr.facts["oriented_dictionary_attributes"] = n_attrs
    if n_attrs < 20:
        raise AnalysisError("R6.1: only %d oriented dictionary attributes inferred (>= 20 confirmed by hand)" % n_attrs)
    return rr


def r6_3(repo: Repo) -> RuleResult:
    import ast as _ast
    from .. import sym
    from ..model import walk_no_nested

    rr = RuleResult("R6.3", "n-gram enumeration takes every run sequence[i : i + n] that fits and no other", floor=2)
    f = repo.func("vectorizers/ngram_vectorizer.py", "ngrams_of")
    seq = f.params[0]
    ret_names = [n.value.id for n in walk_no_nested(f.node) if isinstance(n, _ast.Return) and isinstance(n.value, _ast.Name)]
    if not ret_names:
        raise AnalysisError("R6.3: ngrams_of does not return its list by name")
    appends = [n for n in walk_no_nested(f.node) if isinstance(n, _ast.Call) and norm(n.func) == "%s.append" % ret_names[0]]
    if len(appends) != 2:
        raise AnalysisError("R6.3: expected the exact and the subgram append in ngrams_of")
    from .common import parents_map, ancestors

    pm = parents_map(f.node)
    for a in appends:
        sl = a.args[0]
        if not (isinstance(sl, _ast.Subscript) and isinstance(sl.slice, _ast.Slice) and norm(sl.value) == seq):
            raise AnalysisError("R6.3: appended value is not a slice of the sequence")
        lo, hi = sl.slice.lower, sl.slice.upper
        guards = [x for x in ancestors(a, pm) if isinstance(x, _ast.If) and "len(%s)" % seq in norm(x.test)]
        loops = [x for x in ancestors(a, pm) if isinstance(x, _ast.For)]
        construct = "append(%s)" % norm(sl)
        problems = []
        if not guards:
            problems.append("no length guard")
        else:
            t = guards[0].test
            ok = isinstance(t, _ast.Compare) and len(t.ops) == 1 and isinstance(t.ops[0], _ast.LtE) \
                and sym.poly(t.left) == sym.poly(hi) and norm(t.comparators[0]) == "len(%s)" % seq
            if not ok:
                problems.append("length guard is `%s`, not `%s <= len(%s)`: the last n-gram is dropped or a short run is emitted" % (norm(t), norm(hi), seq))
        outer = loops[-1] if loops else None
        if outer is None or norm(outer.iter) != "range(len(%s))" % seq or norm(lo) != norm(outer.target):
            problems.append("runs do not start at every position i of range(len(%s))" % seq)
        if problems:
            rr.bad(f, construct, "; ".join(problems), a.lineno)
        else:
            rr.ok(f, construct, "start i over range(len(seq)), guard `%s`" % norm(guards[0].test), a.lineno)
    # subgrams: lengths 1..n
    top = [x for x in walk_no_nested(f.node) if isinstance(x, _ast.For) and norm(x.iter) == "range(len(%s))" % seq]
    sub = [x for t_ in top for x in _ast.walk(t_) if isinstance(x, _ast.For) and x is not t_]
    if sub:
        if norm(sub[0].iter) == "range(1, ngram_size + 1)":
            rr.ok(f, "subgram lengths", "j over range(1, ngram_size + 1)", sub[0].lineno)
        else:
            rr.bad(f, "subgram lengths", "subgram lengths iterate `%s`, not 1..ngram_size" % norm(sub[0].iter), sub[0].lineno)
    return rr


# --------------------------------------------------------------------------- R6.2
def _length_of_return(repo: Repo, f: Func) -> Optional[dict]:
    """Symbolic length of the array a window function returns, over the atom len(<frequency parameter>)."""
    import ast as _ast
    from .. import sym

    env = {}
    freq = f.params[1]
    env[freq] = sym.poly(_ast.parse("len(%s)" % freq, mode="eval").body)

    def length(e):
        if isinstance(e, _ast.Name):
            return env.get(e.id)
        if isinstance(e, _ast.Call):
            canon = repo.canonical(f.module, e.func) or norm(e.func)
            if canon in ("numpy.power", "numpy.round", "numpy.abs", "numpy.sqrt", "numpy.exp", "numpy.log") and e.args:
                return length(e.args[0])
            if canon == "numpy.append" and len(e.args) == 2:
                a = length(e.args[0])
                b = length(e.args[1])
                if a is None:
                    return None
                return sym._add(a, b if b is not None else {(): 1})
            if canon == "numpy.repeat" and len(e.args) == 2:
                n = e.args[1]
                return sym.poly(n)
            if isinstance(e.func, _ast.Attribute) and e.func.attr in ("astype", "copy"):
                return length(e.func.value)
            return None
        if isinstance(e, _ast.BinOp):
            return length(e.left) or length(e.right)
        return None

    result = None

    def run(stmts):
        nonlocal result
        for st in stmts:
            if isinstance(st, _ast.Assign) and len(st.targets) == 1 and isinstance(st.targets[0], _ast.Name):
                l = length(st.value)
                if l is not None:
                    env[st.targets[0].id] = l
                else:
                    env.pop(st.targets[0].id, None)
            elif isinstance(st, _ast.If):
                run(st.body)
                run(st.orelse)
            elif isinstance(st, _ast.Return) and st.value is not None:
                l = length(st.value)
                result = l if result is None or result == l else "conflict"

    run(f.node.body)
    return result if isinstance(result, dict) else None


def r6_2(repo: Repo) -> RuleResult:
    import ast as _ast
    from .. import sym
    from ..agree import collect_sites
    from ..model import walk_no_nested, is_self_attr
    from .common import expand_locals

    rr = RuleResult("R6.2", "skip-gram column ids are decoded with the multiplier they were encoded with", floor=1)
    SG = "vectorizers/skip_gram_vectorizer.py"
    enc = repo.func(SG, "skip_grams_matrix_coo_data")
    # the column list is the second array the encoder returns
    enc_rets = [n for n in walk_no_nested(enc.node) if isinstance(n, _ast.Return) and isinstance(n.value, _ast.Tuple) and len(n.value.elts) == 3]
    if not enc_rets:
        raise AnalysisError("R6.2: skip_grams_matrix_coo_data no longer returns (rows, cols, data)")
    col_names = [x.id for x in _ast.walk(enc_rets[0].value.elts[1]) if isinstance(x, _ast.Name) and x.id not in ("np",)]
    col_list = col_names[0] if col_names else "result_col"
    c = repo.cls(SG, "SkipgramVectorizer")
    fit = repo.resolve_method(c, "fit")
    # encoder: result_col.append(A * n + B)
    mult = None
    for n in walk_no_nested(enc.node):
        if isinstance(n, _ast.Call) and norm(n.func) == "%s.append" % col_list and isinstance(n.args[0], _ast.BinOp) and isinstance(n.args[0].op, _ast.Add):
            left = n.args[0].left
            if isinstance(left, _ast.BinOp) and isinstance(left.op, _ast.Mult):
                mult = expand_locals(left.right, enc, 2)
    if mult is None:
        raise AnalysisError("R6.2: encoder expression head * n + tail not found in skip_grams_matrix_coo_data")
    sites = [s_ for s_ in collect_sites(repo, c, "fit") if s_.callee is enc]
    if not sites:
        raise AnalysisError("R6.2: SkipgramVectorizer.fit no longer calls skip_grams_matrix_coo_data")
    ws = sites[0].raw["window_sizes"]
    mult_txt = norm(mult).replace("window_sizes", norm(ws))
    enc_poly = sym.poly(_ast.parse(mult_txt, mode="eval").body)
    # length fact: len(self._window_sizes) = len(self._token_frequencies_) + 1, derived from every registered window function
    env = {}
    assigns = [n for n in walk_no_nested(fit.node) if isinstance(n, _ast.Assign) and norm(n.targets[0]) == norm(ws) and isinstance(n.value, _ast.Call)]
    if assigns and len(assigns[0].value.args) >= 2:
        freq_arg = norm(assigns[0].value.args[1])
        lens = set()
        for k, g in repo.registry("vectorizers/_window_kernels.py", "_WINDOW_FUNCTIONS").items():
            l = _length_of_return(repo, g)
            lens.add(sym.show(l).replace("len(%s)" % g.params[1], "len(%s)" % freq_arg) if l else None)
        if len(lens) == 1 and None not in lens:
            env["len(%s)" % norm(ws)] = _ast.parse(lens.pop(), mode="eval").body
            rr.facts["length_fact"] = "len(%s) = %s (derived from both window functions)" % (norm(ws), norm(env["len(%s)" % norm(ws)]))
    enc_norm = sym.poly(_ast.parse(mult_txt, mode="eval").body, env)
    # decoder: raw // M and raw % M
    cands = [n for n in walk_no_nested(fit.node) if isinstance(n, _ast.BinOp) and isinstance(n.op, (_ast.FloorDiv, _ast.Mod))]
    mods = []
    for a_ in cands:
        for b_ in cands:
            if isinstance(a_.op, _ast.FloorDiv) and isinstance(b_.op, _ast.Mod) and norm(a_.left) == norm(b_.left):
                mods = [a_, b_]
    if len(mods) != 2:
        raise AnalysisError("R6.2: decode expressions raw_val // M and raw_val %% M not found in SkipgramVectorizer.fit")
    for n in mods:
        m_expr = expand_locals(n.right, fit, 2)
        dec = sym.poly(m_expr, env)
        op = "//" if isinstance(n.op, _ast.FloorDiv) else "%"
        construct = "raw_val %s M" % op  # construct name kept stable for the known-findings key
        if dec == enc_norm:
            rr.ok(fit, construct, "M = `%s` equals the encoder's multiplier `%s`" % (norm(m_expr), mult_txt), n.lineno)
        elif norm(m_expr) == "len(self._token_dictionary_)":
            rr.bad(fit, construct,
                   "column ids are encoded as head * (%s) + tail but decoded with `%s`: the frequency table is shorter than a supplied "
                   "dictionary whose last tokens do not occur in the corpus, and every column is then labelled with the wrong pair"
                   % (mult_txt, norm(m_expr)), n.lineno)
        else:
            raise AnalysisError("R6.2: cannot relate the decode modulus `%s` to the encode multiplier `%s`" % (norm(m_expr), mult_txt))
    return rr


def r6_4(repo: Repo) -> RuleResult:
    from ..effects import Effects

    rr = RuleResult("R6.4", "`+` builds a new model and leaves both operands as they were", floor=1)
    c = repo.cls("vectorizers/ngram_vectorizer.py", "NgramVectorizer")
    add = repo.resolve_method(c, "__add__")
    eff = Effects(repo)
    s = eff.summary(add, c)
    bad = [m for m in s.mutations if m.root.startswith("A:") or m.root == "P:other"]
    if not bad:
        rr.ok(add, "operands", "no statement reachable from __add__ mutates an attribute of self or other (%d mutations on private copies)" % len(s.mutations), add.node.lineno)
    seen = set()
    for m in bad:
        key = (m.root, m.what)
        if key in seen:
            continue
        seen.add(key)
        line = int(m.where.split(":", 1)[1].split(" ", 1)[0])
        who = "the left operand's `%s`" % m.root[2:] if m.root.startswith("A:") else "the right operand"
        rr.bad(add, "%s on %s" % (m.what, m.root.split(":", 1)[1]),
               "%s modifies %s in place: after `a + b` the model `a` itself has changed (its dictionaries no longer match its matrix), "
               "and the sum no longer behaves like a model fitted on the concatenated corpora" % (m.what, who), line)
    return rr


NG = "vectorizers/ngram_vectorizer.py"


def _key_kind(e: ast.AST) -> Optional[str]:
    """'tuple' for tuple(...) / a tuple display, 'label' for a value read out of a token dictionary."""
    if isinstance(e, ast.Tuple) or (isinstance(e, ast.Call) and norm(e.func) == "tuple"):
        return "tuple"
    if isinstance(e, ast.Subscript) and "token_dictionary" in norm(e.value):
        return "label"
    return None


def r6_5(repo: Repo) -> RuleResult:
    """Writer / reader agreement on the *kind of key* of NgramVectorizer.column_label_dictionary_: fit builds it with
    bare token labels under one condition and with tuples of labels otherwise; every look-up must form a bare key
    under that same condition and a tuple otherwise, or whole families of n-grams are never found (and silently
    dropped by the `except KeyError`)."""
    from ..model import is_self_attr, walk_no_nested
    from .common import ancestors, parents_map

    rr = RuleResult("R6.5", "look-ups into the n-gram column dictionary form bare / tuple keys under the condition under which fit built bare / tuple keys", floor=2)
    c = repo.module(NG).classes.get("NgramVectorizer")
    if c is None:
        raise AnalysisError("R6.5: NgramVectorizer not found")
    fit = repo.resolve_method(c, "fit")
    D = "column_label_dictionary_"
    # writers: the if / elif chain in fit that assigns the dictionary
    label_cond = None
    tuple_seen = False
    pm = parents_map(fit.node)
    for n in walk_no_nested(fit.node):
        if isinstance(n, ast.Assign) and any(is_self_attr(t, D) for t in n.targets):
            v = n.value
            if is_self_attr(v) and "token_dictionary" in v.attr:
                # keys are the bare labels of the token dictionary
                iff = pm.get(id(n))
                if not (isinstance(iff, ast.If) and any(n is s for s in iff.body)):
                    raise AnalysisError("R6.5: the bare-label arm of the dictionary construction is not the body of an if")
                label_cond = norm(iff.test)
            elif isinstance(v, ast.DictComp) and _key_kind(v.key) == "tuple":
                tuple_seen = True
    if label_cond is None or not tuple_seen:
        raise AnalysisError("R6.5: bare-label / tuple arms of the column dictionary construction not recognised in fit")
    # readers
    n_sites = 0
    for f in (fit, repo.resolve_method(c, "transform")):
        pmf = parents_map(f.node)
        for n in walk_no_nested(f.node):
            if not (isinstance(n, ast.Subscript) and is_self_attr(n.value, D) and isinstance(n.ctx, ast.Load) and isinstance(n.slice, ast.Name)):
                continue
            key = n.slice.id
            defs = [a for a in walk_no_nested(f.node) if isinstance(a, ast.Assign) and any(isinstance(t, ast.Name) and t.id == key for t in a.targets)]
            kinds = {}
            if len(defs) < 2:
                continue  # a key with one form (e.g. the mask n-gram, membership-tested): no bare / tuple choice to agree on
            for a in defs:
                k = _key_kind(a.value)
                iff = pmf.get(id(a))
                if k is None or not isinstance(iff, ast.If):
                    raise AnalysisError("R6.5: key `%s` of the look-up in %s is not built by a bare/tuple conditional" % (key, f.qualname))
                arm = "body" if any(a is s_ for s_ in iff.body) else "else"
                kinds[(k, arm)] = norm(iff.test)
            n_sites += 1
            construct = "self.%s[<bare-or-tuple key>]" % D  # no local names: findings are keyed by construct
            lab = [(arm, t) for (k, arm), t in kinds.items() if k == "label"]
            tup = [(arm, t) for (k, arm), t in kinds.items() if k == "tuple"]
            if len(lab) == 1 and len(tup) == 1 and lab[0] == ("body", label_cond) and tup[0][0] == "else":
                rr.ok(f, construct, "bare key under `%s`, tuple key otherwise - as the dictionary was built" % label_cond, n.lineno)
            else:
                rr.bad(f, construct,
                       "the key is a bare label under `%s` but the dictionary has bare-label keys under `%s` (tuples otherwise): n-grams for "
                       "which the two conditions differ (1-grams of 'subgrams' mode with ngram_size > 1) are never found and their counts "
                       "are dropped by the except KeyError" % (lab[0][1] if lab else "?", label_cond), n.lineno)
    if n_sites < 2:
        raise AnalysisError("R6.5: only %d look-up sites into %s found" % (n_sites, D))
    return rr


SG = "vectorizers/skip_gram_vectorizer.py"


def r6_6(repo: Repo) -> RuleResult:
    """Every (head, tail, weight) entry build_skip_grams returns for a document becomes one COO triple of that
    document's row.  The list starts with a (0, 0, 0.0) seed entry, but sum_coo_entries has already merged it with the
    real (0, 0) entries, so no position of the returned list may be skipped."""
    from ..model import walk_no_nested

    rr = RuleResult("R6.6", "every entry of a document's merged skip-gram list becomes one COO triple (no slice, no filter, no conditional append)", floor=1)
    f = repo.func(SG, "skip_grams_matrix_coo_data")
    build = repo.func(SG, "build_skip_grams")
    names = set()
    for n in walk_no_nested(f.node):
        if isinstance(n, ast.Assign) and isinstance(n.value, ast.Call) and build in repo.resolve_call(f, n.value) and isinstance(n.targets[0], ast.Name):
            names.add(n.targets[0].id)
    loops = []
    for n in walk_no_nested(f.node):
        if isinstance(n, ast.For):
            it = n.iter
            if isinstance(it, ast.Call) and norm(it.func) == "enumerate" and it.args:
                it = it.args[0]
            direct_call = isinstance(it, ast.Call) and build in repo.resolve_call(f, it)
            mentions = ({x.id for x in ast.walk(it) if isinstance(x, ast.Name)} & names) or any(
                isinstance(x, ast.Call) and build in repo.resolve_call(f, x) for x in ast.walk(it))
            if direct_call or mentions:
                loops.append((n, it, direct_call))
    if len(loops) != 1:
        raise AnalysisError("R6.6: the loop over the skip-gram list of a document not recognised (%d candidates)" % len(loops))
    lp, it, direct = loops[0]
    construct = "loop over build_skip_grams(...) of one document"
    if not (direct or isinstance(it, ast.Name)):
        rr.bad(f, construct, "the loop iterates `%s`, not the whole list: the entries left out are real merged skip-grams (the seed entry "
               "(0, 0, 0.0) has been summed with every (token 0, token 0) pair), so their weight is dropped" % norm(it), lp.lineno)
        return rr
    appends = [s_ for s_ in lp.body if isinstance(s_, ast.Expr) and isinstance(s_.value, ast.Call) and isinstance(s_.value.func, ast.Attribute)
               and s_.value.func.attr == "append"]
    nested = [x for s_ in lp.body for x in ast.walk(s_) if isinstance(x, ast.Call) and isinstance(x.func, ast.Attribute) and x.func.attr == "append"]
    jumps = [x for s_ in lp.body for x in ast.walk(s_) if isinstance(x, (ast.Continue, ast.Break))]
    if len(appends) == 3 and len(nested) == 3 and not jumps:
        rr.ok(f, construct, "whole list iterated; row, column and value appended once per entry, unconditionally", lp.lineno)
    else:
        rr.bad(f, construct, "an entry of the list does not always yield exactly one (row, col, value) triple (%d top-level appends, %d in all, %d jumps)"
               % (len(appends), len(nested), len(jumps)), lp.lineno)
    return rr


EL = "vectorizers/edge_list_vectorizer.py"


def r6_7(repo: Repo) -> RuleResult:
    """An entry of the edge-list matrix is the *sum of the values* of the edges with that label pair.  The values are
    converted with `.astype(float)` (float64); a constructor that narrows them (`dtype=np.float32`, or the dtype of a
    matrix built that way) rounds every value above 2**24 and every sum that needs more than 24 bits."""
    from ..model import walk_no_nested

    rr = RuleResult("R6.7", "EdgeListVectorizer builds its matrices at the precision of the edge values (no narrowing dtype on the sparse constructors)", floor=2)
    c = repo.module(EL).classes.get("EdgeListVectorizer")
    if c is None:
        raise AnalysisError("R6.7: EdgeListVectorizer not found")
    narrow_attrs = set()
    for entry in ("fit", "transform"):
        f = repo.resolve_method(c, entry)
        for call in repo.calls_in(f):
            canon = repo.canonical(f.module, call.func) or ""
            if not canon.startswith("scipy.sparse.") or not canon.endswith("_matrix"):
                continue
            d = None
            for k in call.keywords:
                if k.arg == "dtype":
                    d = k.value
            construct = "%s(...) in %s" % (canon.rsplit(".", 1)[1], entry)
            if d is None:
                rr.ok(f, construct, "no dtype argument: the float64 values are kept", call.lineno)
                continue
            t = norm(d)
            dc = repo.canonical(f.module, d) or t
            if dc in ("numpy.float64", "numpy.double", "float", "numpy.float_") or t in ("float", "'float64'", '"float64"'):
                rr.ok(f, construct, "dtype %s" % t, call.lineno)
            elif t.endswith(".dtype") and "self._train_matrix" in t:
                # inherits whatever fit built: judged at fit's constructor
                rr.ok(f, construct, "dtype of the training matrix (judged where fit builds it)", call.lineno, nontrivial=False)
            else:
                rr.bad(f, construct, "the matrix is built with dtype=%s: edge values above 2**24 and sums that need more than 24 bits are rounded, so "
                       "an entry is no longer the sum of its edges' values" % t, call.lineno)
    return rr


RULES = [r6_1, r6_2, r6_3, r6_4, r6_5, r6_6, r6_7]

CLAIM = (
    "R6.2 the skip-gram decode modulus equals the encode multiplier (symbolic, with the length fact len(window_sizes) = len(frequencies) + 1 derived from both registered window functions); R6.1 a small kinds checker infers, from the fit path, whether each fitted dictionary attribute maps labels to indices or "
    "indices to labels (dict(zip(A, range)), enumerate comprehensions, items() flips, .copy(), returns of the preprocessing "
    "functions) and requires every other assignment to the same attribute - in particular in NgramVectorizer.__add__ - to have the same kind (and the kind its documented name declares); R6.3 ngrams_of enumerates sequence[i : i + n] for every i with the guard i + n <= len(sequence) (symbolic), subgram lengths 1..n; R6.4 `__add__` mutates neither operand (alias + effect analysis); R6.5 writer/reader agreement on the kind of key (bare label vs tuple) of the n-gram column dictionary and on the condition selecting it; R6.6 every entry of the merged skip-gram list of a document yields exactly one COO triple (whole list iterated, unconditional appends); R6.7 the sparse constructors of EdgeListVectorizer carry no narrowing dtype (the float64 edge values and their sums are kept exactly)."
)
NOT_DECIDED = (
    "the counts themselves and EdgeList duplicate summation."
)
