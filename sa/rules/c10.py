"""C10 - compiled kernels stay inside their arrays / never use an unassigned variable."""
from __future__ import annotations

import ast
from typing import Dict, List, Optional, Set, Tuple

from .. import sym
from ..cfg import CFG, definite_assignment, target_names
from ..model import AnalysisError, Func, Repo, short, walk_no_nested
from ..report import RuleResult
from .c04 import r4_1
from .common import expand_locals, enclosing_stmt, ancestors, norm, parents_map, single_defs, names_in


def njit_functions(repo: Repo, files: Optional[Set[str]] = None) -> List[Func]:
    return [f for f in repo.all_funcs() if f.is_njit and (files is None or f.file in files)]


def all_params(f: Func) -> List[str]:
    out = list(f.params)
    if f.node.args.vararg:
        out.append(f.node.args.vararg.arg)
    if f.node.args.kwarg:
        out.append(f.node.args.kwarg.arg)
    return out


# --------------------------------------------------------------------------- R10.1
def r10_1(repo: Repo, rule: str = "R10.1", files: Optional[Set[str]] = None, floor: int = 90) -> RuleResult:
    rr = RuleResult(rule, "definite assignment in every compiled kernel (a `for` target is unassigned on the zero-trip edge)", floor=floor)
    for f in njit_functions(repo, files):
        g = CFG(f.node)
        res = definite_assignment(g, all_params(f))
        # closures read the enclosing function's variables: those are not locals here
        outer: Set[str] = set()
        p = f.parent
        while p is not None:
            outer |= set(all_params(p))
            for n in walk_no_nested(p.node):
                if isinstance(n, ast.Assign):
                    for t in n.targets:
                        outer |= set(target_names(t))
            p = p.parent
        bad = [(n, name) for n, name in res if name not in outer]
        if not bad:
            rr.ok(f, "locals", "every read local is assigned on all paths", f.node.lineno, nontrivial=bool(len(g.nodes) > 6))
            continue
        by_name: Dict[str, list] = {}
        for n, name in bad:
            by_name.setdefault(name, []).append(n)
        for name, nodes in by_name.items():
            n0 = nodes[0]
            # explain: which loop leaves it unassigned?
            why = ""
            for lp in [x for x in walk_no_nested(f.node) if isinstance(x, ast.For) and name in target_names(x.target)]:
                if lp.end_lineno and n0.lineno > lp.end_lineno:
                    why = " - it is the target of `for %s in %s`, which runs zero times when the range is empty" % (
                        norm(lp.target), short(lp.iter, 50))
            rr.bad(f, "local `%s`" % name,
                   "`%s` is read at line %d but is not assigned on every path from the entry%s; a compiled kernel then "
                   "reads an uninitialised value / indexes out of bounds" % (name, n0.lineno, why),
                   n0.lineno, path=["entry", "...zero-trip edge...", "line %d" % n0.lineno])
    return rr


# --------------------------------------------------------------------------- R10.2
# parallel-array parameters (same length by the call convention; the caller passes
# slices with identical bounds - checked at the one call site, column_weights)
PARALLEL_PARAMS = {
    ("vectorizers/transformers/info_weight.py", "column_kl_divergence_exact_prior"): ("count_indices", "count_data"),
}


def _len_forms(a: str) -> Set[str]:
    return {"%s.shape[0]" % a, "len(%s)" % a, "%s.size" % a}


_CLAMPED: Dict[int, Optional[ast.AST]] = {}


def searchsorted_sites(repo: Repo) -> List[Tuple[Func, ast.AST, ast.Call, str, str]]:
    """(function, store target, call, array text, key text)"""
    out = []
    for f in repo.all_funcs():
        if not f.is_njit:
            continue
        seen = set()
        for n in walk_no_nested(f.node):
            if isinstance(n, ast.Subscript):
                # the position used in place: A[np.searchsorted(B, k)]
                c = n.slice
                if isinstance(c, ast.Call) and repo.canonical(f.module, c.func) == "numpy.searchsorted" and len(c.args) >= 2 and id(c) not in seen:
                    seen.add(id(c))
                    out.append((f, c, c, norm(c.args[0]), norm(c.args[1])))
                    _CLAMPED[id(c)] = None
        for n in walk_no_nested(f.node):
            if isinstance(n, ast.Assign):
                # the call itself, or the call inside a clamp such as min(np.searchsorted(A, k), len(A) - 1)
                for c in ast.walk(n.value):
                    if isinstance(c, ast.Call) and repo.canonical(f.module, c.func) == "numpy.searchsorted" and len(c.args) >= 2 and id(c) not in seen:
                        seen.add(id(c))
                        out.append((f, n.targets[0], c, norm(c.args[0]), norm(c.args[1])))
                        _CLAMPED[id(c)] = n.value if c is not n.value else None
    return out


def r10_2(repo: Repo, rule: str = "R10.2") -> RuleResult:
    rr = RuleResult(rule, "a searchsorted position used as an index into the searched array is range- or membership-guarded", floor=2)
    for f, target, call, arr, key in searchsorted_sites(repo):
        pos = norm(target)
        pm = parents_map(f.node)
        uses = [n for n in walk_no_nested(f.node)
                if isinstance(n, ast.Subscript) and norm(n.slice) == pos and n is not target]
        # only reads/writes of the searched array (or a same-bounds slice of a sibling) need the guard
        sd = single_defs(f)
        arr_def = norm(sd[arr]) if arr in sd else None
        checked = 0
        # position expressed in the coordinates of the parent array: X = <slice start> + searchsorted(P[start:end], k)
        w0 = _CLAMPED.get(id(call))
        if isinstance(w0, ast.BinOp) and isinstance(w0.op, ast.Add) and arr in sd and isinstance(sd[arr], ast.Subscript) and isinstance(sd[arr].slice, ast.Slice):
            parent = norm(sd[arr].value)
            lo, hi = sd[arr].slice.lower, sd[arr].slice.upper
            other = w0.right if any(call is x for x in ast.walk(w0.left)) else w0.left
            lo_txts = {norm(lo)} | ({norm(sd[norm(lo)])} if norm(lo) in sd else set()) | {k for k, v in sd.items() if norm(v) == norm(lo)}
            if norm(other) in lo_txts and hi is not None:
                hi_txts = {norm(hi)} | {k for k, v in sd.items() if norm(v) == norm(hi)}
                for u in [n for n in walk_no_nested(f.node) if isinstance(n, ast.Subscript) and norm(n.slice) == pos and norm(n.value) == parent and n is not target]:
                    checked += 1
                    construct = "%s[%s]" % (parent, pos)
                    bound = None
                    prev = u
                    for a in ancestors(u, pm):
                        conj = []
                        if isinstance(a, ast.BoolOp) and isinstance(a.op, ast.And):
                            idx = [i for i, v in enumerate(a.values) if any(prev is x for x in ast.walk(v))]
                            conj = a.values[: idx[0]] if idx else []
                        if isinstance(a, ast.If) and any(prev is s2 or any(prev is x for x in ast.walk(s2)) for s2 in a.body):
                            conj = a.test.values if isinstance(a.test, ast.BoolOp) and isinstance(a.test.op, ast.And) else [a.test]
                        for v in conj:
                            if isinstance(v, ast.Compare) and len(v.ops) == 1 and isinstance(v.ops[0], ast.Lt) and norm(v.left) == pos:
                                bound = norm(v.comparators[0])
                        prev = a
                    if bound in hi_txts:
                        rr.ok(f, construct, "position bounded by the end of its own row slice (`%s < %s`)" % (pos, bound), u.lineno)
                    else:
                        rr.bad(f, construct,
                               "`%s` = %s + np.searchsorted(%s, ...) indexes `%s`, but it is bounded by `%s`, not by the end of the searched "
                               "slice `%s`: a key larger than every element of the row lands on the next row's first entry and is compared / "
                               "credited there" % (pos, norm(other), arr, parent, bound or "nothing", norm(hi)), u.lineno)
        for u in uses:
            base = norm(u.value)
            same = base == arr
            if not same and base in sd and arr_def is not None and isinstance(sd[base], ast.Subscript) \
                    and isinstance(sd[arr], ast.Subscript) and norm(sd[base].slice) == norm(sd[arr].slice):
                same = True  # sibling array sliced with the same bounds
            par = PARALLEL_PARAMS.get((f.file, f.qualname))
            if not same and par and arr == par[0] and base == par[1]:
                same = True
            if not same:
                continue
            checked += 1
            construct = "%s[%s]" % (base, short(u.slice, 40))
            guard = None
            prev = u
            for a in ancestors(u, pm):
                if isinstance(a, ast.BoolOp) and isinstance(a.op, ast.And):
                    idx = [i for i, v in enumerate(a.values) if any(prev is x for x in ast.walk(v))]
                    if idx:
                        for v in a.values[: idx[0]]:
                            if _is_range_guard(v, pos, arr):
                                guard = "`%s` earlier in the same conjunction" % short(v, 60)
                if isinstance(a, ast.If) and any(prev is s or any(prev is x for x in ast.walk(s)) for s in a.body):
                    for v in ([a.test] if not (isinstance(a.test, ast.BoolOp) and isinstance(a.test.op, ast.And)) else a.test.values):
                        if _is_range_guard(v, pos, arr):
                            guard = "dominating `if %s`" % short(v, 60)
                        m = _membership_guard(v, f, arr, key)
                        if m:
                            guard = m
                if isinstance(a, (ast.FunctionDef,)):
                    break
                prev = a
            wrapper = _CLAMPED.get(id(call))
            if wrapper is not None and isinstance(wrapper, ast.BinOp):
                wrapper = None  # handled as an offset position below
            if wrapper is not None:
                # min(pos, len(A) - 1): in range only if A is not empty - the empty slice gives -1
                wtxt = norm(wrapper).replace(" ", "")
                clamp = isinstance(wrapper, ast.Call) and norm(wrapper.func) == "min" and any(
                    norm(a).replace(" ", "") in ("%s-1" % lf.replace(" ", "") for lf in _len_forms(arr)) for a in wrapper.args)
                nonempty = False
                prev2 = u
                for a in ancestors(u, pm):
                    if isinstance(a, ast.If) and any(prev2 is s2 or any(prev2 is x for x in ast.walk(s2)) for s2 in a.body):
                        for v in ([a.test] if not (isinstance(a.test, ast.BoolOp) and isinstance(a.test.op, ast.And)) else a.test.values):
                            if isinstance(v, ast.Compare) and len(v.ops) == 1 and isinstance(v.ops[0], ast.Gt) and norm(v.left) in _len_forms(arr) \
                                    and norm(v.comparators[0]) == "0":
                                nonempty = True
                    prev2 = a
                if clamp and nonempty:
                    guard = "clamp min(pos, len(%s) - 1) under a non-empty test" % arr
                elif clamp:
                    # (a range test `pos < len` does not help: the clamped position is negative)
                    rr.bad(f, construct,
                           "the searchsorted position is clamped with `%s`, which is -1 when `%s` is empty (a row whose cells were all "
                           "thresholded away): the access then wraps to / reads outside the slice; a range test `pos < len(%s)` is needed"
                           % (short(wrapper, 60), arr, arr), u.lineno)
                    continue
            if guard:
                rr.ok(f, construct, "guarded by %s" % guard, u.lineno)
            else:
                rr.bad(f, construct,
                       "`%s` is the result of np.searchsorted(%s, %s) and is used to index `%s` with no range test "
                       "(`%s < %s.shape[0]`) and no membership guard: when the key exceeds every stored element the position "
                       "equals len(%s) and the access is one past the slice (the next row's data, or past the array)"
                       % (pos, arr, short(call.args[1], 40), base, pos, arr, arr), u.lineno)
        if checked == 0:
            rr.ok(f, "searchsorted(%s, ...)" % arr, "position not used to index the searched array", call.lineno, nontrivial=False)
    # the two kernels this rule was confirmed on must still be accounted for: either their searchsorted site was judged
    # above, or the kernel visibly walks its stored entries by position (no lookup, so nothing to guard)
    have = {(i.file, i.function) for i in rr.instances}
    for file, fn, ind in SEARCH_KERNELS:
        if (file, fn) in have:
            continue
        f = repo.func(file, fn)
        walk = _stored_entry_walk(f, ind)
        if walk is None:
            raise AnalysisError("%s: %s::%s neither looks positions up with np.searchsorted nor walks its stored entries by position "
                                "(unrecognised shape)" % (rule, file, fn))
        rr.ok(f, "stored-entry walk `%s`" % short(walk, 50), "every position comes from range(len(%s)): no looked-up position to guard" % ind, walk.lineno)
    return rr


# (file, kernel, index-array parameter) of the kernels that locate a key in a sorted index array
SEARCH_KERNELS = [
    ("vectorizers/coo_utils.py", "em_update_matrix", "prior_indices"),
    ("vectorizers/transformers/info_weight.py", "column_kl_divergence_exact_prior", "count_indices"),
]


def _stored_entry_walk(f: Func, ind: str) -> Optional[ast.For]:
    if ind not in f.params:
        return None
    for n in walk_no_nested(f.node):
        if isinstance(n, ast.For) and isinstance(n.iter, ast.Call) and norm(n.iter.func) == "range" and len(n.iter.args) == 1 \
                and norm(n.iter.args[0]) in _len_forms(ind) and isinstance(n.target, ast.Name):
            v = n.target.id
            if any(isinstance(x, ast.Subscript) and norm(x.value) == ind and norm(x.slice) == v for x in ast.walk(n)):
                return n
    return None


def _is_range_guard(v: ast.AST, pos: str, arr: str) -> bool:
    if isinstance(v, ast.Compare) and len(v.ops) == 1:
        l, op, r = norm(v.left), v.ops[0], norm(v.comparators[0])
        if l == pos and isinstance(op, ast.Lt) and r in _len_forms(arr):
            return True
        if r == pos and isinstance(op, ast.Gt) and l in _len_forms(arr):
            return True
    return False


def _membership_guard(v: ast.AST, f: Func, arr: str, key: str) -> Optional[str]:
    """`key in S` with S = set(arr) (single definition)."""
    if isinstance(v, ast.Compare) and len(v.ops) == 1 and isinstance(v.ops[0], ast.In) and norm(v.left) == key:
        s = norm(v.comparators[0])
        sd = single_defs(f)
        if s == "set(%s)" % arr:
            return "membership `%s in set(%s)` (requires sorted %s: established by the caller, see R17.1)" % (key, arr, arr)
        if s in sd and norm(sd[s]) == "set(%s)" % arr:
            return "membership `%s in %s` with %s = set(%s) (requires sorted %s: established by the caller, see R17.1)" % (key, s, s, arr, arr)
    return None


# --------------------------------------------------------------------------- R10.4
def _len_env(f: Func) -> Dict[str, ast.AST]:
    """Locals that alias a length: n = len(A) / A.shape[0]."""
    env = {}
    for name, v in single_defs(f).items():
        s = norm(v)
        if (s.startswith("len(") and s.endswith(")")) or s.endswith(".shape[0]"):
            env[name] = v
    return env


def _canon_len(e: ast.AST) -> ast.AST:
    """Rewrite A.shape[0] -> len(A) so both spellings meet."""

    class T(ast.NodeTransformer):
        def visit_Subscript(self, node):
            self.generic_visit(node)
            if isinstance(node.value, ast.Attribute) and node.value.attr == "shape" and norm(node.slice) == "0":
                return ast.Call(func=ast.Name(id="len", ctx=ast.Load()), args=[node.value.value], keywords=[])
            return node

    import copy

    return ast.fix_missing_locations(T().visit(copy.deepcopy(e)))


def r10_4(repo: Repo) -> RuleResult:
    rr = RuleResult("R10.4", "affine indices `A[v + c]` inside `for v in range(lo, len(A) - d)` stay within [0, len(A))", floor=8)
    for f in njit_functions(repo):
        env = _len_env(f)
        pm = None
        for lp in [n for n in walk_no_nested(f.node) if isinstance(n, ast.For)]:
            it = lp.iter
            if not (isinstance(it, ast.Call) and isinstance(it.func, ast.Name) and it.func.id == "range"
                    and 1 <= len(it.args) <= 2 and isinstance(lp.target, ast.Name)):
                continue
            v = lp.target.id
            lo = it.args[0] if len(it.args) == 2 else ast.Constant(value=0)
            hi = it.args[-1]
            p_hi = sym.poly(_canon_len(sym.substitute(hi, env)))
            p_lo = sym.poly(_canon_len(sym.substitute(lo, env)))
            for sub in [n for s in lp.body for n in ast.walk(s) if isinstance(n, ast.Subscript)]:
                if isinstance(sub.slice, (ast.Slice, ast.Tuple)):
                    continue
                p_idx = sym.poly(sub.slice)
                k, rest = sym.coeff_of(p_idx, v)
                c = sym.const_of(rest) if k == 1 else None
                if c is None or c == 0:
                    continue  # not the recognised shape (or the plain A[v])
                arr = norm(sub.value)
                p_len = sym.poly(_canon_len(ast.parse("len(%s)" % arr, mode="eval").body)) if arr.isidentifier() else None
                if p_len is None:
                    continue
                d = sym.const_of(sym.sub(p_len, p_hi))  # hi = len(A) - d
                if d is None:
                    rr.not_analysed.append("%s:%d %s[%s]: loop bound `%s` is not len(%s) - const" % (f.file, sub.lineno, arr, norm(sub.slice), norm(hi), arr))
                    continue
                construct = "%s[%s] in for %s in %s" % (arr, norm(sub.slice), v, short(it, 40))
                lo_c = sym.const_of(p_lo)
                ok_hi = c <= d
                ok_lo = lo_c is not None and lo_c + c >= 0
                how = []
                if not (ok_hi and ok_lo):
                    # an enclosing comparison on v may restore the bound
                    pm = pm or parents_map(f.node)
                    prev = sub
                    for a in ancestors(sub, pm):
                        if a is lp:
                            break
                        if isinstance(a, ast.If) and any(prev is s or any(prev is x for x in ast.walk(s)) for s in a.body):
                            tests = a.test.values if isinstance(a.test, ast.BoolOp) and isinstance(a.test.op, ast.And) else [a.test]
                            for t in tests:
                                if isinstance(t, ast.Compare) and len(t.ops) == 1 and norm(t.left) == v:
                                    rhs = sym.poly(_canon_len(sym.substitute(t.comparators[0], env)))
                                    if isinstance(t.ops[0], ast.Lt):
                                        g = sym.const_of(sym.sub(p_len, rhs))  # v < len - g
                                        if g is not None and c <= g:
                                            ok_hi = True
                                            how.append("guard `%s`" % norm(t))
                                    if isinstance(t.ops[0], ast.Gt):
                                        g = sym.const_of(rhs)
                                        if g is not None and g + 1 + c >= 0:
                                            ok_lo = True
                                            how.append("guard `%s`" % norm(t))
                        prev = a
                if ok_hi and ok_lo:
                    rr.ok(f, construct, "offset %+d within loop bound len(%s)%+d%s" % (c, arr, -d, (" and " + ", ".join(how)) if how else ""), sub.lineno)
                else:
                    rr.bad(f, construct,
                           "index %s%+d can reach %s: the loop runs %s from %s to len(%s)%+d"
                           % (v, c, "len(%s) or beyond" % arr if not ok_hi else "a negative position", v, norm(lo), arr, -d), sub.lineno)
    return rr


# --------------------------------------------------------------------------- R10.5
def prange_loops(repo: Repo) -> List[Tuple[Func, ast.For]]:
    out = []
    for f in repo.all_funcs():
        if not f.is_njit:
            continue
        for lp in [n for n in walk_no_nested(f.node) if isinstance(n, ast.For)]:
            if isinstance(lp.iter, ast.Call) and repo.canonical(f.module, lp.iter.func) == "numba.prange":
                out.append((f, lp))
    return out


def _derived_injective(f: Func, lp: ast.For, v: str) -> Set[str]:
    """Names whose value ranges are disjoint across iterations of the prange variable:
    v itself, n = v * s (s loop-invariant), and the target of an inner
    ``for x in range(n, min(n + s, R))``."""
    good = {v}
    body_assigns = {}
    for s in lp.body:
        for n in ast.walk(s):
            if isinstance(n, ast.Assign) and len(n.targets) == 1 and isinstance(n.targets[0], ast.Name):
                body_assigns.setdefault(n.targets[0].id, []).append(n.value)
    scaled: Dict[str, str] = {}
    for name, vals in body_assigns.items():
        if len(vals) == 1:
            p = sym.poly(vals[0])
            if len(p) == 1:
                (m, c), = p.items()
                if c == 1 and len(m) == 2 and v in m:
                    stride = [x for x in m if x != v][0]
                    scaled[name] = stride
                    good.add(name)
    for s in lp.body:
        for n in ast.walk(s):
            if isinstance(n, ast.For) and isinstance(n.target, ast.Name) and isinstance(n.iter, ast.Call) \
                    and isinstance(n.iter.func, ast.Name) and n.iter.func.id == "range" and len(n.iter.args) == 2:
                lo, hi = n.iter.args
                if isinstance(lo, ast.Name) and lo.id in scaled:
                    stride = scaled[lo.id]
                    hi_e = hi
                    if isinstance(hi, ast.Name) and hi.id in body_assigns and len(body_assigns[hi.id]) == 1:
                        hi_e = body_assigns[hi.id][0]
                    if isinstance(hi_e, ast.Call) and isinstance(hi_e.func, ast.Name) and hi_e.func.id == "min":
                        want = sym.poly(ast.parse("%s + %s" % (lo.id, stride), mode="eval").body)
                        if any(sym.poly(a) == want for a in hi_e.args):
                            good.add(n.target.id)
    return good


def r10_5(repo: Repo, rule: str = "R10.5") -> RuleResult:
    rr = RuleResult(rule, "prange bodies are race-free: array stores are indexed by the induction variable, scalars only reduced with +=", floor=5)
    for f, lp in prange_loops(repo):
        if not f.is_parallel:
            rr.note(f, "prange", "prange in a function compiled without parallel=True (sequential)", lp.lineno)
        v = lp.target.id if isinstance(lp.target, ast.Name) else None
        if v is None:
            raise AnalysisError("%s: prange target is not a simple name in %s" % (rule, f.key))
        good = _derived_injective(f, lp, v)
        local = set()
        for s in lp.body:
            for n in ast.walk(s):
                if isinstance(n, ast.Assign):
                    for t in n.targets:
                        local |= set(target_names(t))
                elif isinstance(n, ast.For):
                    local |= set(target_names(n.target))
        problems = []
        n_stores = 0
        for s in lp.body:
            for n in ast.walk(s):
                targets = []
                if isinstance(n, ast.Assign):
                    targets = n.targets
                elif isinstance(n, ast.AugAssign):
                    targets = [n.target]
                for t in targets:
                    if isinstance(t, ast.Subscript):
                        base = t.value
                        while isinstance(base, ast.Subscript):
                            base = base.value
                        bname = norm(base)
                        if bname in local:
                            continue  # array created inside the iteration
                        n_stores += 1
                        idx_names = names_in(t.slice)
                        inner = t.value
                        while isinstance(inner, ast.Subscript):
                            idx_names |= names_in(inner.slice)
                            inner = inner.value
                        if not (idx_names & good):
                            problems.append("store `%s` at line %d is not indexed by the prange variable `%s`" % (short(t, 50), t.lineno, v))
                    elif isinstance(t, ast.Name) and isinstance(n, ast.AugAssign) and t.id not in local:
                        if not isinstance(n.op, (ast.Add, ast.Mult)):
                            problems.append("scalar `%s` updated with a non-reduction operator" % t.id)
                    elif isinstance(t, ast.Name) and isinstance(n, ast.Assign):
                        pass
            # calls that mutate a shared argument would also race: only repo mutators on non-local arrays
        construct = "prange(%s) over `%s`" % (short(lp.iter.args[0], 40) if lp.iter.args else "", v)
        if problems:
            rr.bad(f, construct, "; ".join(problems), lp.lineno)
        else:
            rr.ok(f, construct, "%d array store(s), all indexed by %s" % (n_stores, sorted(good)), lp.lineno)
    return rr


def r10_3(repo: Repo) -> RuleResult:
    return r4_1(repo, "R10.3")


def _is_np_empty(repo: Repo, f: Func, e: ast.AST) -> bool:
    return isinstance(e, ast.Call) and repo.canonical(f.module, e.func) == "numpy.empty"


def r10_6(repo: Repo, rule: str = "R10.6", files: Optional[Set[str]] = None, floor: int = 5) -> RuleResult:
    """A buffer created with np.empty (directly, or as a list of np.empty placeholders) holds garbage until it is
    written.  The loop that fills it must therefore write its slot on *every* iteration: a store under a condition
    (with no store on the other arm) leaves the placeholder of the skipped iterations in the result."""
    rr = RuleResult(rule, "slots of np.empty buffers / placeholder lists are written on every iteration of the filling loop", floor=floor)
    for f in njit_functions(repo, files):
        pm = parents_map(f.node)
        bufs: Dict[str, ast.AST] = {}
        for n in walk_no_nested(f.node):
            if isinstance(n, ast.Assign) and len(n.targets) == 1 and isinstance(n.targets[0], ast.Name):
                v = n.value
                if _is_np_empty(repo, f, v):
                    bufs[n.targets[0].id] = n
                else:
                    inner = v.args[0] if isinstance(v, ast.Call) and v.args and norm(v.func).endswith("List") else v
                    if isinstance(inner, ast.ListComp) and _is_np_empty(repo, f, inner.elt):
                        bufs[n.targets[0].id] = n
        for b, alloc in bufs.items():
            stores = []
            for n in walk_no_nested(f.node):
                if isinstance(n, ast.Assign) and len(n.targets) == 1 and isinstance(n.targets[0], ast.Subscript):
                    base = n.targets[0]
                    while isinstance(base, ast.Subscript):
                        base = base.value
                    if isinstance(base, ast.Name) and base.id == b:
                        stores.append(n)
            construct = "%s = %s" % (b, short(alloc.value, 50))
            if not stores:
                rr.note(f, construct, "no element store found (buffer filled by a callee or by slices): not judged", alloc.lineno)
                continue
            bad = None
            for st in stores:
                loops = [a for a in ancestors(st, pm) if isinstance(a, (ast.For, ast.While))]
                if not loops:
                    continue
                prev = st
                for a in ancestors(st, pm):
                    if a is loops[-1]:
                        break
                    if isinstance(a, ast.If):
                        arm_other = a.orelse if any(prev is x for x in a.body) else a.body
                        other_stores = [s_ for s_ in stores if any(s_ is x for o in arm_other for x in ast.walk(o))]
                        if not other_stores:
                            bad = (st, a)
                    elif isinstance(a, (ast.Try,)):
                        bad = (st, a)
                    prev = a
            if bad:
                st, cond = bad
                rr.bad(f, construct,
                       "the slot store `%s` (line %d) runs only under `%s`: iterations that skip it leave the uninitialised np.empty "
                       "placeholder in the result (garbage that differs from call to call)" % (short(st, 50), st.lineno,
                                                                                             short(cond.test, 40) if isinstance(cond, ast.If) else "try"), st.lineno)
            else:
                rr.ok(f, construct, "%d store(s), each executed on every iteration of its loop" % len(stores), alloc.lineno)
    return rr


def r10_7(repo: Repo, rule: str = "R10.7") -> RuleResult:
    """Merge loops walk their inputs with cursors: `while i1 < ind1.shape[0] and i2 < ind2.shape[0]: ... ind1[i1] ...`.
    Every cursor that indexes a parameter array inside such a loop must be bounded by the loop test, strictly, by the
    length of an array it indexes (arrays indexed by the same cursor are parallel by the callers' convention)."""
    rr = RuleResult(rule, "cursors that index parameter arrays inside a while loop are strictly bounded by the loop test", floor=6)
    for f in njit_functions(repo):
        params = set(f.params)
        cursors = set()
        for n in walk_no_nested(f.node):
            if isinstance(n, ast.AugAssign) and isinstance(n.target, ast.Name) and isinstance(n.op, ast.Add) and norm(n.value) == "1":
                cursors.add(n.target.id)
        if not cursors:
            continue
        # arrays indexed by each cursor anywhere in the function (parallel groups)
        group: Dict[str, Set[str]] = {}
        for n in walk_no_nested(f.node):
            if isinstance(n, ast.Subscript) and isinstance(n.value, ast.Name) and n.value.id in params and isinstance(n.slice, ast.Name) \
                    and n.slice.id in cursors:
                group.setdefault(n.slice.id, set()).add(n.value.id)
        for w in [n for n in walk_no_nested(f.node) if isinstance(n, ast.While)]:
            conj = w.test.values if isinstance(w.test, ast.BoolOp) and isinstance(w.test.op, ast.And) else [w.test]
            used = {}
            for st in w.body:
                for n in ast.walk(st):
                    if isinstance(n, ast.Subscript) and isinstance(n.ctx, ast.Load) and isinstance(n.value, ast.Name) and n.value.id in params \
                            and isinstance(n.slice, ast.Name) and n.slice.id in cursors:
                        used.setdefault(n.slice.id, n)
            for c, site in sorted(used.items()):
                lens = set()
                for a in group.get(c, ()):
                    lens |= _len_forms(a)
                bound = None
                for v in conj:
                    if isinstance(v, ast.Compare) and len(v.ops) == 1 and norm(v.left) == c and norm(v.comparators[0]) in lens:
                        bound = v
                construct = "cursor `%s` in `while %s`" % (c, short(w.test, 50))
                if bound is None:
                    rr.bad(f, construct, "`%s[%s]` is read in the loop but the loop test does not bound `%s` by the length of %s: the read runs "
                           "past the end of the array when the other input is longer" % (site.value.id, c, c, sorted(group.get(c, ()))), w.lineno)
                elif isinstance(bound.ops[0], ast.Lt):
                    rr.ok(f, construct, "`%s`" % norm(bound), w.lineno)
                else:
                    rr.bad(f, construct, "the bound `%s` is not strict: the last iteration reads `%s[%s]` one past the end" % (norm(bound), site.value.id, c), w.lineno)
    return rr


def r10_8(repo: Repo, rule: str = "R10.8") -> RuleResult:
    """`A[len(A) - 1]` is index -1 when A is empty: without bounds checking that is silent (the last byte before the
    buffer / Python's wrap-around), with bounds checking or in interpreter mode an IndexError.  The read must sit
    under a test that the length is positive."""
    from .common import rel_under

    rr = RuleResult(rule, "reads of the last element `A[len(A) - 1]` of a parameter array are dominated by a non-empty test", floor=1)
    for f in njit_functions(repo):
        sd = single_defs(f)
        g = None
        pm = parents_map(f.node)
        for n in walk_no_nested(f.node):
            if not (isinstance(n, ast.Subscript) and isinstance(n.ctx, ast.Load) and isinstance(n.value, ast.Name) and n.value.id in f.params
                    and not isinstance(n.slice, (ast.Slice, ast.Tuple))):
                continue
            a = n.value.id
            e = norm(expand_locals(n.slice, f, 3)).replace(" ", "")
            if e not in {lf.replace(" ", "") + "-1" for lf in _len_forms(a)}:
                continue
            lens = set(_len_forms(a)) | {k for k, v in sd.items() if norm(v) in _len_forms(a)}
            if g is None:
                g = CFG(f.node)
            ok = None
            # conjunct earlier in the same test, or a dominating test
            prev = n
            for anc in ancestors(n, pm):
                if isinstance(anc, ast.BoolOp) and isinstance(anc.op, ast.And):
                    idx = [i for i, v in enumerate(anc.values) if any(prev is x for x in ast.walk(v))]
                    for v in (anc.values[: idx[0]] if idx else []):
                        r = rel_under(v, "true")
                        if r and r[0] == "lt" and r[1] in ("0", "0.0") and r[2] in lens:
                            ok = norm(v)
                if isinstance(anc, ast.stmt):
                    break
                prev = anc
            st = enclosing_stmt(n, pm)
            for t, lab in g.guards_of(g.node_for(st)):
                ta = g.nodes[t].ast
                if not isinstance(ta, ast.AST):
                    continue
                conj = ta.values if isinstance(ta, ast.BoolOp) and isinstance(ta.op, ast.And) and lab == "true" else [ta]
                for v in conj:
                    r = rel_under(v, lab)
                    if r and ((r[0] == "lt" and r[1] in ("0", "0.0") and r[2] in lens) or (r[0] == "le" and r[1] in ("1",) and r[2] in lens)
                              or (r[0] == "ne" and any(frozenset((L, z)) == r[1] for L in lens for z in ("0",)))):
                        ok = norm(v)
            construct = "%s[len(%s) - 1]" % (a, a)
            if ok:
                rr.ok(f, construct, "under `%s`" % ok, n.lineno)
            else:
                rr.bad(f, construct, "`%s` reads the last element of `%s` with no dominating test that `%s` is non-empty: for an empty array the index "
                       "is -1 - an out-of-bounds read in the compiled kernel, an IndexError with bounds checking or without compilation"
                       % (norm(n), a, a), n.lineno)
    return rr


_NARROW16 = {"uint8", "int8", "uint16", "int16"}
_NARROW32 = {"uint32", "int32"}


def _declared_locals(f: Func) -> Dict[str, str]:
    """name -> numba type name declared through @njit(locals=...)."""
    v = f.njit_kwargs.get("locals")
    out: Dict[str, str] = {}
    if isinstance(v, ast.Dict):
        for k, t in zip(v.keys, v.values):
            if isinstance(k, ast.Constant) and isinstance(k.value, str):
                out[k.value] = norm(t).rsplit(".", 1)[-1]
    elif isinstance(v, ast.Call) and norm(v.func) == "dict":
        for k in v.keywords:
            if k.arg:
                out[k.arg] = norm(k.value).rsplit(".", 1)[-1]
    return out


def r10_9(repo: Repo, rule: str = "R10.9", only: Optional[Set[str]] = None) -> RuleResult:
    """@njit(locals={...}) pins the machine type of a variable.  A flat index or key computed as a product / sum of
    other quantities (`arc = i * m + j`) wraps around silently when it is pinned to 16 bits (or, for a product of two
    sizes, 32 bits), and the wrapped value is then used to address an array."""
    rr = RuleResult(rule, "variables holding computed indices are not pinned to a narrow integer type by @njit(locals=...)", floor=1)
    for f in njit_functions(repo):
        if only is not None and f.qualname not in only:
            continue
        decl = _declared_locals(f)
        if not decl:
            if only is not None:
                rr.ok(f, "locals=", "no variable is pinned to a machine type", f.node.lineno, nontrivial=False)
            continue
        for name, ty in sorted(decl.items()):
            vals = [n.value for n in walk_no_nested(f.node) if isinstance(n, ast.Assign) and any(isinstance(t, ast.Name) and t.id == name for t in n.targets)]
            vals += [n.value for n in walk_no_nested(f.node) if isinstance(n, ast.AugAssign) and isinstance(n.target, ast.Name) and n.target.id == name]
            arith = [v for v in vals if any(isinstance(x, ast.BinOp) and isinstance(x.op, (ast.Mult, ast.Add, ast.LShift)) and
                                            not (isinstance(x.left, ast.Constant) and isinstance(x.right, ast.Constant)) for x in ast.walk(v))]
            product = [v for v in arith if any(isinstance(x, ast.BinOp) and isinstance(x.op, ast.Mult) and not isinstance(x.left, ast.Constant)
                                               and not isinstance(x.right, ast.Constant) for x in ast.walk(v))]
            as_index = any(isinstance(n, ast.Subscript) and name in {x.id for x in ast.walk(n.slice) if isinstance(x, ast.Name)} for n in walk_no_nested(f.node)) \
                or any(isinstance(n, ast.Call) and any(isinstance(a, ast.Name) and a.id == name for a in n.args) for n in walk_no_nested(f.node))
            construct = "locals %s: %s" % (name, ty)
            if ty in _NARROW16 and arith and as_index:
                rr.bad(f, construct, "`%s` is computed as `%s` and used to address an array, but is pinned to %s: it wraps around at %d, so larger "
                       "problems read the wrong entries" % (name, short(arith[0], 40), ty, 2 ** (8 if "8" in ty else 16)), f.node.lineno)
            elif ty in _NARROW32 and product and as_index:
                rr.bad(f, construct, "`%s` is a product of two sizes (`%s`) pinned to %s: it wraps around at 2**32" % (name, short(product[0], 40), ty), f.node.lineno)
            else:
                rr.ok(f, construct, "not an arithmetic index narrower than the values it can take", f.node.lineno)
    return rr


def r10_10(repo: Repo, rule: str = "R10.10") -> RuleResult:
    """arr_unique builds its keep-mask as `concatenate((ones(1), aux[1:] != aux[:-1]))`: for an empty input the mask has
    length 1 and the array length 0, so `aux[mask]` reads one element past a zero-length buffer (an IndexError with
    bounds checking or without compilation).  Every caller must therefore exclude the all-empty case first."""
    from .common import rel_under

    rr = RuleResult(rule, "arr_unique is only called on an array known to be non-empty (callers return early for empty inputs)", floor=1)
    DIST = "vectorizers/distances.py"
    uniq = repo.func(DIST, "arr_unique")
    # if arr_unique guards itself, every caller is fine
    self_guard = any(isinstance(n, ast.If) and any(isinstance(x, ast.Return) for x in n.body) and
                     any(norm(c).replace(" ", "") in ("%s.shape[0]==0" % uniq.params[0], "len(%s)==0" % uniq.params[0], "%s.size==0" % uniq.params[0])
                         for c in ast.walk(n.test) if isinstance(c, ast.Compare)) for n in uniq.node.body)
    for f in repo.module(DIST).all_funcs:
        for c in repo.calls_in(f):
            if uniq not in repo.resolve_call(f, c):
                continue
            construct = "arr_unique(%s)" % short(c.args[0], 40) if c.args else "arr_unique()"
            if self_guard:
                rr.ok(f, construct, "arr_unique returns early for an empty array itself", c.lineno)
                continue
            parts = [x.id for x in ast.walk(c.args[0]) if isinstance(x, ast.Name) and x.id in f.params]
            g = CFG(f.node)
            pm = parents_map(f.node)
            nid = g.node_for(enclosing_stmt(c, pm))
            known = set()
            for t, lab in g.guards_of(nid):
                ta = g.nodes[t].ast
                if not isinstance(ta, ast.AST):
                    continue
                r = rel_under(ta, lab)
                if r is None:
                    continue
                for p_ in parts:
                    lens = _len_forms(p_)
                    if (r[0] == "ne" and any(frozenset((L, "0")) == r[1] for L in lens)) or (r[0] == "lt" and r[1] == "0" and r[2] in lens):
                        known.add(p_)
            if known:
                rr.ok(f, construct, "reached only when %s is non-empty" % sorted(known), c.lineno)
            else:
                rr.bad(f, construct, "arr_unique is reached without excluding empty inputs (%s): for two empty index arrays its mask `concatenate((ones(1), "
                       "aux[1:] != aux[:-1]))` is one longer than the array and `aux[mask]` reads past a zero-length buffer" % sorted(set(parts)), c.lineno)
    return rr


RULES = [r10_1, r10_2, r10_3, r10_4, r10_5, r10_6, r10_7, r10_8, r10_9, r10_10]

CLAIM = (
    "R10.1 definite assignment (with the for-loop zero-trip edge) in all njit functions; R10.2 every np.searchsorted "
    "result that indexes the searched array is range-guarded or membership-guarded; R10.3 fixed-capacity accumulators "
    "are re-bound after append (=R4.1); R10.4 affine index bounds for the recognised `for v in range(lo, len(A)-d)` "
    "shapes; R10.5 prange stores are indexed by the induction variable; R10.6 slots of np.empty buffers and placeholder "
    "lists are stored on every iteration of their filling loop (no one-armed conditional around the store); R10.7 cursors that "
    "index parameter arrays inside a while (merge) loop are strictly bounded by the loop test against the length of an array they index; "
    "R10.8 a read of the last element `A[len(A) - 1]` of a parameter array is dominated by a test that A is non-empty; R10.9 no "
    "computed index is pinned to a narrow integer type through @njit(locals=...); R10.10 arr_unique, whose keep-mask is one longer than an "
    "empty input, is only called where an input is known to be non-empty."
)
NOT_DECIDED = (
    "indices that are data (window_size_array[i, target_word], baseline_probabilities[idx], token ids beyond a "
    "user-supplied dictionary's frequency table): their range is a runtime fact; the 'same result under "
    "NUMBA_DISABLE_JIT / boundscheck' clause is about execution and is not claimed; index sites outside the recognised "
    "loop shapes are listed as not analysed."
)


def THOROUGH(repo: Repo):
    """Cross-reference only: Python-level possibly-undefined names (outside C10's 'compiled kernel' wording)."""
    notes = []
    for f in repo.all_funcs():
        if f.is_njit:
            continue
        g = CFG(f.node)
        for n, name in definite_assignment(g, all_params(f)):
            notes.append("%s:%d %s: `%s` possibly unbound (Python level, not a C10 violation)" % (f.file, n.lineno, f.qualname, name))
    return {"python_level_possibly_undefined": notes}
