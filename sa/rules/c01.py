"""C01 - transform returns one row per input item in the fitted column space."""
from __future__ import annotations

import ast
from typing import Dict, List, Optional, Set, Tuple

from ..agree import collect_sites
from ..cfg import target_names
from ..kinds import KindEngine
from ..model import AnalysisError, Cls, Func, Repo, is_self_attr, short, walk_no_nested
from ..report import RuleResult
from .common import (
    ancestors,
    enclosing_stmt,
    expand_locals,
    exported_estimators,
    loop_level_jumps,
    names_in,
    norm,
    parents_map,
    tainted_names,
)

SPARSE_CTORS = {
    "scipy.sparse.coo_matrix", "scipy.sparse.csr_matrix", "scipy.sparse.csc_matrix",
    "scipy.sparse.coo_array", "scipy.sparse.csr_array", "scipy.sparse.csc_array",
}


def triple_kind(arg: ast.AST) -> Optional[str]:
    """'coo' for (data, (row, col)), 'csr' for (data, indices, indptr), None for a
    shape tuple or anything else."""
    if isinstance(arg, ast.Tuple):
        if len(arg.elts) == 3:
            return "csr"
        if len(arg.elts) == 2 and isinstance(arg.elts[1], (ast.Tuple, ast.List)) and len(arg.elts[1].elts) == 2:
            return "coo"
    return None


def sparse_triple_sites(repo: Repo, f: Func) -> List[Tuple[ast.Call, str, str]]:
    out = []
    for call in repo.calls_in(f):
        canon = repo.canonical(f.module, call.func)
        if canon in SPARSE_CTORS and call.args:
            k = triple_kind(call.args[0])
            if k is None and isinstance(call.args[0], ast.Name):
                k = triple_kind(expand_locals(call.args[0], f, 1))
            if k:
                out.append((call, k, canon.rsplit(".", 1)[1]))
    return out


def transform_taint(repo: Repo, c: Cls) -> Dict[Func, Set[str]]:
    """Per transform-reachable function: names derived from transform's data arguments."""
    tr = repo.resolve_method(c, "transform")
    if tr is None:
        return {}
    seeds: Dict[Func, Set[str]] = {tr: {p for p in tr.params if p != "self"}}
    sites = collect_sites(repo, c, "transform")
    for _ in range(5):
        changed = False
        for s in sites:
            if s.caller not in seeds:
                continue
            t = tainted_names(s.caller, seeds[s.caller])
            for p, e in s.raw.items():
                if p in ("*", "**"):
                    continue
                if names_in(e) & t:
                    cur = seeds.setdefault(s.callee, set())
                    if p not in cur:
                        cur.add(p)
                        changed = True
            seeds.setdefault(s.callee, set())
        if not changed:
            break
    return {f: tainted_names(f, s) for f, s in seeds.items()}


def _user_supplied(repo: Repo, c: Cls, attr: str):
    """Name of the constructor parameter that some method of c stores unchanged in self.<attr>, if any."""
    init = repo.resolve_method(c, "__init__")
    params = set(init.params) if init is not None else set()
    for k in repo.mro(c):
        if isinstance(k, str):
            continue
        for g in k.methods.values():
            for n in walk_no_nested(g.node):
                if isinstance(n, ast.Assign) and any(is_self_attr(t, attr) for t in n.targets) and is_self_attr(n.value) and n.value.attr in params:
                    return n.value.attr
    return None


# --------------------------------------------------------------------------- R1.1
def r1_1(repo: Repo) -> RuleResult:
    rr = RuleResult(
        "R1.1", "sparse results assembled on the transform path carry shape= with a fitted column extent", floor=8
    )
    seen: Set[Tuple[str, int]] = set()
    for c in exported_estimators(repo):
        taint = transform_taint(repo, c)
        for f in repo.reachable_from(c, "transform"):
            sites = sparse_triple_sites(repo, f)
            for idx, (call, kind, ctor) in enumerate(sites):
                key = (f.key, idx)
                if key in seen:
                    continue
                seen.add(key)
                construct = "%s(%s triple)#%d" % (ctor, kind, idx)
                shape = None
                for k in call.keywords:
                    if k.arg == "shape":
                        shape = k.value
                if shape is None and len(call.args) >= 2:
                    shape = call.args[1]
                if shape is None:
                    rr.bad(f, construct,
                           "%s built from a %s triple without shape=: scipy infers the width from the largest column "
                           "present in this input, so the number of columns depends on X' instead of the fitted vocabulary"
                           % (ctor, kind), call.lineno)
                    continue
                sh = expand_locals(shape, f, 3)
                t = taint.get(f, set())
                if not (isinstance(sh, ast.Tuple) and len(sh.elts) == 2):
                    # a whole shape taken from fitted state, e.g. shape=self._train_matrix.shape
                    if not (names_in(sh) & t) and any(is_self_attr(n) for n in ast.walk(sh)):
                        rr.ok(f, construct, "shape=%s: taken from fitted state" % short(sh, 60), call.lineno)
                        continue
                    raise AnalysisError("R1.1: shape argument `%s` in %s is not a recognisable 2-tuple" % (short(shape), f.key))
                col = sh.elts[1]
                # an extent written as len(<label dictionary>) bounds the indices only when the dictionary was
                # enumerated by the estimator itself; one handed in by the caller may use any indices
                loose = None
                for dim in sh.elts:
                    for x in ast.walk(dim):
                        if isinstance(x, ast.Call) and norm(x.func) == "len" and x.args and is_self_attr(x.args[0]):
                            src = _user_supplied(repo, c, x.args[0].attr)
                            if src:
                                loose = (x.args[0].attr, src)
                if loose:
                    rr.bad(f, construct,
                           "the extent `len(self.%s)` counts the entries of a dictionary that fit takes over unchanged from the constructor "
                           "parameter `%s`: a supplied dictionary need not use the indices 0..n-1, so an index can lie outside the matrix "
                           "(or the matrix is narrower than the fitted one)" % loose, call.lineno)
                    continue
                bad = sorted(names_in(col) & t)
                if bad:
                    rr.bad(f, construct,
                           "column extent `%s` is derived from the transform input (%s), not from fitted state"
                           % (short(col), ", ".join(bad)), call.lineno)
                else:
                    rr.ok(f, construct, "shape=(%s, %s): column extent over fitted state only" % (short(sh.elts[0], 40), short(col, 60)),
                          call.lineno)
    return rr


# --------------------------------------------------------------------------- R1.2 / R1.3
def _csr_names(repo: Repo, f: Func):
    """(data, indices, indptr) accumulator names of the CSR triples built in f."""
    out = []
    for call, kind, ctor in sparse_triple_sites(repo, f):
        if kind == "csr":
            arg = call.args[0]
            if isinstance(arg, ast.Name):
                arg = expand_locals(arg, f, 1)
            names = [e.id if isinstance(e, ast.Name) else None for e in arg.elts]
            if all(names):
                out.append(tuple(names))
    return out


def _appends(stmts, name: str, pm) -> List[ast.Call]:
    out = []
    for s in stmts:
        for n in ast.walk(s):
            if (
                isinstance(n, ast.Call)
                and isinstance(n.func, ast.Attribute)
                and n.func.attr in ("append", "extend")
                and isinstance(n.func.value, ast.Name)
                and n.func.value.id == name
            ):
                out.append(n)
    return out


def _one_per_item_summary(repo: Repo, f: Func, call: ast.Call) -> Optional[Tuple[int, str]]:
    """If `call` resolves to a repo function that returns (indices, data, ...) lists to
    which it appends exactly once per item of ``<param>.items()`` unconditionally,
    return (position of that param in the call, returned-tuple description)."""
    for t in repo.resolve_call(f, call):
        if not isinstance(t, Func):
            continue
        rets = [n for n in walk_no_nested(t.node) if isinstance(n, ast.Return)]
        if len(rets) != 1 or not isinstance(rets[0].value, ast.Tuple):
            continue
        ret_names = [e.id for e in rets[0].value.elts if isinstance(e, ast.Name)]
        loops = [n for n in t.node.body if isinstance(n, ast.For)]
        if len(loops) != 1:
            continue
        lp = loops[0]
        it = lp.iter
        if not (isinstance(it, ast.Call) and isinstance(it.func, ast.Attribute) and it.func.attr in ("items", "keys", "values")
                and isinstance(it.func.value, ast.Name) and it.func.value.id in t.params):
            continue
        if loop_level_jumps(lp):
            continue
        ok = True
        for rn in ret_names:
            top = [s for s in lp.body if isinstance(s, ast.Expr) and isinstance(s.value, ast.Call)
                   and isinstance(s.value.func, ast.Attribute) and s.value.func.attr == "append"
                   and isinstance(s.value.func.value, ast.Name) and s.value.func.value.id == rn]
            allapp = [n for n in ast.walk(lp) if isinstance(n, ast.Call) and isinstance(n.func, ast.Attribute)
                      and n.func.attr in ("append", "extend") and isinstance(n.func.value, ast.Name) and n.func.value.id == rn]
            if len(top) != 1 or len(allapp) != 1:
                ok = False
        if ok:
            return t.positional_params.index(it.func.value.id), t.name
    return None


def _row_loops_with_indptr(f: Func, indptr: str) -> List[ast.For]:
    loops = []
    for n in walk_no_nested(f.node):
        if isinstance(n, ast.For):
            if any(
                isinstance(c, ast.Call) and isinstance(c.func, ast.Attribute) and c.func.attr == "append"
                and isinstance(c.func.value, ast.Name) and c.func.value.id == indptr
                for s in n.body for c in ast.walk(s)
            ):
                loops.append(n)
    # keep outermost loops only
    out = []
    for lp in loops:
        if not any(lp is not o and any(lp is x for x in ast.walk(o)) for o in loops):
            out.append(lp)
    return out


def r1_2(repo: Repo) -> RuleResult:
    rr = RuleResult("R1.2", "CSR row pointer advances by exactly the number of indices appended for the row", floor=6)
    funcs: List[Func] = []
    for c in exported_estimators(repo):
        for e in ("fit", "fit_transform", "transform"):
            for f in repo.reachable_from(c, e):
                if f not in funcs:
                    funcs.append(f)
    for f in funcs:
        for data, indices, indptr in _csr_names(repo, f):
            pm = parents_map(f.node)
            for lp in _row_loops_with_indptr(f, indptr):
                pcalls = [c for c in _appends(lp.body, indptr, pm) if c.func.attr == "append"]
                construct = "%s.append in row loop over `%s`" % (indptr, short(lp.iter, 40))
                if len(pcalls) != 1:
                    raise AnalysisError("R1.2: %d appends to %s in one row loop of %s" % (len(pcalls), indptr, f.key))
                arg = pcalls[0].args[0]
                s_arg = norm(arg)
                if s_arg == "len(%s)" % indices:
                    rr.ok(f, construct, "indptr.append(len(indices))", pcalls[0].lineno)
                    continue
                # indptr[-1] + len(c)
                c_name = None
                if isinstance(arg, ast.BinOp) and isinstance(arg.op, ast.Add):
                    parts = [arg.left, arg.right]
                    last = [p for p in parts if norm(p) == "%s[-1]" % indptr]
                    lens = [p for p in parts if isinstance(p, ast.Call) and isinstance(p.func, ast.Name) and p.func.id == "len"
                            and len(p.args) == 1 and isinstance(p.args[0], ast.Name)]
                    if len(last) == 1 and len(lens) == 1:
                        c_name = lens[0].args[0].id
                if c_name is None:
                    raise AnalysisError("R1.2: unrecognised row-pointer expression `%s` in %s" % (s_arg, f.key))
                icalls = _appends(lp.body, indices, pm)
                verdict = None
                for ic in icalls:
                    st = enclosing_stmt(ic, pm)
                    direct = any(st is s for s in lp.body)
                    a0 = ic.args[0] if ic.args else None
                    if ic.func.attr == "extend" and direct and a0 is not None:
                        sa0 = norm(a0)
                        if sa0 in ("%s.keys()" % c_name, c_name, "%s.values()" % c_name):
                            verdict = ("ok", "indices.extend(%s) once per row, pointer advanced by len(%s)" % (sa0, c_name))
                            break
                        if isinstance(a0, ast.Name):
                            # new_indices from a helper with a one-append-per-item summary over c_name
                            for s in lp.body:
                                if isinstance(s, ast.Assign) and isinstance(s.value, ast.Call) and a0.id in [
                                    x for t in s.targets for x in target_names(t)
                                ]:
                                    summ = _one_per_item_summary(repo, f, s.value)
                                    if summ is not None:
                                        pos, hname = summ
                                        helper = [t for t in repo.resolve_call(f, s.value) if isinstance(t, Func)][0]
                                        bound_h = repo.bind_args(helper, s.value)
                                        if norm(bound_h.get(helper.positional_params[pos], ast.Constant(value=None))) == c_name:
                                            verdict = ("ok", "indices.extend(%s) from %s: one index per item of %s" % (a0.id, hname, c_name))
                            if verdict:
                                break
                if verdict is None:
                    cond = [ic for ic in icalls if not any(enclosing_stmt(ic, pm) is s for s in lp.body)]
                    if cond:
                        ic = cond[0]
                        guards = [a for a in ancestors(ic, pm) if isinstance(a, ast.If) and any(a is x for x in ast.walk(lp))]
                        if guards:
                            rr.bad(f, construct,
                                   "row pointer advances by len(%s) but %s.%s is conditional (`if %s`): a row with an entry that "
                                   "fails the test gets a pointer beyond its data - CSR arrays inconsistent"
                                   % (c_name, indices, ic.func.attr, short(guards[0].test, 60)), pcalls[0].lineno)
                            continue
                    raise AnalysisError("R1.2: cannot relate appends to `%s` with len(%s) in %s" % (indices, c_name, f.key))
                rr.ok(f, construct, verdict[1], pcalls[0].lineno)
    return rr


def _same_length(a: ast.AST, b: ast.AST) -> Optional[bool]:
    """Do the iterables handed to indices.extend / data.extend have the same length by construction?  None = unknown form."""
    sa, sb = norm(a), norm(b)
    for x, y in ((sa, sb), (sb, sa)):
        if x.endswith(".keys()") and y == x[:-7] + ".values()":
            return True
        if x.endswith(".keys()") and y == x[:-7]:
            return True
    for lst, other in ((a, b), (b, a)):
        if isinstance(lst, ast.Name):
            L = lst.id
            so = norm(other)
            if "range(len(%s))" % L in so and isinstance(other, (ast.ListComp, ast.GeneratorExp)) and len(other.generators) == 1 and not other.generators[0].ifs:
                return True
            if isinstance(other, ast.BinOp) and isinstance(other.op, ast.Mult) and "len(%s)" % L in (norm(other.left), norm(other.right)):
                return True
            if isinstance(other, ast.Call) and norm(other.func) in ("np.ones", "numpy.ones", "np.full") and other.args and "len(%s)" % L in norm(other.args[0]):
                return True
            if isinstance(other, (ast.ListComp, ast.GeneratorExp)) and len(other.generators) == 1 and not other.generators[0].ifs \
                    and norm(other.generators[0].iter) == L:
                return True
    if isinstance(a, ast.Name) and isinstance(b, ast.Name):
        return None
    return None


def r1_2b(repo: Repo) -> RuleResult:
    """The value array of a CSR triple assembled in a row loop grows in lockstep with the index array: scipy rejects
    (or, for equal totals, misreads) a triple whose data and indices have different lengths."""
    rr = RuleResult("R1.2b", "CSR data and indices are extended together, by iterables of the same length", floor=4)
    funcs: List[Func] = []
    for c in exported_estimators(repo):
        for e in ("fit", "fit_transform", "transform"):
            for f in repo.reachable_from(c, e):
                if f not in funcs:
                    funcs.append(f)
    for f in funcs:
        for data, indices, indptr in _csr_names(repo, f):
            pm = parents_map(f.node)
            for lp in _row_loops_with_indptr(f, indptr):
                ic = _appends(lp.body, indices, pm)
                dc = _appends(lp.body, data, pm)
                construct = "%s / %s in row loop over `%s`" % (data, indices, short(lp.iter, 40))

                def block_of(call):
                    st = enclosing_stmt(call, pm)
                    return id(pm.get(id(st))), [a for a in ("body", "orelse") if any(st is x for x in getattr(pm.get(id(st)), a, []))]

                if len(ic) != len(dc) or sorted(map(str, map(block_of, ic))) != sorted(map(str, map(block_of, dc))):
                    rr.bad(f, construct, "%d append/extend call(s) to %s but %d to %s (or in different blocks): the two arrays of the CSR triple "
                           "end up with different lengths and the constructor raises" % (len(ic), indices, len(dc), data), lp.lineno)
                    continue
                verdicts = []
                for i_call in ic:
                    mates = [d for d in dc if block_of(d) == block_of(i_call)]
                    d_call = mates[0]
                    if i_call.func.attr != d_call.func.attr:
                        verdicts.append(False)
                    elif i_call.func.attr == "append":
                        verdicts.append(True)
                    else:
                        verdicts.append(_same_length(i_call.args[0], d_call.args[0]) if i_call.args and d_call.args else None)
                if any(v is False for v in verdicts):
                    rr.bad(f, construct, "one array is appended to where the other is extended: lengths differ", lp.lineno)
                elif all(v is True for v in verdicts):
                    rr.ok(f, construct, "%d paired call(s), equal lengths by construction" % len(ic), lp.lineno)
                else:
                    rr.ok(f, construct, "%d paired call(s) (lengths of the extended iterables not compared: unrecognised form)" % len(ic), lp.lineno, nontrivial=False)
    return rr


def _iteration_paths(stmts, action_ids) -> Set[Tuple[int, str]]:
    """(number of row actions, outcome) of every structured path through one iteration of a loop body; outcome is
    'fall' (reaches the end of the body), 'continue', 'break', 'return' or 'raise'.  Row actions inside an inner loop
    count as 9 (many)."""
    states = {(0, "fall")}
    for st in stmts:
        nxt = set()
        for cnt, out in states:
            if out != "fall":
                nxt.add((cnt, out))
                continue
            if id(st) in action_ids:
                nxt.add((cnt + 1, "fall"))
            elif isinstance(st, ast.If):
                for arm in (st.body, st.orelse):
                    for c2, o2 in _iteration_paths(arm, action_ids):
                        nxt.add((cnt + c2, o2))
            elif isinstance(st, (ast.For, ast.While)):
                inner = any(id(x) in action_ids for y in st.body for x in ast.walk(y))
                nxt.add((cnt + (9 if inner else 0), "fall"))
            elif isinstance(st, ast.Try):
                for arm in [st.body + st.orelse] + [h.body for h in st.handlers]:
                    for c2, o2 in _iteration_paths(arm, action_ids):
                        nxt.add((cnt + c2, o2))
            elif isinstance(st, ast.With):
                for c2, o2 in _iteration_paths(st.body, action_ids):
                    nxt.add((cnt + c2, o2))
            elif isinstance(st, ast.Continue):
                nxt.add((cnt, "continue"))
            elif isinstance(st, ast.Break):
                nxt.add((cnt, "break"))
            elif isinstance(st, ast.Return):
                nxt.add((cnt, "return"))
            elif isinstance(st, ast.Raise):
                nxt.add((cnt, "raise"))
            else:
                # a simple statement that contains an action call (e.g. result.append(...) as an expression statement)
                nxt.add((cnt + (1 if any(id(x) in action_ids for x in ast.walk(st)) else 0), "fall"))
        states = nxt
    return states


def r1_3(repo: Repo) -> RuleResult:
    rr = RuleResult("R1.3", "row loops of transform terminate each row exactly once (no skipped or doubled rows)", floor=8)
    for c in exported_estimators(repo):
        tr = repo.resolve_method(c, "transform")
        if tr is None:
            continue
        for f in [tr]:
            taint = tainted_names(f, {p for p in f.params if p != "self"})
            rets = set()
            for n in walk_no_nested(f.node):
                if isinstance(n, ast.Return) and n.value is not None:
                    rets |= names_in(n.value)
            csr = _csr_names(repo, f)
            row_ptrs = {t[2] for t in csr}
            # names that reach the result: returned names + csr triple members
            result_names = set(rets) | {x for t in csr for x in t}
            pm = parents_map(f.node)
            for lp in [n for n in walk_no_nested(f.node) if isinstance(n, ast.For)]:
                if any(isinstance(a, (ast.For, ast.While)) for a in ancestors(lp, pm)):
                    continue  # inner loops are per-element loops
                if not (names_in(lp.iter) & taint):
                    continue
                if isinstance(lp.iter, ast.Call) and isinstance(lp.iter.func, ast.Name) and lp.iter.func.id == "range":
                    continue  # block / chunk loops over index ranges: partition rule R8.2, not a per-item loop
                idx_names = set(target_names(lp.target))
                actions = []
                for s in lp.body:
                    for n in ast.walk(s):
                        if isinstance(n, ast.Call) and isinstance(n.func, ast.Attribute) and n.func.attr == "append" \
                                and isinstance(n.func.value, ast.Name):
                            nm = n.func.value.id
                            if nm in row_ptrs or (nm in rets and nm not in {t[0] for t in csr} | {t[1] for t in csr}):
                                actions.append((nm, n, enclosing_stmt(n, pm)))
                        if isinstance(n, ast.Assign):
                            for t in n.targets:
                                if isinstance(t, ast.Subscript) and isinstance(t.value, ast.Name) and t.value.id in rets \
                                        and names_in(t.slice) & idx_names:
                                    actions.append((t.value.id, n, n))
                if not actions:
                    continue
                construct = "row loop over `%s`" % short(lp.iter, 40)
                jumps = loop_level_jumps(lp)
                problems = []
                by_name: Dict[str, list] = {}
                for nm, n, st in actions:
                    by_name.setdefault(nm, []).append(st)
                for nm, sts in by_name.items():
                    outcomes = _iteration_paths(lp.body, {id(st) for st in sts})
                    bad_counts = sorted({c for c, o in outcomes if o in ("fall", "continue") and c != 1})
                    cut = sorted({o for c, o in outcomes if o in ("break", "return")})
                    if bad_counts:
                        problems.append("row-terminating action on `%s` is executed %s time(s) on some path through an iteration, not exactly once"
                                        % (nm, "/".join("many" if c > 8 else str(c) for c in bad_counts)))
                    if cut:
                        problems.append("`%s` can leave the row loop before all items are processed" % "/".join(cut))
                if problems:
                    rr.bad(f, construct, "; ".join(problems), lp.lineno)
                else:
                    rr.ok(f, construct, "row action(s) on %s executed once per item, no loop-level jump" % sorted(by_name), lp.lineno)
            # comprehension-built rows: no filter allowed
            for n in walk_no_nested(f.node):
                if isinstance(n, ast.Return) and n.value is not None:
                    for comp in ast.walk(n.value):
                        if isinstance(comp, (ast.ListComp, ast.GeneratorExp)) and names_in(comp.generators[0].iter) & taint:
                            construct = "row comprehension over `%s`" % short(comp.generators[0].iter, 40)
                            if any(g.ifs for g in comp.generators):
                                rr.bad(f, construct, "rows are filtered: fewer rows than input items", comp.lineno)
                            else:
                                rr.ok(f, construct, "one element per input item (no filter)", comp.lineno)
    return rr


# --------------------------------------------------------------------------- R1.4
_LOOKUP_EXCEPTIONS = {
    ("vectorizers/tree_token_cooccurrence.py", "sequence_tree_skip_grams", "label_dictionary"): (
        "indexes label_dictionary[unique_labels[x]] only for stored entries of the collapsed count matrix; labels "
        "outside the dictionary had their nodes contracted away (remove_node) or were replaced by the mask, so they "
        "have no stored entries"
    ),
}


def _fitted_dict_params(repo: Repo, c: Cls, ke: KindEngine) -> Dict[Func, Set[str]]:
    """Helper parameters bound (transitively) to fitted dictionary attributes on the transform path."""
    dict_attrs = ke.dict_attrs(c)
    out: Dict[Func, Set[str]] = {}
    sites = collect_sites(repo, c, "transform")
    for _ in range(4):
        changed = False
        for s in sites:
            for p, e in s.raw.items():
                if p in ("*", "**"):
                    continue
                is_dict = (is_self_attr(e) and e.attr in dict_attrs) or (
                    isinstance(e, ast.Name) and e.id in out.get(s.caller, set())
                )
                if is_dict and p not in out.setdefault(s.callee, set()):
                    out[s.callee].add(p)
                    changed = True
        if not changed:
            break
    return out


def _guarded(sub: ast.Subscript, dname: str, pm, f: Func, repo: Optional[Repo] = None, cls=None) -> Optional[str]:
    """Name of the guard idiom protecting the look-up `D[k]`, or None."""
    key = norm(sub.slice)
    anc = ancestors(sub, pm)
    prev = sub
    for a in anc:
        if isinstance(a, ast.Try):
            in_body = any(prev is s for s in a.body)
            if in_body:
                for h in a.handlers:
                    if h.type is None:
                        return "try/except"
                    names = [norm(h.type)] if not isinstance(h.type, ast.Tuple) else [norm(x) for x in h.type.elts]
                    if any(n in ("KeyError", "LookupError", "Exception") for n in names):
                        return "try/except KeyError"
        if isinstance(a, (ast.ListComp, ast.SetComp, ast.GeneratorExp, ast.DictComp)):
            for g in a.generators:
                for cond in g.ifs:
                    s = norm(cond)
                    if s == "%s in %s" % (key, dname):
                        return "comprehension filter `%s`" % s
        if isinstance(a, ast.IfExp):
            t = norm(a.test)
            if prev is a.orelse and t in ("not %s in %s" % (key, dname), "%s not in %s" % (key, dname)):
                return "conditional expression on membership"
            if prev is a.body and t == "%s in %s" % (key, dname):
                return "conditional expression on membership"
        if isinstance(a, ast.If):
            t = norm(a.test)
            if any(prev is s for s in a.body) and t == "%s in %s" % (key, dname):
                return "dominating `if %s`" % t
            if any(prev is s for s in a.orelse) and t in ("%s not in %s" % (key, dname), "not %s in %s" % (key, dname)):
                return "dominating membership test (else branch)"
        if isinstance(a, (ast.FunctionDef, ast.AsyncFunctionDef)):
            break
        prev = a
    # np.isin mask: the comprehension iterates `arr[mask, j]` where the mask implies np.isin(..., list(D.keys()))
    for a in anc:
        if isinstance(a, (ast.ListComp, ast.GeneratorExp)):
            it = a.generators[0].iter
            if isinstance(it, ast.Subscript):
                idx = it.slice.elts[0] if isinstance(it.slice, ast.Tuple) and it.slice.elts else it.slice
                if _mask_implies_isin(idx, f, dname, repo, cls, 0):
                    return "np.isin mask over %s keys (on every definition of the mask, helpers followed)" % dname
    return None


def _mask_implies_isin(e: ast.AST, f: Func, dname: str, repo: Optional[Repo], cls, depth: int) -> bool:
    """True when a True entry of the boolean mask `e` implies membership of the key in D: an np.isin(.., keys of D)
    call, a conjunction with one, a name all of whose definitions are, or a helper all of whose returns are."""
    if depth > 6:
        return False
    if isinstance(e, ast.Call) and norm(e.func).endswith("isin") and len(e.args) >= 2 and dname in norm(e.args[1]):
        return True
    if isinstance(e, ast.BinOp) and isinstance(e.op, ast.BitAnd):
        return _mask_implies_isin(e.left, f, dname, repo, cls, depth + 1) or _mask_implies_isin(e.right, f, dname, repo, cls, depth + 1)
    if isinstance(e, ast.Call) and norm(e.func) in ("np.logical_and", "numpy.logical_and") and len(e.args) == 2:
        return any(_mask_implies_isin(a, f, dname, repo, cls, depth + 1) for a in e.args)
    if isinstance(e, ast.Name):
        defs = [n.value for n in walk_no_nested(f.node) if isinstance(n, ast.Assign) and any(isinstance(t, ast.Name) and t.id == e.id for t in n.targets)]
        aug = [n for n in walk_no_nested(f.node) if isinstance(n, ast.AugAssign) and isinstance(n.target, ast.Name) and n.target.id == e.id
               and not isinstance(n.op, ast.BitAnd)]
        return bool(defs) and not aug and all(_mask_implies_isin(d, f, dname, repo, cls, depth + 1) for d in defs)
    if isinstance(e, ast.Call) and repo is not None:
        tg = [t for t in repo.resolve_call(f, e, cls) if isinstance(t, Func)] if cls is not None else [t for t in repo.resolve_call(f, e) if isinstance(t, Func)]
        if len(tg) == 1:
            g = tg[0]
            rets = [n.value for n in walk_no_nested(g.node) if isinstance(n, ast.Return)]
            return bool(rets) and all(r is not None and _mask_implies_isin(r, g, dname, repo, cls, depth + 1) for r in rets)
    return False


def r1_4(repo: Repo) -> RuleResult:
    rr = RuleResult("R1.4", "vocabulary look-ups keyed by transform input are guarded (unseen vocabulary is ignored, never raises)", floor=8)
    ke = KindEngine(repo)
    seen: Set[Tuple[str, int, int]] = set()
    for c in exported_estimators(repo):
        ke.infer_class(c)
        dict_attrs = ke.dict_attrs(c)
        params = _fitted_dict_params(repo, c, ke)
        taint = transform_taint(repo, c)
        for f in repo.reachable_from(c, "transform"):
            pm = parents_map(f.node)
            t = taint.get(f, set())
            # comprehension / loop variables iterating tainted things are tainted too
            for n in walk_no_nested(f.node):
                if isinstance(n, ast.comprehension) and names_in(n.iter) & t:
                    t = t | set(target_names(n.target))
            for n in walk_no_nested(f.node):
                if not (isinstance(n, ast.Subscript) and isinstance(n.ctx, ast.Load)):
                    continue
                dname = None
                if is_self_attr(n.value) and n.value.attr in dict_attrs:
                    dname = "self." + n.value.attr
                elif isinstance(n.value, ast.Name) and n.value.id in params.get(f, set()):
                    dname = n.value.id
                if dname is None:
                    continue
                if not (names_in(n.slice) & t):
                    continue
                k = (f.key, n.lineno, n.col_offset)
                if k in seen:
                    continue
                seen.add(k)
                construct = "%s[%s]" % (dname, short(n.slice, 40))
                g = _guarded(n, dname, pm, f, repo, c)
                if g:
                    rr.ok(f, construct, "guarded by %s" % g, n.lineno)
                    continue
                exc = _LOOKUP_EXCEPTIONS.get((f.file, f.qualname, dname))
                if exc:
                    rr.exception(f, construct, exc, n.lineno)
                    continue
                rr.bad(f, construct,
                       "dictionary look-up keyed by transform input has no guard (try/except KeyError, membership test, "
                       "filter, isin mask): unseen vocabulary raises KeyError instead of being ignored", n.lineno)
    return rr


# --------------------------------------------------------------------------- out-of-range characters
def r1_5(repo: Repo) -> RuleResult:
    rr = RuleResult("R1.5", "bpe_encode maps characters above max_char_code to code 0 on the only path from ord(c) to the store", floor=1)
    f = repo.func("vectorizers/mixed_gram_vectorizer.py", "bpe_encode")
    stores = []
    for n in walk_no_nested(f.node):
        if isinstance(n, ast.Assign) and isinstance(n.targets[0], ast.Subscript) and "ord" in norm(expand_locals(n.value, f, 2)):
            stores.append(n)
    if not stores:
        raise AnalysisError("R1.5: store of ord(c) into the code array not found in bpe_encode")
    for st in stores:
        v = st.value
        ok = (
            isinstance(v, ast.IfExp)
            and isinstance(v.test, ast.Compare)
            and len(v.test.ops) == 1
            and isinstance(v.test.ops[0], (ast.LtE, ast.Lt, ast.Gt, ast.GtE))
            and "max_char_code" in norm(v.test)
            and (norm(v.orelse) == "0" or norm(v.body) == "0")
        )
        if ok:
            rr.ok(f, "code store", "`%s`" % short(v), st.lineno)
        else:
            rr.bad(f, "code store", "character codes are stored without the `<= max_char_code else 0` mapping", st.lineno)
    return rr


def r1_6(repo: Repo) -> RuleResult:
    rr = RuleResult("R1.6", "dense results allocated on the transform path have a fitted column extent", floor=2)
    allocs = {"numpy.ndarray", "numpy.empty", "numpy.zeros", "numpy.ones", "numpy.full"}
    seen: Set[Tuple[str, int]] = set()
    for c in exported_estimators(repo):
        tr = repo.resolve_method(c, "transform")
        if tr is None:
            continue
        t = tainted_names(tr, {p for p in tr.params if p != "self"})
        rets: Set[str] = set()
        for n in walk_no_nested(tr.node):
            if isinstance(n, ast.Return) and n.value is not None:
                rets |= names_in(n.value)
        for n in walk_no_nested(tr.node):
            if not (isinstance(n, ast.Assign) and isinstance(n.targets[0], ast.Name) and n.targets[0].id in rets and isinstance(n.value, ast.Call)):
                continue
            if repo.canonical(tr.module, n.value.func) not in allocs:
                continue
            shape = n.value.args[0] if n.value.args else None
            for k in n.value.keywords:
                if k.arg == "shape":
                    shape = k.value
            if shape is None:
                continue
            sh = expand_locals(shape, tr, 2)
            if not (isinstance(sh, ast.Tuple) and len(sh.elts) == 2):
                continue
            if (tr.key, n.lineno) in seen:
                continue
            seen.add((tr.key, n.lineno))
            construct = "%s = %s(...)" % (n.targets[0].id, norm(n.value.func))
            rows, cols = sh.elts
            bad_cols = sorted(names_in(cols) & t)
            if bad_cols:
                rr.bad(tr, construct, "column extent `%s` of the result depends on the transform input (%s)" % (short(cols), ", ".join(bad_cols)), n.lineno)
            elif not (names_in(rows) & t):
                rr.bad(tr, construct, "row extent `%s` does not depend on the number of input items" % short(rows), n.lineno)
            else:
                rr.ok(tr, construct, "shape (%s, %s): one row per item, fitted width" % (short(rows, 30), short(cols, 40)), n.lineno)
    return rr


def r1_7(repo: Repo) -> RuleResult:
    rr = RuleResult("R1.7", "tree vectorizer: the order of the directional column blocks equals the order of their labels", floor=1)
    TREE = "vectorizers/tree_token_cooccurrence.py"
    k = repo.func(TREE, "sequence_tree_skip_grams")
    fit = repo.func(TREE, "LabelledTreeCooccurrenceVectorizer.fit")
    # kernel: which orientation transposes, and in which order does 'directional' stack?  (the dispatch on the
    # orientation constants is evaluated per orientation, whatever its spelling)
    from .common import flatten_dispatch

    rets = [n for n in walk_no_nested(k.node) if isinstance(n, ast.Return) and isinstance(n.value, ast.Name)]
    if len(rets) != 1:
        raise AnalysisError("R1.7: sequence_tree_skip_grams does not return its matrix by name")
    M = rets[0].value.id
    disp = [n for n in k.node.body if isinstance(n, ast.If) and "window_orientation" in norm(n.test)
            and any(isinstance(x, ast.Constant) and isinstance(x.value, str) for x in ast.walk(n.test))]
    before_is_T = None
    stack = None
    if disp:
        arm_b = flatten_dispatch([disp[0]], "before", "window_orientation")
        before_is_T = any(isinstance(x, ast.Assign) and norm(x.targets[0]) == M and norm(x.value) in ("%s.T" % M, "%s.transpose()" % M) for x in arm_b)
        for st in flatten_dispatch([disp[0]], "directional", "window_orientation"):
            for c in ast.walk(st):
                if isinstance(c, ast.Call) and norm(c.func).endswith("hstack") and c.args and isinstance(c.args[0], (ast.List, ast.Tuple)):
                    stack = ["global_counts.T" if norm(x) in ("%s.T" % M, "%s.transpose()" % M) else ("global_counts" if norm(x) == M else norm(x)) for x in c.args[0].elts]
    if before_is_T is None or stack is None or len(stack) != 2:
        raise AnalysisError("R1.7: orientation dispatch of sequence_tree_skip_grams not recognised")
    first_is_before = (stack[0] == "global_counts.T") == before_is_T and stack[0] != stack[1]
    # labels: which prefix gets the offset len(dictionary)?
    offset_prefix = None
    plain_prefix = None
    for n in walk_no_nested(fit.node):
        if isinstance(n, ast.DictComp) and isinstance(n.key, ast.BinOp) and isinstance(n.key.left, ast.Constant):
            pref = n.key.left.value
            if "len(self.token_label_dictionary_)" in norm(n.value):
                offset_prefix = pref
            else:
                plain_prefix = pref
    if offset_prefix is None or plain_prefix is None:
        raise AnalysisError("R1.7: directional column labels not recognised in LabelledTreeCooccurrenceVectorizer.fit")
    want_plain = "pre_" if first_is_before else "post_"
    if plain_prefix == want_plain and offset_prefix != plain_prefix:
        rr.ok(fit, "directional blocks", "matrix blocks %s; labels %r (offset 0) then %r (offset n)" % (stack, plain_prefix, offset_prefix), fit.node.lineno)
    else:
        rr.bad(fit, "directional blocks", "the matrix stacks %s (first block is the %s block) but the first n columns are labelled %r: "
               "columns do not keep the meaning recorded in the column dictionary" % (stack, "before" if first_is_before else "after", plain_prefix), fit.node.lineno)
    return rr


def _empty_range_test(test: ast.AST, loop: ast.For) -> Optional[str]:
    """Recognise a test that can only be true when the block / chunk holds no rows."""
    defs: Dict[str, List[ast.AST]] = {}
    for s_ in loop.body:
        for n in ast.walk(s_):
            if isinstance(n, ast.Assign):
                for t in n.targets:
                    for nm in target_names(t):
                        defs.setdefault(nm, []).append(n.value)
    if isinstance(test, ast.Compare) and len(test.ops) == 1 and isinstance(test.ops[0], ast.Eq):
        a, b = test.left, test.comparators[0]
        if isinstance(a, ast.Name) and isinstance(b, ast.Name):
            for lo, hi in ((a, b), (b, a)):
                for d in defs.get(hi.id, []):
                    if isinstance(d, ast.Call) and norm(d.func) == "min" and any(lo.id in names_in(x) for x in d.args):
                        return "`%s`: %s = min(..., %s + size) equals %s only for an empty block" % (norm(test), hi.id, lo.id, lo.id)
        for x, y in ((a, b), (b, a)):
            if isinstance(x, ast.Call) and norm(x.func) == "len" and isinstance(y, ast.Constant) and y.value == 0 and isinstance(x.args[0], ast.Name):
                return "`%s`: the chunk holds no items" % norm(test)
    return None


def r1_8(repo: Repo) -> RuleResult:
    rr = RuleResult("R1.8", "block / chunk loops of transform skip an iteration only when the block is empty (no rows are dropped)", floor=2)
    seen: Set[Tuple[str, int]] = set()
    for c in exported_estimators(repo):
        tr = repo.resolve_method(c, "transform")
        if tr is None:
            continue
        pm = parents_map(tr.node)
        for lp in [n for n in walk_no_nested(tr.node) if isinstance(n, ast.For)]:
            if not (isinstance(lp.iter, ast.Call) and isinstance(lp.iter.func, ast.Name) and lp.iter.func.id == "range"):
                continue
            appends = [x for s_ in lp.body for x in ast.walk(s_) if isinstance(x, ast.Call) and isinstance(x.func, ast.Attribute)
                       and x.func.attr == "append" and isinstance(x.func.value, ast.Name)]
            if not appends:
                continue
            for j in [x for x in loop_level_jumps(lp) if isinstance(x, (ast.Continue, ast.Break))]:
                if (tr.key, j.lineno) in seen:
                    continue
                seen.add((tr.key, j.lineno))
                guard = next((a for a in ancestors(j, pm) if isinstance(a, ast.If)), None)
                construct = "%s in `for %s in %s`" % (type(j).__name__.lower(), norm(lp.target), short(lp.iter, 30))
                why = _empty_range_test(guard.test, lp) if guard is not None and any(guard is x for x in ast.walk(lp)) else None
                if why:
                    rr.ok(tr, construct, why, j.lineno)
                else:
                    rr.bad(tr, construct,
                           "the iteration is abandoned under `%s`, which is not an empty-block test: the rows of that block / chunk never "
                           "reach the result, so fewer rows come back than items went in" % (short(guard.test, 60) if guard is not None else "no condition"), j.lineno)
    return rr


def r1_9(repo: Repo) -> RuleResult:
    """`never raises` has one clause that is pure control flow: on no path through transform (and the non-compiled
    helpers it reaches) is a local read before it is assigned."""
    from .common import definite_assignment_over, exported_estimators

    rr = RuleResult("R1.9", "every local read on a transform path is assigned on all paths (no UnboundLocalError for any input shape)", floor=40)
    return definite_assignment_over(repo, rr, exported_estimators(repo), ("transform",),
                                    "transform raises UnboundLocalError for the inputs that take that path instead of returning one row per item")


def r1_10(repo: Repo) -> RuleResult:
    """HistogramVectorizer: a value that falls in no bin must be ignored, not counted in a column.  When counts are taken
    through pd.cut's integer codes the no-bin code -1, used as a position, is the last column (C20's counting clause)."""
    from .c20 import r20_2

    rr = r20_2(repo)
    rr.rule, rr.title, rr.floor = "R1.10", "histogram counts taken through bin codes exclude the no-bin code -1 (out-of-range values do not land in the last column)", 1
    rr.instances = [i for i in rr.instances if i.construct == "counting"]
    for i in rr.instances:
        i.rule = "R1.10"
    return rr


RULES = [r1_1, r1_2, r1_2b, r1_3, r1_4, r1_5, r1_6, r1_7, r1_8, r1_9, r1_10]

CLAIM = (
    "R1.1 every sparse matrix assembled from a coordinate/CSR triple on a transform path passes shape= whose column "
    "extent is over fitted state only (taint analysis from transform's arguments) and is not `len()` of a dictionary that fit takes over unchanged from a constructor parameter (supplied indices need not be 0..n-1); R1.2 CSR row pointers advance by "
    "exactly the number of indices appended for the row; R1.3 each row loop terminates its row exactly once and has no "
    "loop-level continue/break/return; R1.4 every dictionary look-up in fitted vocabulary keyed by transform input is "
    "guarded by an enumerated idiom; R1.5 out-of-range characters are mapped to code 0; R1.6 dense result buffers have one row per item and a fitted width; R1.7 the tree vectorizer labels its directional column blocks in the order it stacks them; R1.8 block / chunk loops skip an iteration only under an empty-block test; R1.9 definite assignment (CFG dataflow) on every transform path and the non-compiled helpers it reaches; R1.10 histogram counts taken through pd.cut codes exclude the no-bin code -1."
)
NOT_DECIDED = (
    "that each column keeps its meaning beyond shape and guarded look-up (code->column mapping is under C06/C16), row "
    "order inside the LOT block loops (C08/C12), and all values."
)
