"""C16 - LZ compression rows count each string's own parse phrases."""
from __future__ import annotations

import ast
import copy
from typing import Dict, List, Optional, Set, Tuple

from ..effects import Effects
from ..loops import carried_channels
from ..model import AnalysisError, Func, Repo, is_self_attr, short, walk_no_nested
from ..report import RuleResult
from .c01 import r1_2
from .c02 import config_agreement
from .common import ancestors, norm, parents_map

MG = "vectorizers/mixed_gram_vectorizer.py"


def _lz_loops(repo: Repo):
    enc = repo.func(MG, "lempel_ziv_based_encode")
    out = []
    for name in ("LZCompressionVectorizer.fit_transform", "LZCompressionVectorizer.transform"):
        f = repo.func(MG, name)
        pm = parents_map(f.node)
        calls = [c for c in repo.calls_in(f) if enc in repo.resolve_call(f, c)]
        if len(calls) != 1:
            raise AnalysisError("C16: %s calls lempel_ziv_based_encode %d times" % (name, len(calls)))
        loops = [a for a in ancestors(calls[0], pm) if isinstance(a, ast.For)]
        if not loops:
            raise AnalysisError("C16: the parse call in %s is not inside a per-string loop" % name)
        out.append((f, loops[-1], calls[0]))
    return out


def r16_1(repo: Repo) -> RuleResult:
    rr = RuleResult("R16.1", "the parse dictionary is reset for every string: no state is carried across the per-string loop", floor=2)
    eff = Effects(repo)
    c = repo.cls(MG, "LZCompressionVectorizer")
    for f, lp, call in _lz_loops(repo):
        construct = "per-string loop `for %s in %s`" % (norm(lp.target), norm(lp.iter))
        ch, allowed = carried_channels(repo, eff, f, lp, c, fit_path=f.name != "transform")
        enc = repo.func(MG, "lempel_ziv_based_encode")
        if not any(m.root == "P:dictionary" for m in eff.summary(enc).mutations):
            raise AnalysisError("R16.1: lempel_ziv_based_encode no longer has the 'mutates its dictionary' summary")
        if ch:
            for name, why, line in ch:
                rr.bad(f, construct + " / " + name, why, line)
        else:
            rr.ok(f, construct, "dictionary handed to the parser is created inside the iteration; allowed channels: %s" % allowed, lp.lineno)
    return rr


def r16_2(repo: Repo) -> RuleResult:
    rr = r1_2(repo)
    rr.rule = "R16.2"
    rr.instances = [i for i in rr.instances if i.function.startswith("LZCompressionVectorizer")]
    for i in rr.instances:
        i.rule = "R16.2"
    rr.floor = 2
    return rr


class _Alpha(ast.NodeTransformer):
    def __init__(self, mapping):
        self.mapping = mapping

    def visit_Name(self, node):
        if node.id in self.mapping:
            return ast.copy_location(ast.Name(id=self.mapping[node.id], ctx=node.ctx), node)
        return node


def _seed_facts(f: Func, lp: ast.For, call: ast.Call, enc: Func, repo: Repo) -> Set[Tuple[Tuple[str, ...], str]]:
    """(guards, statement) for every statement of the loop body that assigns or fills the
    dictionary handed to the parser, alpha-renamed."""
    bound = repo.bind_args(enc, call)
    d = bound.get("dictionary")
    if not isinstance(d, ast.Name):
        raise AnalysisError("R16.3: the dictionary argument of the parser is not a local name in %s" % f.key)
    pm = parents_map(f.node)
    facts = set()
    for s in lp.body:
        for n in ast.walk(s):
            hit = False
            if isinstance(n, ast.Assign):
                for t in n.targets:
                    base = t
                    while isinstance(base, ast.Subscript):
                        base = base.value
                    if isinstance(base, ast.Name) and base.id == d.id:
                        hit = True
            if not hit:
                continue
            mapping = {d.id: "_D"}
            guards = []
            for a in ancestors(n, pm):
                if a is lp:
                    break
                if isinstance(a, ast.If):
                    pol = "" if any(n is x for s2 in a.body for x in ast.walk(s2)) else "not "
                    guards.append(pol + norm(a.test))
                if isinstance(a, ast.For):
                    for k, nm in enumerate(x.id for x in ast.walk(a.target) if isinstance(x, ast.Name)):
                        mapping[nm] = "_v%d" % k
                    guards.append("for _ in " + norm(a.iter))
            stmt = _Alpha(mapping).visit(copy.deepcopy(n))
            facts.add((tuple(reversed(guards)), norm(stmt)))
    return facts


def r16_3(repo: Repo) -> RuleResult:
    rr = config_agreement(
        repo, "R16.3", "fit_transform and transform call the parser with the same fitted hash and cap, and seed the dictionary identically",
        only_callees={"lempel_ziv_based_encode"}, floor=2,
    )
    rr.instances = [i for i in rr.instances if "LZCompression" in i.function or "LZCompression" in i.what]
    enc = repo.func(MG, "lempel_ziv_based_encode")
    loops = _lz_loops(repo)
    facts = [_seed_facts(f, lp, call, enc, repo) for f, lp, call in loops]
    f_tr = loops[1][0]
    if facts[0] == facts[1]:
        rr.ok(f_tr, "dictionary seeding", "%d seeding fact(s) equal in fit_transform and transform" % len(facts[0]), loops[1][1].lineno)
    else:
        rr.bad(f_tr, "dictionary seeding",
               "the parse dictionary is created / seeded differently: only in fit_transform %s; only in transform %s"
               % (sorted(facts[0] - facts[1]), sorted(facts[1] - facts[0])), loops[1][1].lineno)
    return rr


def r16_4(repo: Repo) -> RuleResult:
    rr = RuleResult("R16.4", "only fit paths may grow the column dictionary", floor=1)
    eff = Effects(repo)
    c = repo.cls(MG, "LZCompressionVectorizer")
    tr = repo.resolve_method(c, "transform")
    muts = [m for m in eff.summary(tr, c).mutations if m.root == "A:column_label_dictionary_"]
    grow = repo.func(MG, "counts_to_csr_data")
    if not any(m.root == "P:column_dict" for m in eff.summary(grow).mutations):
        raise AnalysisError("R16.4: counts_to_csr_data no longer has the 'grows its column_dict' summary")
    if muts:
        m = muts[0]
        rr.bad(tr, "self.column_label_dictionary_", "transform changes the fitted column dictionary (%s at %s): columns assigned at fit time "
               "no longer keep their meaning" % (m.what, m.where), tr.node.lineno)
    else:
        rr.ok(tr, "self.column_label_dictionary_", "no statement reachable from transform mutates the column dictionary", tr.node.lineno)
    return rr


def r16_5(repo: Repo) -> RuleResult:
    rr = RuleResult("R16.5", "hashed phrases are reduced modulo max_columns", floor=2)
    mh = repo.func(MG, "make_hash")
    inner = repo.func(MG, "make_hash.hash")
    rets = [n for n in walk_no_nested(inner.node) if isinstance(n, ast.Return)]
    ok = rets and all(isinstance(r.value, ast.BinOp) and isinstance(r.value.op, ast.Mod) and norm(r.value.right) == mh.params[0] for r in rets)
    if ok:
        rr.ok(inner, "return", "`%s`" % norm(rets[0].value), rets[0].lineno)
    else:
        rr.bad(inner, "return", "the hash is not reduced modulo `%s`" % mh.params[0], inner.node.lineno)
    ft = repo.func(MG, "LZCompressionVectorizer.fit_transform")
    calls = [c for c in repo.calls_in(ft) if mh in repo.resolve_call(ft, c)]
    if not calls:
        raise AnalysisError("R16.5: fit_transform no longer calls make_hash")
    b = repo.bind_args(mh, calls[0])
    if norm(b.get(mh.params[0])) == "self.max_columns":
        rr.ok(ft, "make_hash(size=)", "size = self.max_columns", calls[0].lineno)
    else:
        rr.bad(ft, "make_hash(size=)", "hash size is `%s`, not self.max_columns" % norm(b.get(mh.params[0])), calls[0].lineno)
    return rr


def r16_6(repo: Repo) -> RuleResult:
    from ..cfg import CFG

    rr = RuleResult("R16.6", "the parse dictionary grows only below the max_dict_size cap and the size counter follows every insertion", floor=1)
    f = repo.func(MG, "lempel_ziv_based_encode")
    g = CFG(f.node)
    d, cap = f.params[1], f.params[3]
    inserts = [n for n in g.nodes if n.kind == "stmt" and isinstance(n.ast, ast.Assign) and isinstance(n.ast.targets[0], ast.Subscript)
               and norm(n.ast.targets[0].value) == d and norm(n.ast.value) == "1"]
    if len(inserts) != 1:
        raise AnalysisError("R16.6: insertion of a new phrase not found in lempel_ziv_based_encode")
    ins = inserts[0]
    guards = [(norm(g.nodes[t].ast), lab) for t, lab in g.guards_of(ins.id)]
    size_names = [n.ast.targets[0].id for n in g.nodes if n.kind == "stmt" and isinstance(n.ast, ast.Assign) and isinstance(n.ast.targets[0], ast.Name)
                  and norm(n.ast.value) == "len(%s)" % d]
    if not size_names:
        raise AnalysisError("R16.6: size counter initialisation not found")
    sz = size_names[0]
    from .common import rel_under

    capped = any(rel_under(g.nodes[t].ast, lab) == ("lt", sz, cap) for t, lab in g.guards_of(ins.id) if isinstance(g.nodes[t].ast, ast.AST))
    not_member = any(t.endswith(" in %s" % d) and lab == "false" for t, lab in guards)
    incs = [n for n in g.nodes if n.kind == "stmt" and isinstance(n.ast, ast.AugAssign) and norm(n.ast.target) == sz]
    follows = len(incs) == 1 and isinstance(incs[0].ast.op, ast.Add) and norm(incs[0].ast.value) == "1" \
        and any(t == incs[0].id for t, _ in g.succ[ins.id])
    problems = []
    if not capped:
        problems.append("a new phrase is inserted without the test `%s < %s`: the dictionary can exceed max_dict_size" % (sz, cap))
    if not not_member:
        problems.append("insertion is not restricted to phrases absent from the dictionary")
    if not follows:
        problems.append("`%s += 1` does not directly follow the insertion: the cap is compared with a stale size" % sz)
    if problems:
        rr.bad(f, "phrase insertion", "; ".join(problems), ins.lineno)
    else:
        rr.ok(f, "phrase insertion", "dictionary[phrase] = 1 only when absent and %s < %s, followed by %s += 1" % (sz, cap, sz), ins.lineno)
    return rr


def r16_7(repo: Repo) -> RuleResult:
    """The hash a fit uses must be built for *its* max_columns: make_hash and the functions around it keep no
    process-wide table (C13's R13.6, restricted to the LZ code)."""
    from .c13 import r13_6

    rr = r13_6(repo)
    rr.rule, rr.title, rr.floor = "R16.7", "the LZ hash factory and encoder keep no module-level table between fits", 3
    rr.instances = [i for i in rr.instances if i.file == MG]
    for i in rr.instances:
        i.rule = "R16.7"
    return rr


RULES = [r16_1, r16_2, r16_3, r16_4, r16_5, r16_6, r16_7]
CLAIM = (
    "R16.1 loop-carried dependence: the dictionary handed to the (mutating) parser is created inside each iteration of both "
    "per-string loops; R16.2 CSR pointer consistency of both assembly loops; R16.3 parser called with the same fitted hash and "
    "cap and the dictionary seeded identically in fit_transform and transform; R16.4 transform never mutates the column "
    "dictionary; R16.5 hashing is modulo max_columns; R16.6 the parse dictionary grows only under the cap test and the size counter follows each insertion; R16.7 no function of the LZ / BPE module on a fit or transform path writes into a module-level container (a hash cached under part of its parameters would outlive the fit it was built for)."
)
NOT_DECIDED = "row totals, behaviour at the max_dict_size cap, and the no-collision relabelling statement (values)."
