"""C14 - masking keeps positions; nullifying the mask removes its contribution."""
from __future__ import annotations

import ast
from typing import Dict, List, Optional, Set, Tuple

from ..cfg import CFG
from ..model import AnalysisError, Cls, Func, Repo, is_none, is_self_attr, short, walk_no_nested
from ..report import RuleResult
from .c02 import config_agreement
from .common import rel_of, ancestors, enclosing_stmt, norm, parents_map, exported_estimators

PP = "vectorizers/preprocessing.py"
WK = "vectorizers/_window_kernels.py"
PREPROCESS = ["preprocess_token_sequences", "preprocess_timed_token_sequences", "preprocess_multi_token_sequences", "preprocess_tree_sequences"]


class _Arms:
    """The top-level dispatch between the unmasked (filtering) branch and the masked (position-preserving) one."""

    def __init__(self, node: ast.If, unmasked, masked, identity: bool):
        self.node, self.body, self.orelse, self.identity = node, unmasked, masked, identity
        self.lineno = node.lineno


def _masking_if(f: Func) -> "_Arms":
    """`.body` is the branch taken when no mask is configured, `.orelse` the masking branch - whichever way round the
    test is written.  A truthiness test of `masking` is recognised as the dispatch too (identity=False) and reported
    by R14.6: the empty string is a legal mask that such a test sends down the unmasked branch."""
    for n in f.node.body:
        if not isinstance(n, ast.If):
            continue
        t = norm(n.test)
        if t == "masking is None":
            return _Arms(n, n.body, n.orelse, True)
        if t == "masking is not None":
            return _Arms(n, n.orelse, n.body, True)
    for n in f.node.body:
        if isinstance(n, ast.If) and {x.id for x in ast.walk(n.test) if isinstance(x, ast.Name)} == {"masking"} \
                and not any(isinstance(x, ast.Compare) for x in ast.walk(n.test)):
            neg = isinstance(n.test, ast.UnaryOp) and isinstance(n.test.op, ast.Not)
            return _Arms(n, n.body if neg else n.orelse, n.orelse if neg else n.body, False)
    raise AnalysisError("C14: the mask / no-mask dispatch (`if masking is None:`) not found in %s" % f.key)


def _dict_name(f: Func) -> str:
    return "token_dictionary"


def r14_1(repo: Repo) -> RuleResult:
    rr = RuleResult("R14.1", "the mask gets exactly the index len(dictionary) evaluated with the mask key absent, and is appended last", floor=4)
    for name in PREPROCESS:
        f = repo.func(PP, name)
        br = _masking_if(f).orelse
        d = _dict_name(f)
        problems = []
        muts = []  # (lineno, kind)
        for s in br:
            for n in ast.walk(s):
                if isinstance(n, ast.Delete):
                    for t in n.targets:
                        if isinstance(t, ast.Subscript) and norm(t.value) == d:
                            muts.append((n.lineno, "del", n))
                if isinstance(n, ast.Assign):
                    for t in n.targets:
                        if isinstance(t, ast.Subscript) and norm(t.value) == d:
                            muts.append((n.lineno, "store", n))
                        if isinstance(t, ast.Name) and t.id == d:
                            muts.append((n.lineno, "rebind", n))
                if isinstance(n, ast.Call) and isinstance(n.func, ast.Attribute) and norm(n.func.value) == d \
                        and n.func.attr in ("update", "pop", "clear", "setdefault", "popitem"):
                    muts.append((n.lineno, n.func.attr, n))
        muts.sort(key=lambda x: x[0])
        stores = [m for m in muts if m[1] == "store"]
        dels = [m for m in muts if m[1] == "del"]
        # code used for removed tokens
        codes = []
        for s in br:
            for n in ast.walk(s):
                if isinstance(n, ast.IfExp) and d in norm(n.test):
                    t = norm(n.test)
                    absent = n.body if ("not" in t) else n.orelse
                    codes.append((n.lineno, absent))
        if not codes:
            raise AnalysisError("R14.1: replacement expression not found in the masking branch of %s" % f.key)
        if len(stores) != 1 or norm(stores[0][2].targets[0].slice) != "masking" or norm(stores[0][2].value) != "len(%s)" % d:
            problems.append("the mask entry is not appended as `%s[masking] = len(%s)`" % (d, d))
        else:
            store_line = stores[0][0]
            for ln, code in codes:
                code_s = norm(code)
                # index form: len(D) (tuple form for the timed variant); label form (tree): the mask string itself
                base = code.elts[0] if isinstance(code, ast.Tuple) else code
                if norm(base) not in ("len(%s)" % d, "masking"):
                    problems.append("removed tokens are replaced by `%s`, not by len(%s) / the mask" % (code_s, d))
                if ln > store_line:
                    problems.append("replacement code evaluated after the mask was appended")
            between = [m for m in muts if m[1] not in ("rebind",) and m[2] is not stores[0][2] and min(c[0] for c in codes) <= m[0] <= store_line]
            if between:
                problems.append("the dictionary is modified between evaluating the replacement code and appending the mask (line %d)" % between[0][0])
            for ln, kind, node in dels:
                if ln > min(c[0] for c in codes):
                    problems.append("mask key deleted after the replacement code was evaluated")
                if norm(node.targets[0].slice) != "masking":
                    problems.append("a key other than the mask is deleted")
            if not dels:
                problems.append("a mask key already present is not removed first (its stale index would be reused)")
        if problems:
            rr.bad(f, "masking branch", "; ".join(sorted(set(problems))), br[0].lineno)
        else:
            rr.ok(f, "masking branch", "del stale mask -> replace by len(D) -> D[masking] = len(D), dictionary untouched in between", br[0].lineno)
    return rr


def r14_2(repo: Repo) -> RuleResult:
    rr = RuleResult("R14.2", "the masking branch is length-preserving (no filter), the non-masking branch deletes (membership filter)", floor=6)
    for name in PREPROCESS[:3]:
        f = repo.func(PP, name)
        iff = _masking_if(f)
        for label, stmts, want_filter in (("non-masking", iff.body, True), ("masking", iff.orelse, False)):
            comps = [n for s in stmts for n in ast.walk(s) if isinstance(n, ast.ListComp)]
            if not comps:
                raise AnalysisError("R14.2: no sequence comprehension in the %s branch of %s" % (label, f.key))
            for c in comps:
                has = any(g.ifs for g in c.generators)
                member = any("in token_dictionary" in norm(x) for g in c.generators for x in g.ifs)
                construct = "%s branch comprehension" % label
                if want_filter and member:
                    rr.ok(f, construct, "filter `%s` deletes removed tokens" % norm(c.generators[0].ifs[0]), c.lineno)
                elif not want_filter and not has:
                    rr.ok(f, construct, "no filter: one output per input token", c.lineno)
                elif want_filter:
                    rr.bad(f, construct, "mask_string unset but tokens outside the dictionary are not filtered out", c.lineno)
                else:
                    rr.bad(f, construct, "mask_string set but the comprehension filters (`%s`): positions are not preserved" % norm(c.generators[0].ifs[0]), c.lineno)
    # tree variant: node removal vs relabelling
    f = repo.func(PP, "preprocess_tree_sequences")
    iff = _masking_if(f)
    rm = [n for s in iff.body for n in ast.walk(s) if isinstance(n, ast.Call) and norm(n.func) == "remove_node"]
    relabel = [n for s in iff.orelse for n in ast.walk(s) if isinstance(n, ast.ListComp) and not any(g.ifs for g in n.generators)]
    if rm and relabel:
        rr.ok(f, "tree branches", "non-masking contracts removed nodes, masking relabels every node (no filter)", iff.lineno)
    else:
        rr.bad(f, "tree branches", "tree preprocessing no longer contracts (non-masking) / relabels without filter (masking)", iff.lineno)
    return rr


def _zeroing_before_normalise(f: Func) -> Tuple[bool, str]:
    """mask zeroing (under `mask_index is not None`) dominates the normalising division."""
    g = CFG(f.node)
    pm = parents_map(f.node)
    zero_nodes = []
    wrong_polarity: List[str] = []
    for n in walk_no_nested(f.node):
        if isinstance(n, ast.If) and norm(n.test) == "mask_index is not None":
            for s in n.body:
                for x in ast.walk(s):
                    if isinstance(x, ast.Assign) and isinstance(x.targets[0], ast.Subscript) and norm(x.value) in ("0", "0.0"):
                        idx = norm(x.targets[0].slice)
                        sl = x.targets[0].slice
                        # result[<window> == mask_index] = 0: the mask must be an *equality* with mask_index
                        masks = [c_ for c_ in ast.walk(sl) if isinstance(c_, ast.Compare) and "mask_index" in norm(c_)]
                        if masks and not all((rel_of(c_) or ("",))[0] == "eq" for c_ in masks):
                            wrong_polarity.append(norm(x))
                            continue
                        if "mask_index" in idx or _under_mask_compare(x, pm):
                            zero_nodes.append(n)
    if wrong_polarity:
        return False, "`%s` zeroes the positions that are NOT the mask: every real weight is removed and the mask keeps its own" % wrong_polarity[0]
    if not zero_nodes:
        return False, "no `if mask_index is not None:` block zeroing the masked positions"
    norm_ifs = [n for n in walk_no_nested(f.node) if isinstance(n, ast.If) and norm(n.test) == "normalize"]
    for ni in norm_ifs:
        if not all(z.lineno < ni.lineno for z in zero_nodes):
            return False, "the masked weights are zeroed after the normalising division"
        tgt = g.node_for(ni)
        zn = g.node_for(zero_nodes[0])
        if not g.must_pass([zn], tgt):
            # the test may sit inside the loop that fills the weights segment by segment: then every
            # filled segment is masked, and the zero-trip path has nothing to mask
            z = zero_nodes[0]
            loops = [a for a in ancestors(z, pm) if isinstance(a, ast.For)]
            fills = loops and any(
                isinstance(x, ast.Assign) and isinstance(x.targets[0], ast.Subscript) and not any(x is y for y in ast.walk(z))
                for s2 in loops[0].body for x in ast.walk(s2)
            )
            if not (fills and (loops[0].end_lineno or 0) < ni.lineno):
                return False, "some path reaches the normalisation without the mask test"
    return True, "mask zeroing precedes normalisation"


def _under_mask_compare(x: ast.AST, pm) -> bool:
    for a in ancestors(x, pm):
        if isinstance(a, ast.If):
            for c in ast.walk(a.test):
                r = rel_of(c) if isinstance(c, ast.Compare) else None
                if r and r[0] == "eq" and "mask_index" in r[1]:
                    return True
    return False


def r14_3(repo: Repo) -> RuleResult:
    rr = RuleResult("R14.3", "every kernel and window function in the registries handles mask_index before normalising", floor=10)
    regs = ["_KERNEL_FUNCTIONS", "_TIMED_KERNEL_FUNCTIONS", "_MULTI_KERNEL_FUNCTIONS"]
    seen = set()
    for r in regs:
        for k, f in repo.registry(WK, r).items():
            if f in seen:
                continue
            seen.add(f)
            ok, why = _zeroing_before_normalise(f)
            (rr.ok if ok else rr.bad)(f, "%s[%r]" % (r, k), why, f.node.lineno)
    f = repo.func(WK, "update_kernel")
    ok, why = _zeroing_before_normalise(f)
    (rr.ok if ok else rr.bad)(f, "update_kernel", why, f.node.lineno)
    for k, f in repo.registry(WK, "_WINDOW_FUNCTIONS").items():
        hit = [n for n in walk_no_nested(f.node) if isinstance(n, ast.If) and norm(n.test) == "mask_index is not None"
               and any(isinstance(x, ast.Assign) and isinstance(x.targets[0], ast.Subscript) and norm(x.targets[0].slice) == "mask_index"
                       and norm(x.value) in ("0", "0.0") for s in n.body for x in ast.walk(s))]
        rets = [n for n in walk_no_nested(f.node) if isinstance(n, ast.Return)]
        # after the zeroing, a masked store of a non-zero constant must exclude the zeros (`(x > 0) * (x < 1)`)
        overwrites = []
        if hit:
            for n in walk_no_nested(f.node):
                if isinstance(n, ast.Assign) and isinstance(n.targets[0], ast.Subscript) and n.lineno > hit[0].lineno \
                        and isinstance(n.value, ast.Constant) and n.value.value not in (0, 0.0):
                    mask = n.targets[0].slice
                    if any(isinstance(x, ast.Compare) for x in ast.walk(mask)):
                        keeps_zero = any(isinstance(x, ast.Compare) and isinstance(x.ops[0], ast.Gt) and norm(x.comparators[0]) in ("0", "0.0")
                                         for x in ast.walk(mask))
                        if not keeps_zero:
                            overwrites.append(n)
        if overwrites:
            rr.bad(f, "_WINDOW_FUNCTIONS[%r]" % k,
                   "`%s` (line %d) also rewrites entries that are zero: the radius of the mask token, zeroed under nullify_mask, becomes %s again - "
                   "the mask token gets a window and contributes" % (short(overwrites[0], 50), overwrites[0].lineno, norm(overwrites[0].value)), overwrites[0].lineno)
        elif hit and all(h.lineno < r.lineno for h in hit for r in rets):
            rr.ok(f, "_WINDOW_FUNCTIONS[%r]" % k, "radius of the mask token set to zero", f.node.lineno)
        else:
            rr.bad(f, "_WINDOW_FUNCTIONS[%r]" % k, "the radius of the mask token is not zeroed under `mask_index is not None`", f.node.lineno)
    # mask index = vocabulary size before the mask was appended = len(token frequencies)
    for f in repo.all_funcs():
        for n in walk_no_nested(f.node):
            if isinstance(n, ast.Assign) and len(n.targets) == 1 and (is_self_attr(n.targets[0], "_mask_index") or norm(n.targets[0]) == "mask_index") \
                    and not is_none(n.value) and f.cls is not None:
                v = norm(n.value)
                if "len(self._token_frequencies_)" in v:
                    rr.ok(f, "mask index", "`%s`" % v, n.lineno)
                else:
                    rr.bad(f, "mask index", "mask index computed as `%s`, not len(self._token_frequencies_)" % v, n.lineno)
    return rr


def expand_locals_in(e, f):
    from .common import expand_locals

    return expand_locals(e, f, 2)


def r14_4(repo: Repo) -> RuleResult:
    """Tree vectorizer: the mask's row and column are removed from the square count matrix - by a two-sided projector
    P.X.P with P = I except P[mask, mask] = 0, or by clearing row and column directly - and this happens *before* the
    orientation handling: after `hstack([X^T, X])` the mask has two columns (m and n + m) and clearing index m alone
    leaves the 'post_' one standing."""
    rr = RuleResult("R14.4", "tree: the mask's row and column are removed from the square matrix, before the orientation blocks are laid out", floor=2)
    f = repo.func("vectorizers/tree_token_cooccurrence.py", "sequence_tree_skip_grams")
    sd = single_defs_in(f)
    blocks = []
    for n in f.node.body:
        if isinstance(n, ast.If) and isinstance(n.test, ast.Compare) and len(n.test.ops) == 1 and isinstance(n.test.ops[0], ast.IsNot) \
                and norm(n.test.comparators[0]) == "None":
            op = n.test.left
            full = norm(sd.get(norm(op), op))
            if full == "kernel_args[0]":
                blocks.append(n)
    if len(blocks) != 1:
        raise AnalysisError("R14.4: nullify-mask block not found in sequence_tree_skip_grams")
    b = blocks[0]
    mask_names = {"kernel_args[0]"} | {k for k, v in sd.items() if norm(v) == "kernel_args[0]"}
    eye = [n for n in b.body if isinstance(n, ast.Assign) and isinstance(n.targets[0], ast.Name) and "scipy.sparse.eye" in norm(n.value)]
    ok = False
    how = ""
    if eye:
        P = eye[0].targets[0].id
        zero = [n for n in b.body if isinstance(n, ast.Assign) and isinstance(n.targets[0], ast.Subscript) and norm(n.targets[0].value).startswith(P + ".")
                and any(m in norm(n.targets[0].slice) for m in mask_names) and norm(n.value) in ("0", "0.0")]
        both = []
        for n in b.body:
            if isinstance(n, ast.Assign) and isinstance(n.targets[0], ast.Name):
                X = n.targets[0].id
                v = norm(n.value).replace(" ", "")
                if v in ("%s.dot(%s).dot(%s)" % (P, X, P), "(%s.dot(%s)).dot(%s)" % (P, X, P), "%s@%s@%s" % (P, X, P), "%s.dot(%s.dot(%s))" % (P, X, P)):
                    both.append(n)
        ok = bool(zero and both and eye[0].lineno < zero[0].lineno < both[0].lineno)
        how = "P = I with P[mask, mask] = 0; counts = P . counts . P"
    else:
        # direct clearing: X[mask, :] = 0 and X[:, mask] = 0
        rows = cols = False
        for n in b.body:
            if isinstance(n, ast.Assign) and isinstance(n.targets[0], ast.Subscript) and isinstance(n.targets[0].slice, ast.Tuple) \
                    and len(n.targets[0].slice.elts) == 2 and norm(n.value) in ("0", "0.0"):
                a0, a1 = n.targets[0].slice.elts
                if norm(a0) in mask_names and isinstance(a1, ast.Slice):
                    rows = True
                if norm(a1) in mask_names and isinstance(a0, ast.Slice):
                    cols = True
        ok = rows and cols
        how = "row and column of the mask cleared directly"
    if ok:
        rr.ok(f, "mask removal", how, b.lineno)
    else:
        rr.bad(f, "mask removal", "the mask's row and column are not both removed (neither a two-sided projector nor a row and a column clear)", b.lineno)
    # order: before the orientation dispatch
    orient = [n for n in f.node.body if isinstance(n, ast.If) and isinstance(n.test, ast.Compare) and "window_orientation" in norm(n.test.left)]
    if not orient:
        raise AnalysisError("R14.4: orientation dispatch of sequence_tree_skip_grams not found")
    if f.node.body.index(b) < f.node.body.index(orient[0]):
        rr.ok(f, "mask removal before orientation", "applied to the square matrix, before transposes / hstack", b.lineno)
    else:
        rr.bad(f, "mask removal before orientation", "the mask is removed after the orientation blocks are laid out: for 'directional' the matrix is "
               "[X^T, X] with the mask at columns m and n + m, and index m alone is cleared - the 'post_' mask column keeps its counts", b.lineno)
    return rr


def single_defs_in(f: Func):
    from .common import single_defs

    return single_defs(f)


def r14_5(repo: Repo) -> RuleResult:
    return config_agreement(
        repo, "R14.5", "`masking` is passed on the transform path wherever it is on the fit path (position-preserving replacement also when transforming)",
        only_params={"masking"}, floor=5,
    )


def r14_6(repo: Repo) -> RuleResult:
    """Which branch runs is decided by whether a mask is *configured* (`masking is None`), not by its truthiness: the
    empty string is a string like any other, and a truthiness test silently treats it as "no mask"."""
    rr = RuleResult("R14.6", "the preprocessors choose the masking branch by `masking is None`, not by the truthiness of the mask string", floor=4)
    for name in PREPROCESS:
        f = repo.func(PP, name)
        arms = _masking_if(f)
        if arms.identity:
            rr.ok(f, "mask dispatch", "`%s`" % norm(arms.node.test), arms.lineno)
        else:
            rr.bad(f, "mask dispatch", "the branch is chosen by the truthiness of `masking` (`%s`): mask_string='' - a legal mask - takes the "
                   "unmasked branch, removed tokens are deleted instead of replaced and no mask entry is added" % norm(arms.node.test), arms.lineno)
    return rr


RULES = [r14_1, r14_2, r14_3, r14_4, r14_5, r14_6]
CLAIM = (
    "R14.1 in all four preprocess_* functions the mask code is len(dictionary) evaluated with the mask key absent and the mask is "
    "appended last with nothing touching the dictionary in between; R14.2 masking branch has no filter, non-masking branch filters; "
    "R14.3 every kernel / window function of the registries zeroes the mask before normalising and every class computes the mask "
    "index as len(token frequencies); R14.4 the tree projector; R14.5 `masking` reaches preprocessing on the transform path "
    "whenever it does on the fit path; R14.6 the four preprocessors choose the masking branch by `masking is None` (identity), never by the truthiness of the mask string."
)
NOT_DECIDED = "equality of all other cells with the masked computation (values)."
