"""C11 - EM refinement and epsilon thresholding follow the documented procedure."""
from __future__ import annotations

import ast
import copy
from typing import Dict, List, Optional, Set, Tuple

from ..model import AnalysisError, Func, Repo, is_self_attr, short, walk_no_nested
from ..report import RuleResult
from .c04 import build_kernels, BASE_FILE, COO_FILE
from .c10 import r10_2
from .common import comp_elt_form, value_form, expand_locals, kw, norm, single_defs


def r11_1(repo: Repo) -> RuleResult:
    rr = r10_2(repo, "R11.1")
    rr.title = "the EM look-up is confined to the target row: " + rr.title
    rr.instances = [i for i in rr.instances if i.file == COO_FILE]
    rr.floor = 1
    return rr


def _classify(s: ast.stmt, m: str) -> Optional[str]:
    if isinstance(s, ast.Assign) and len(s.targets) == 1:
        t = s.targets[0]
        if isinstance(t, ast.Name) and t.id == m:
            calls = [c for c in ast.walk(s.value) if isinstance(c, ast.Call) and norm(c.func) == "normalize"]
            if calls:
                c = calls[0]
                if c.args and norm(c.args[0]) == m and kw(c, "axis") is not None and norm(kw(c, "axis")) == "0" \
                        and kw(c, "norm") is not None and norm(kw(c, "norm")) in ("'l1'", '"l1"'):
                    return "normalize"
                return "normalize?"
        if isinstance(t, ast.Attribute) and norm(t) == "%s.data" % m:
            return "setdata"
        if isinstance(t, ast.Subscript) and norm(t.value) == "%s.data" % m:
            idx = t.slice
            if isinstance(idx, ast.Compare) and norm(idx.left) == "%s.data" % m and isinstance(idx.ops[0], ast.Lt) \
                    and norm(idx.comparators[0]) == "self.epsilon" and norm(s.value) in ("0", "0.0"):
                return "threshold"
            return "threshold?"
    if isinstance(s, ast.Expr) and isinstance(s.value, ast.Call) and norm(s.value.func) == "%s.eliminate_zeros" % m:
        return "eliminate"
    return None


def r11_2(repo: Repo) -> RuleResult:
    rr = RuleResult("R11.2", "normalise(columns, l1) -> threshold(< epsilon -> 0) -> eliminate_zeros, before the EM loop and after every iteration", floor=2)
    f = repo.func(BASE_FILE, "BaseCooccurrenceVectorizer._build_token_cooccurrence_matrix")
    # the matrix is the object the function returns (possibly converted)
    ret_names = []
    for n in walk_no_nested(f.node):
        if isinstance(n, ast.Return) and n.value is not None:
            ret_names += [x.id for x in ast.walk(n.value) if isinstance(x, ast.Name)]
    if not ret_names:
        raise AnalysisError("R11.2: the matrix returned by _build_token_cooccurrence_matrix is not a local name")
    m = ret_names[0]
    pre = [n for n in f.node.body if isinstance(n, ast.If) and "self.n_iter" in norm(n.test) and "self.epsilon" in norm(n.test)]
    loops = [n for n in f.node.body if isinstance(n, ast.For) and "self.n_iter" in norm(n.iter)]
    if len(loops) != 1:
        raise AnalysisError("R11.2: EM loop `for ... in range(self.n_iter)` not found")
    want = ["normalize", "threshold", "eliminate"]
    if len(pre) != 1:
        rr.bad(f, "initial normalisation block", "no block guarded by `self.n_iter > 0 or self.epsilon > 0` before the EM loop", loops[0].lineno)
    else:
        b = pre[0]
        t = norm(b.test)
        ok_guard = isinstance(b.test, ast.BoolOp) and isinstance(b.test.op, ast.Or) and \
            {norm(v) for v in b.test.values} == {"self.n_iter > 0", "self.epsilon > 0"}
        seq = [c for c in (_classify(s, m) for s in b.body) if c]
        if not ok_guard:
            rr.bad(f, "initial normalisation block", "guard is `%s`, not `self.n_iter > 0 or self.epsilon > 0`" % t, b.lineno)
        elif seq != want or b.lineno > loops[0].lineno:
            rr.bad(f, "initial normalisation block", "steps are %s, expected %s before the EM loop" % (seq, want), b.lineno)
        else:
            rr.ok(f, "initial normalisation block", "normalize(axis=0, l1) -> data < epsilon -> 0 -> eliminate_zeros", b.lineno)
    lp = loops[0]
    seq = [c for c in (_classify(s, m) for s in lp.body) if c]
    if seq == ["setdata"] + want:
        rr.ok(f, "EM iteration body", "matrix.data = new_data -> normalize -> threshold -> eliminate_zeros", lp.lineno)
    else:
        rr.bad(f, "EM iteration body", "steps after the E/M update are %s, expected %s" % (seq, ["setdata"] + want), lp.lineno)
    # the matrix handed back must be the one that went through these steps
    rets = [n for n in walk_no_nested(f.node) if isinstance(n, ast.Return)]
    for r in rets:
        if m not in norm(r.value):
            rr.bad(f, "return", "returns `%s`, not the processed matrix" % short(r.value), r.lineno)
    return rr


class _StripDtype(ast.NodeTransformer):
    def visit_Call(self, node):
        self.generic_visit(node)
        node.keywords = [k for k in node.keywords if k.arg != "dtype"]
        return node


def _collected(f: Func, name: str) -> Set[str]:
    """Normalised expressions appended to / comprehended into the list `name`."""
    out = set()
    for n in walk_no_nested(f.node):
        e = None
        if isinstance(n, ast.Call) and norm(n.func) == "%s.append" % name and n.args:
            e = n.args[0]
        elif isinstance(n, ast.Assign) and isinstance(n.targets[0], ast.Name) and n.targets[0].id == name \
                and isinstance(n.value, ast.ListComp):
            x = _StripDtype().visit(copy.deepcopy(expand_locals(n.value, f, 4)))
            out.add(comp_elt_form(x, f, n))
            continue
        if e is not None:
            x = expand_locals(e, f, 4)
            x = _StripDtype().visit(copy.deepcopy(x))
            out.add(value_form(x, f, n))
    return out


def _collected_expr(f: Func, e: ast.AST) -> Set[str]:
    """The same for a list given either through a local name or written in place as a comprehension."""
    if isinstance(e, ast.Name):
        return _collected(f, e.id)
    if isinstance(e, ast.ListComp):
        x = _StripDtype().visit(copy.deepcopy(expand_locals(e, f, 4)))
        return {comp_elt_form(x, f, e)}
    return set()


def _pairs(repo: Repo) -> List[Tuple[Func, Func]]:
    em = repo.func(COO_FILE, "em_update_matrix")
    out = []
    for b in build_kernels(repo):
        ems = [f for f in b.module.all_funcs if f.is_njit and f is not b and em in [t for c in repo.calls_in(f) for t in repo.resolve_call(f, c)]]
        if len(ems) != 1:
            raise AnalysisError("R11.3: %s has %d EM kernels in its module" % (b.key, len(ems)))
        out.append((b, ems[0]))
    return out


def r11_3(repo: Repo) -> RuleResult:
    rr = RuleResult("R11.3", "the build kernel and the EM kernel of each vectorizer construct windows, kernels and row ids the same way", floor=4)
    em = repo.func(COO_FILE, "em_update_matrix")
    app = repo.func(COO_FILE, "coo_append")
    for b, e in _pairs(repo):
        problems = []
        # EM side: the lists are whatever is handed to em_update_matrix as `windows` / `kernels`
        calls = [c for c in repo.calls_in(e) if em in repo.resolve_call(e, c)]
        bound = repo.bind_args(em, calls[0])
        if not all(isinstance(bound.get(k), (ast.Name, ast.ListComp)) for k in ("windows", "kernels")):
            raise AnalysisError("R11.3: em_update_matrix is not given its windows / kernels as lists built in %s" % e.key)
        e_win, e_ker = bound["windows"], bound["kernels"]
        # build side: the loop `for i, w in enumerate(<windows>)` that appends, and the list indexed by i inside it
        b_win = b_ker = None
        from .common import parents_map, ancestors

        pm = parents_map(b.node)
        for c in repo.calls_in(b):
            if app in repo.resolve_call(b, c):
                for a in ancestors(c, pm):
                    if isinstance(a, ast.For) and isinstance(a.iter, ast.Call) and norm(a.iter.func) == "enumerate" and isinstance(a.iter.args[0], ast.Name) \
                            and isinstance(a.target, ast.Tuple):
                        if not _collected(b, a.iter.args[0].id):
                            continue  # an inner per-element loop, not the loop over the windows list
                        idx = norm(a.target.elts[0])
                        b_win = a.iter.args[0].id
                        b_ker = None
                        for n in ast.walk(a):
                            if isinstance(n, ast.Subscript) and isinstance(n.value, ast.Name) and norm(n.slice) == idx and n.value.id != b_win \
                                    and isinstance(n.ctx, ast.Load) and _collected(b, n.value.id):
                                b_ker = b_ker or n.value.id
        if b_win is None or b_ker is None:
            raise AnalysisError("R11.3: windows / kernels lists of the build kernel %s not recognised" % b.key)
        wb, we = _collected(b, b_win), _collected_expr(e, e_win)
        kb, ke = _collected(b, b_ker), _collected_expr(e, e_ker)
        if wb != we:
            problems.append("windows differ: build %s vs EM %s" % (sorted(wb), sorted(we)))
        if kb != ke:
            problems.append("kernel weights differ: build %s vs EM %s" % (sorted(kb), sorted(ke)))
        if not wb or not kb:
            raise AnalysisError("R11.3: windows/kernels construction not recognised in %s" % b.key)
        if not all("mix_weights[" in k for k in kb | ke):
            problems.append("a kernel is not multiplied by its mix weight")
        # the row id is the first element of the tuple handed to coo_append
        row_b = None
        for c in repo.calls_in(b):
            if app in repo.resolve_call(b, c):
                tup = repo.bind_args(app, c).get(app.params[1])
                if isinstance(tup, ast.Tuple) and tup.elts:
                    row_b = value_form(tup.elts[0], b, c)
        row_e = value_form(bound["target_gram_ind"], e, calls[0])
        if row_b != row_e:
            problems.append("row id differs: build `%s` vs EM `%s`" % (row_b, row_e))
        # the EM kernel must hand over the very windows/kernels it built
        construct = "%s vs %s" % (b.name, e.name)
        if problems:
            rr.bad(e, construct, "; ".join(problems), e.node.lineno)
        else:
            rr.ok(e, construct, "%d window form(s), %d kernel form(s), row id `%s` agree" % (len(wb), len(kb), row_b), e.node.lineno)
    return rr


def r11_4(repo: Repo) -> RuleResult:
    from .. import sym
    from . import c10

    rr = RuleResult("R11.4", "prior and posterior cells are addressed from the start of the target row's own slice", floor=2)
    f = repo.func(COO_FILE, "em_update_matrix")
    sites = [s_ for s_ in c10.searchsorted_sites(repo) if s_[0] is f]
    if not sites:
        raise AnalysisError("R11.4: searchsorted site not found in em_update_matrix")
    _, target, call, arr, key = sites[0]
    sd = single_defs(f)
    if arr not in sd or not (isinstance(sd[arr], ast.Subscript) and isinstance(sd[arr].slice, ast.Slice)):
        raise AnalysisError("R11.4: `%s` is not a slice of the index array" % arr)

    # only the names the slice bounds are written with (e.g. row_start) are expanded - never the position itself
    bound_names = {x.id for x in ast.walk(sd[arr].slice) if isinstance(x, ast.Name) and x.id in sd}

    def full(e):
        cur = e
        for _ in range(3):
            names = {x.id for x in ast.walk(cur) if isinstance(x, ast.Name) and x.id in bound_names}
            if not names:
                break
            cur = sym.substitute(cur, {k: sd[k] for k in names})
        return cur

    lo, hi = full(sd[arr].slice.lower), full(sd[arr].slice.upper)
    if isinstance(lo, ast.Subscript) and isinstance(hi, ast.Subscript) and norm(lo.value) == norm(hi.value) \
            and sym.sub(sym.poly(hi.slice), sym.poly(lo.slice)) == {(): 1}:
        rr.ok(f, "row slice", "`%s` = indices[indptr[t] : indptr[t + 1]]" % arr, sd[arr].lineno)
    else:
        rr.bad(f, "row slice", "`%s` is not the slice indptr[t] : indptr[t + 1] of one row" % arr, sd[arr].lineno)
    # is the stored position row-local, or already in the coordinates of the whole array (start + searchsorted)?
    wrapper = c10._CLAMPED.get(id(call))
    included = {}
    if isinstance(wrapper, ast.BinOp) and isinstance(wrapper.op, ast.Add):
        other = wrapper.right if any(call is x for x in ast.walk(wrapper.left)) else wrapper.left
        included = sym.poly(full(other))
    want = sym.sub(sym.poly(lo), included)
    aliases = {norm(target)}
    for n in walk_no_nested(f.node):
        if isinstance(n, ast.Assign) and norm(n.value) in aliases:
            aliases.add(norm(n.targets[0]))
    data_params = [p_ for p_ in f.params if "data" in p_]
    uses = []
    for n in walk_no_nested(f.node):
        if isinstance(n, ast.Subscript) and norm(n.value) in data_params:
            hit = [a_ for a_ in aliases if a_ in norm(n.slice)]
            if hit:
                uses.append((n, max(hit, key=len)))
    if len(uses) < 2:
        raise AnalysisError("R11.4: prior / posterior data accesses through the searchsorted position not found")
    for u, al in uses:
        off = sym.sub(sym.poly(full(u.slice)), sym.poly(ast.parse(al, mode="eval").body))
        construct = "%s[%s]" % (norm(u.value), short(u.slice, 50))
        if off == want:
            rr.ok(f, construct, "cell = start of the row's slice + position in the slice", u.lineno)
        else:
            rr.bad(f, construct, "the cell is addressed at position + `%s`, but the position was found in the slice starting at `%s`%s: "
                   "mass is read from / credited to another row" % (sym.show(off), norm(lo), " (already included in the position)" if included else ""), u.lineno)
    return rr


RULES = [r11_1, r11_2, r11_3, r11_4]
CLAIM = (
    "R11.1 the posterior look-up position from np.searchsorted is range-guarded so it stays inside the target row's slice; "
    "R11.2 the normalise -> threshold -> eliminate_zeros sequence is present, in this order, under `n_iter > 0 or epsilon > 0` "
    "and after every EM update; R11.3 build and EM kernels of each of the four vectorizers construct windows, mix-weighted "
    "kernels and row ids identically (fact sets, dtype keywords excluded); R11.4 prior / posterior cells are addressed at slice start + position for the very slice that was searched (symbolic)."
)
NOT_DECIDED = "equality with the documented EM procedure as a numerical statement (column sums, [0,1] range, support monotonicity as values)."
