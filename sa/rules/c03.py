"""C03 - co-occurrence matrices equal the windowed, kernel-weighted definition (structural clauses)."""
from __future__ import annotations

import ast
from typing import Dict, List, Optional, Set, Tuple

from .. import sym
from ..model import AnalysisError, Cls, Func, Repo, is_self_attr, short, walk_no_nested
from ..report import RuleResult
from .c04 import BASE_FILE, build_kernels
from .common import ancestors, exported_estimators, kw, names_in, norm, parents_map, single_defs

WK = "vectorizers/_window_kernels.py"
PP = "vectorizers/preprocessing.py"
TIMED = "vectorizers/timed_token_cooccurrence_vectorizer.py"


def _is_f32(repo: Repo, f: Func, e: Optional[ast.AST]) -> bool:
    return e is not None and (repo.canonical(f.module, e) in ("numpy.float32", "numpy.single", "numpy.float16", "numpy.half") or norm(e) in ("'float32'", '"float32"', "'f4'"))


def _timestamp_reads(e: ast.AST) -> List[ast.Subscript]:
    """`x[1]` reads (second component of a (token, timestamp) pair)."""
    return [n for n in ast.walk(e) if isinstance(n, ast.Subscript) and isinstance(n.slice, ast.Constant) and n.slice.value == 1]


def r3_1(repo: Repo) -> RuleResult:
    rr = RuleResult("R3.1", "no float32 narrowing between a timestamp and the timestamp difference", floor=2)
    funcs = [repo.func(PP, "preprocess_timed_token_sequences")] + [f for f in repo.module(TIMED).all_funcs if f.is_njit]
    for f in funcs:
        pm = parents_map(f.node)
        for call in repo.calls_in(f):
            canon = repo.canonical(f.module, call.func)
            narrowing = None
            payload = None
            if canon in ("numpy.array", "numpy.asarray") and _is_f32(repo, f, kw(call, "dtype")) and call.args:
                narrowing, payload = "np.array(..., dtype=np.float32)", call.args[0]
            elif isinstance(call.func, ast.Attribute) and call.func.attr == "astype" and call.args and _is_f32(repo, f, call.args[0]):
                narrowing, payload = ".astype(np.float32)", call.func.value
            elif canon in ("numpy.float32",) and call.args:
                narrowing, payload = "np.float32(...)", call.args[0]
            if narrowing is None:
                continue
            reads = _timestamp_reads(payload)
            if not reads:
                continue
            # is every timestamp read already under a subtraction (a delta)?
            raw = []
            for r in reads:
                under_sub = False
                cur = r
                while cur is not payload and cur is not None:
                    cur = pm.get(id(cur))
                    if isinstance(cur, ast.BinOp) and isinstance(cur.op, ast.Sub):
                        under_sub = True
                        break
                if not under_sub:
                    raw.append(r)
            construct = "%s over `%s`" % (narrowing, short(reads[0], 30))
            if raw:
                rr.bad(f, construct,
                       "an absolute timestamp (`%s`) is stored in a float32 container before any difference is taken: float32 has 24 "
                       "bits, so at t ~ 1.6e9 s the stored time is quantised to 128 s and the kernel weight no longer depends only on "
                       "the time differences" % norm(raw[0]), call.lineno)
            else:
                rr.note(f, construct, "float32 applied to an already formed time difference (not a violation)", call.lineno)
    # the pair container must exist (anchor) - count the pair-building array calls
    f = repo.func(PP, "preprocess_timed_token_sequences")
    pairs = [c for c in repo.calls_in(f) if repo.canonical(f.module, c.func) == "numpy.array" and c.args and _timestamp_reads(c.args[0])]
    if len(pairs) < 2:
        raise AnalysisError("R3.1: the (index, timestamp) pair arrays are no longer built in preprocess_timed_token_sequences")
    for c in pairs:
        if not _is_f32(repo, f, kw(c, "dtype")):
            rr.ok(f, "pair array `%s`" % short(c.args[0], 30), "dtype %s keeps float64 time stamps" % (norm(kw(c, "dtype")) if kw(c, "dtype") is not None else "default (float64)"), c.lineno)
    return rr


def _dispatch_arm(first_if: ast.If, key: str, what: str) -> List[ast.stmt]:
    """Statements an if / elif chain on string constants executes for the orientation `key` (nested tests on the same
    constants are resolved as well, wherever they sit in the arm)."""
    from .common import const_test_truth, flatten_dispatch

    if const_test_truth(first_if.test, key) is None:
        raise AnalysisError("R3.2: %s dispatch test `%s` is not a comparison with orientation constants" % (what, norm(first_if.test)))
    return flatten_dispatch([first_if], key)


def _init_tables(repo: Repo) -> Dict[str, List[Tuple[bool, str]]]:
    f = repo.func(BASE_FILE, "BaseCooccurrenceVectorizer.__init__")
    out: Dict[str, List[Tuple[bool, str]]] = {}
    loops = [n for n in walk_no_nested(f.node) if isinstance(n, ast.For) and "self.window_orientations" in norm(n.iter)
             and any("_window_reversals" in norm(x) for x in ast.walk(n))]
    if not loops:
        raise AnalysisError("R3.2: orientation expansion loop not found in BaseCooccurrenceVectorizer.__init__")
    first = next((x for x in loops[0].body if isinstance(x, ast.If)), None)
    if not isinstance(first, ast.If):
        raise AnalysisError("R3.2: orientation expansion loop does not start with its dispatch")
    for key in ("directional", "before", "after"):
        revs, oris = [], []
        for s in _dispatch_arm(first, key, "orientation expansion"):
            c = s.value if isinstance(s, ast.Expr) else None
            if isinstance(c, ast.Call) and isinstance(c.func, ast.Attribute):
                tgt = norm(c.func.value)
                vals = c.args[0].elts if c.func.attr == "extend" and isinstance(c.args[0], (ast.List, ast.Tuple)) else [c.args[0]]
                if tgt == "self._window_reversals":
                    revs += [v.value for v in vals if isinstance(v, ast.Constant)]
                if tgt == "self._window_orientations":
                    oris += [v.value for v in vals if isinstance(v, ast.Constant)]
        out[key] = list(zip(revs, oris))
    return out


def _column_tables(repo: Repo) -> Dict[str, List[str]]:
    f = repo.func(BASE_FILE, "BaseCooccurrenceVectorizer._set_column_dicts")
    loops = [n for n in walk_no_nested(f.node) if isinstance(n, ast.For) and "self.window_orientations" in norm(n.iter)]
    if not loops:
        raise AnalysisError("R3.2: column naming loop not found in _set_column_dicts")
    out: Dict[str, List[str]] = {}
    cur = next((x for x in loops[0].body if isinstance(x, ast.If)), None)

    def prefixes(stmts) -> List[str]:
        seq = []
        for s in stmts:
            if isinstance(s, ast.Expr) and isinstance(s.value, ast.Call) and norm(s.value.func).endswith(".update"):
                consts = [n.value for n in ast.walk(s.value) if isinstance(n, ast.Constant) and isinstance(n.value, str) and n.value.endswith("_") and len(n.value) > 1]
                seq.append(consts[0] if consts else "?")
            elif isinstance(s, ast.AugAssign) and isinstance(s.target, ast.Name) and isinstance(s.op, ast.Add) and norm(s.value) == "1":
                seq.append("+")  # the block counter advances
        return seq

    if not isinstance(cur, ast.If):
        raise AnalysisError("R3.2: column naming loop does not start with its dispatch")
    for key in ("directional", "before", "after"):
        out[key] = prefixes(_dispatch_arm(cur, key, "column naming"))
    return out


def r3_2(repo: Repo) -> RuleResult:
    rr = RuleResult("R3.2", "orientation expansion, column-block naming and window extraction agree on block order", floor=3)
    init = _init_tables(repo)
    cols = _column_tables(repo)
    f_init = repo.func(BASE_FILE, "BaseCooccurrenceVectorizer.__init__")
    f_cols = repo.func(BASE_FILE, "BaseCooccurrenceVectorizer._set_column_dicts")
    wai = repo.func(WK, "window_at_index")
    # which flag yields the tokens *before* the index?
    before_flag = None
    for n in walk_no_nested(wai.node):
        if isinstance(n, ast.If) and norm(n.test) in ("reverse", "not reverse"):
            body_txt = " ".join(norm(s) for s in n.body)
            # the slice ending at `ind` is the 'before' window
            ends_at_ind = any(isinstance(s, ast.Subscript) and isinstance(s.slice, ast.Slice) and s.slice.upper is not None and norm(s.slice.upper) == "ind"
                              for st in n.body for s in ast.walk(st))
            if ends_at_ind:
                before_flag = norm(n.test) == "reverse"
    if before_flag is None:
        raise AnalysisError("R3.2: cannot tell which value of `reverse` selects the tokens before the index in window_at_index")
    name_of = {before_flag: "before", (not before_flag): "after"}
    prefix_of = {"before": "pre_", "after": "post_"}
    want = {"directional": [(before_flag, "before"), (not before_flag, "after")], "before": [(before_flag, "before")], "after": [(not before_flag, "after")]}
    for key in ("directional", "before", "after"):
        got = init.get(key)
        if got == want[key]:
            rr.ok(f_init, "orientation %r" % key, "expands to %s" % got, f_init.node.lineno)
        else:
            rr.bad(f_init, "orientation %r" % key,
                   "expands to (reversal flag, name) %s but window_at_index returns the tokens before the index for reverse=%s: expected %s"
                   % (got, before_flag, want[key]), f_init.node.lineno)
        got_c = [p for p in cols.get(key, [])]
        want_c = []
        for _, nm in want[key]:
            want_c += [prefix_of[nm], "+"]
        if got_c == want_c:
            rr.ok(f_cols, "column blocks %r" % key, "%s" % got_c, f_cols.node.lineno)
        else:
            rr.bad(f_cols, "column blocks %r" % key,
                   "column labels are written as %s but the matrix blocks are laid out as %s" % (got_c, want_c), f_cols.node.lineno)
    return rr


def _kernel_call_arity(repo: Repo, build: Func) -> int:
    """Number of leading positional data arguments in `kernel_functions[i](..., *kernel_args[i])`."""
    sd = single_defs(build)
    for c in repo.calls_in(build):
        fn = c.func
        if isinstance(fn, ast.Name) and fn.id in sd:
            fn = sd[fn.id]
        if isinstance(fn, ast.Subscript) and norm(fn.value) == "kernel_functions":
            k = 0
            for a in c.args:
                if isinstance(a, ast.Starred):
                    return k
                k += 1
    raise AnalysisError("R3.3: kernel call `kernel_functions[i](..., *kernel_args[i])` not found in %s" % build.key)


def r3_3(repo: Repo) -> RuleResult:
    rr = RuleResult("R3.3", "positional kernel / window arguments are packed in the order of every registered function's parameters", floor=9)
    base = repo.cls(BASE_FILE, "BaseCooccurrenceVectorizer")
    for c in [c for c in exported_estimators(repo) if base in repo.mro(c)]:
        setter = repo.resolve_method(c, "_set_full_kernel_args")
        dicts = [n for n in walk_no_nested(setter.node) if isinstance(n, ast.Dict) and n.keys and all(isinstance(k, ast.Constant) for k in n.keys)]
        if len(dicts) != 1:
            raise AnalysisError("R3.3: default kernel-argument dict literal not found in %s" % setter.key)
        keys = [k.value for k in dicts[0].keys]
        getter = repo.resolve_method(c, "_get_default_kernel_functions")
        rets = [n for n in walk_no_nested(getter.node) if isinstance(n, ast.Return)]
        r = repo.resolve_name(getter.module, norm(rets[0].value))
        if not (isinstance(r, tuple) and r[0] == "registry"):
            raise AnalysisError("R3.3: %s does not return a kernel registry" % getter.key)
        reg = repo.registry(r[1].path, r[2])
        bsg = repo.resolve_method(c, "_build_skip_grams")
        builds = [t for call in repo.calls_in(bsg) for t in repo.resolve_call(bsg, call, c) if isinstance(t, Func) and t.is_njit]
        arity = _kernel_call_arity(repo, builds[0])
        for k, g in reg.items():
            got = g.positional_params[arity:arity + len(keys)]
            construct = "%s: %s[%r]" % (c.name, r[2], k)
            if got == keys:
                rr.ok(setter, construct, "packed %s == parameters %d.. of %s" % (keys, arity, g.name), setter.node.lineno)
            else:
                rr.bad(setter, construct,
                       "kernel arguments are packed positionally as %s but %s takes %s after its %d data argument(s): values land in the wrong parameters"
                       % (keys, g.name, got, arity), g.node.lineno)
    # the single-kernel users (skip-gram, tree) pack the same way
    for file, cname in (("vectorizers/skip_gram_vectorizer.py", "SkipgramVectorizer"), ("vectorizers/tree_token_cooccurrence.py", "LabelledTreeCooccurrenceVectorizer")):
        f = repo.func(file, cname + ".fit")
        cls_ = repo.cls(file, cname)
        # the packing may sit in fit itself or in a method fit calls (a shared parameter-setting helper)
        cand = [f] + [g for g in repo.reachable_from(cls_, "fit") if g is not f and g.cls is cls_]
        dicts = [(g, n.value) for g in cand for n in walk_no_nested(g.node)
                 if isinstance(n, ast.Assign) and is_self_attr(n.targets[0], "_kernel_args") and isinstance(n.value, ast.Dict)]
        if len(dicts) != 1:
            raise AnalysisError("R3.3: kernel-argument dict literal not found in %s" % f.key)
        f, dicts = dicts[0][0], [dicts[0][1]]
        keys = [k.value for k in dicts[0].keys]
        for k, g in repo.registry(WK, "_KERNEL_FUNCTIONS").items():
            got = g.positional_params[1:1 + len(keys)]
            construct = "%s: _KERNEL_FUNCTIONS[%r]" % (cname, k)
            (rr.ok if got == keys else rr.bad)(f, construct, ("packed %s == parameters of %s" if got == keys else "packed %s but %s takes " + str(got)) % (keys, g.name), f.node.lineno)
    # window functions: (radius, frequencies, mask index, *extra)
    for c in [c for c in exported_estimators(repo) if base in repo.mro(c)]:
        setter = repo.resolve_method(c, "_set_window_len_array")
        # the callee is the loop variable ranging over self._window_functions
        fn_names = set()
        for lp in [n for n in walk_no_nested(setter.node) if isinstance(n, ast.For) and "self._window_functions" in norm(n.iter)]:
            fn_names |= {x.id for x in ast.walk(lp.target) if isinstance(x, ast.Name)}
        calls = [x for x in repo.calls_in(setter) if isinstance(x.func, ast.Name) and x.func.id in fn_names]
        if len(calls) != 1:
            raise AnalysisError("R3.3: window function call not found in %s" % setter.key)
        args = [norm(a) for a in calls[0].args if not isinstance(a, ast.Starred)]
        roles = ["radi" in args[0], "frequenc" in args[1], "mask" in args[2]] if len(args) >= 3 else [False]
        for k, g in repo.registry(WK, "_WINDOW_FUNCTIONS").items():
            names = g.positional_params[:3]
            ok = all(roles) and names == ["window_size", "token_frequency", "mask_index"]
            construct = "%s: _WINDOW_FUNCTIONS[%r]" % (c.name, k)
            (rr.ok if ok else rr.bad)(setter, construct,
                                      "called with (%s) for parameters %s" % (", ".join(args[:3]), names), setter.node.lineno)
    return rr


def r3_4(repo: Repo) -> RuleResult:
    rr = RuleResult("R3.4", "window slices never start at a negative position (a negative lower bound wraps around)", floor=3)
    scope = [repo.func(WK, "window_at_index")] + build_kernels(repo)
    em = repo.func("vectorizers/coo_utils.py", "em_update_matrix")
    for f in repo.all_funcs():
        if f.is_njit and f not in scope and em in [t for c in repo.calls_in(f) for t in repo.resolve_call(f, c)]:
            scope.append(f)
    for f in scope:
        pm = parents_map(f.node)
        for s in [n for n in walk_no_nested(f.node) if isinstance(n, ast.Subscript) and isinstance(n.slice, ast.Slice)]:
            lo = s.slice.lower
            if lo is None:
                continue
            subs = [n for n in ast.walk(lo) if isinstance(n, ast.BinOp) and isinstance(n.op, ast.Sub)]
            if not subs:
                continue
            construct = "%s[%s:...]" % (norm(s.value), norm(lo))
            if isinstance(lo, ast.Call) and norm(lo.func) in ("max", "np.maximum") and any(
                (isinstance(a, ast.Constant) and a.value == 0) or (isinstance(a, (ast.List, ast.Tuple)) and any(isinstance(x, ast.Constant) and x.value == 0 for x in a.elts))
                for a in lo.args
            ):
                rr.ok(f, construct, "lower bound clamped with max(..., 0)", s.lineno)
                continue
            # provable from the enclosing range: lo = v - c with v in range(c', ...) and c' >= c
            proved = False
            for a in ancestors(s, pm):
                if isinstance(a, ast.For) and isinstance(a.target, ast.Name) and isinstance(a.iter, ast.Call) and norm(a.iter.func) == "range" and len(a.iter.args) == 2:
                    v = a.target.id
                    k, rest = sym.coeff_of(sym.poly(lo), v)
                    if k == 1:
                        # lo = v + rest >= start + rest
                        total = sym._add(sym.poly(a.iter.args[0]), rest)
                        c = sym.const_of(total)
                        if c is not None and c >= 0:
                            proved = True
            if proved:
                rr.ok(f, construct, "lower bound >= 0 by the enclosing range start", s.lineno)
            else:
                rr.bad(f, construct, "slice lower bound `%s` is a difference that is neither clamped with max(..., 0) nor bounded by its loop: "
                       "near the start of a sequence it is negative and the slice wraps around to the end" % norm(lo), s.lineno)
    return rr


def r3_5(repo: Repo) -> RuleResult:
    rr = RuleResult("R3.5", "window_at_index returns exactly window_size neighbours on the chosen side, nearest first", floor=2)
    f = repo.func(WK, "window_at_index")
    seq, size, ind = f.params[0], f.params[1], f.params[2]
    rets = [n for n in walk_no_nested(f.node) if isinstance(n, ast.Return)]
    if len(rets) != 2:
        raise AnalysisError("R3.5: window_at_index no longer has one return per direction")

    def strip(e: ast.AST) -> ast.AST:
        # min(x, len(seq)) / max(x, 0) -> x
        if isinstance(e, ast.Call) and norm(e.func) in ("min", "max") and len(e.args) == 2:
            for a in e.args:
                if not (isinstance(a, ast.Constant) or norm(a) == "len(%s)" % seq):
                    return a
        return e

    for r in rets:
        slices = [n for n in ast.walk(r.value) if isinstance(n, ast.Subscript) and isinstance(n.slice, ast.Slice) and norm(n.value) == seq]
        if len(slices) != 1:
            raise AnalysisError("R3.5: window slice not recognised in `%s`" % short(r.value))
        sl = slices[0].slice
        lo, hi = strip(sl.lower), strip(sl.upper)
        width = sym.sub(sym.poly(hi), sym.poly(lo))
        before = sym.poly(hi) == sym.poly(ast.parse(ind, mode="eval").body)
        after = sym.poly(lo) == sym.poly(ast.parse("%s + 1" % ind, mode="eval").body)
        flipped = isinstance(r.value, ast.Call) and repo.canonical(f.module, r.value.func) in ("numpy.flipud", "numpy.flip")
        construct = "%s window" % ("before" if before else "after" if after else "?")
        problems = []
        if width != sym.poly(ast.parse(size, mode="eval").body):
            problems.append("slice [%s, %s) has %s elements, not %s" % (norm(lo), norm(hi), sym.show(width), size))
        if not (before or after):
            problems.append("the slice neither ends at the index nor starts right after it (the target token would be inside / a neighbour skipped)")
        if before and not flipped:
            problems.append("the window before the index is not reversed: kernels weight position 0 as the nearest neighbour")
        if after and flipped:
            problems.append("the window after the index is reversed")
        if problems:
            rr.bad(f, construct, "; ".join(problems), r.lineno)
        else:
            rr.ok(f, construct, "`%s`: %s elements adjacent to the index, nearest first" % (short(r.value, 70), size), r.lineno)
    return rr


def _backward_slice(f: Func, seeds: Set[str]) -> Set[str]:
    """Names whose values can flow into the seed names (flow-insensitive)."""
    sl = set(seeds)
    changed = True
    while changed:
        changed = False
        for n in walk_no_nested(f.node):
            tgt: List[str] = []
            src: Set[str] = set()
            if isinstance(n, ast.Assign):
                for t in n.targets:
                    tgt += [x.id for x in ast.walk(t) if isinstance(x, ast.Name) and isinstance(x.ctx, ast.Store)]
                src = names_in(n.value)
            elif isinstance(n, ast.AugAssign) and isinstance(n.target, ast.Name):
                tgt, src = [n.target.id], names_in(n.value)
            elif isinstance(n, ast.Call) and isinstance(n.func, ast.Attribute) and n.func.attr in ("append", "extend") and isinstance(n.func.value, ast.Name):
                tgt = [n.func.value.id]
                for a in n.args:
                    src |= names_in(a)
            elif isinstance(n, ast.comprehension):
                tgt = [x.id for x in ast.walk(n.target) if isinstance(x, ast.Name)]
                src = names_in(n.iter)
            if set(tgt) & sl and not src <= sl:
                sl |= src
                changed = True
    return sl


def r3_6(repo: Repo) -> RuleResult:
    rr = RuleResult("R3.6", "the window total that normalises a weight is a total of the mix-weighted kernels", floor=4)
    app = repo.func("vectorizers/coo_utils.py", "coo_append")
    for f in build_kernels(repo):
        calls = [c for c in repo.calls_in(f) if app in repo.resolve_call(f, c)]
        tup = repo.bind_args(app, calls[0]).get(app.params[1])
        if not (isinstance(tup, ast.Tuple) and len(tup.elts) == 4):
            raise AnalysisError("R3.6: %s does not append a (row, col, val, key) tuple" % f.key)
        sd = single_defs(f)
        val = tup.elts[2]
        if isinstance(val, ast.Name) and val.id in sd:
            val = sd[val.id]
        divs = [n for n in ast.walk(val) if isinstance(n, ast.BinOp) and isinstance(n.op, ast.Div)]
        if not divs or not isinstance(divs[0].right, ast.Name):
            raise AnalysisError("R3.6: the stored value of %s is not `<weight> / <total>`" % f.key)
        total = divs[0].right.id
        # the mix weights parameter
        mix = [p for p in f.params if "mix" in p]
        if not mix:
            raise AnalysisError("R3.6: %s has no mix-weight parameter" % f.key)
        # the weight itself must be mix-weighted ...
        w_slice = _backward_slice(f, names_in(divs[0].left))
        # ... and so must every non-constant contribution to the total
        contribs = []
        for n in walk_no_nested(f.node):
            if isinstance(n, ast.Assign) and any(isinstance(t, ast.Name) and t.id == total for t in n.targets) and not isinstance(n.value, ast.Constant):
                contribs.append(n.value)
            if isinstance(n, ast.AugAssign) and isinstance(n.target, ast.Name) and n.target.id == total:
                contribs.append(n.value)
        construct = "`%s`" % norm(divs[0])
        problems = []
        if mix[0] not in w_slice:
            problems.append("the weight `%s` is not multiplied by %s" % (norm(divs[0].left), mix[0]))
        if not contribs:
            problems.append("the total `%s` is never computed" % total)
        for cexpr in contribs:
            if mix[0] not in _backward_slice(f, names_in(cexpr)):
                problems.append("the total `%s` accumulates `%s`, which does not include the mix weights, while the weights it divides do: "
                                "with mix weights other than 1 an occurrence no longer distributes one unit over its windows" % (total, norm(cexpr)))
        # the total is formed only when window normalisation is switched on (otherwise the weights are divided by 1)
        flag = [p_ for p_ in f.params if "normal" in p_]
        if not flag:
            raise AnalysisError("R3.6: %s has no window-normalisation flag parameter" % f.key)
        from .common import ancestors, parents_map

        pm_ = parents_map(f.node)
        for n in walk_no_nested(f.node):
            is_contrib = (isinstance(n, ast.Assign) and any(isinstance(t, ast.Name) and t.id == total for t in n.targets) and not isinstance(n.value, ast.Constant)) \
                or (isinstance(n, ast.AugAssign) and isinstance(n.target, ast.Name) and n.target.id == total)
            if is_contrib and not any(isinstance(a, ast.If) and norm(a.test) == flag[0] and any(n is x for b_ in a.body for x in ast.walk(b_)) for a in ancestors(n, pm_)):
                problems.append("the total is formed from the kernels (`%s`) outside `if %s`: the weights are normalised even when window "
                                "normalisation is off" % (short(n, 50), flag[0]))
        guard = [n for n in walk_no_nested(f.node) if isinstance(n, ast.If) and norm(n.test) in ("%s <= 0" % total, "%s == 0" % total, "%s <= 0.0" % total)]
        if not guard:
            problems.append("no guard against a zero total before the division")
        if problems:
            rr.bad(f, construct, "; ".join(problems), divs[0].lineno)
        else:
            rr.ok(f, construct, "weight and total both derive from the mix-weighted kernels; zero total guarded", divs[0].lineno)
    return rr


def r3_7(repo: Repo) -> RuleResult:
    """Fitted kernel parameters (the timed vectorizer's mean time gap) are part of the definition the matrix must
    equal; they must be computed from the data of *this* fit, so an accumulator attribute is re-initialised in the
    function that accumulates it (the rule is R13.5, restricted to the co-occurrence family)."""
    from .c13 import r13_5

    rr = r13_5(repo)
    rr.rule, rr.title, rr.floor = "R3.7", "fitted kernel parameters of the co-occurrence vectorizers are recomputed from scratch by every fit", 1
    rr.instances = [i for i in rr.instances if "cooccurrence" in i.file or "cooccurence" in i.file]
    for i in rr.instances:
        i.rule = "R3.7"
    # anchor: the fitted kernel parameter must still be written by the timed vectorizer's parameter step
    from ..model import is_self_attr

    f = repo.func(TIMED, "TimedTokenCooccurrenceVectorizer._set_additional_params")
    writes = [n for n in walk_no_nested(f.node) if (isinstance(n, ast.Assign) and any(is_self_attr(t) for t in n.targets))
              or (isinstance(n, ast.AugAssign) and is_self_attr(n.target))]
    if not writes:
        raise AnalysisError("R3.7: _set_additional_params of the timed vectorizer no longer assigns a fitted kernel parameter")
    rr.ok(f, "fitted kernel parameter", "written by %d statement(s) of the parameter step" % len(writes), writes[0].lineno)
    return rr


def r3_8(repo: Repo) -> RuleResult:
    """Kernel functions, window functions, their argument tuples and the radii are per-window lists that must line up
    with the expanded reversal flags: a 'directional' entry becomes two windows, any other orientation one.  Each
    expansion loop of __init__ is evaluated for each orientation and its number of appends compared with the number of
    reversal flags the orientation expands to."""
    rr = RuleResult("R3.8", "every per-window configuration list expands an orientation to as many entries as it has reversal flags", floor=12)
    f = repo.func(BASE_FILE, "BaseCooccurrenceVectorizer.__init__")
    flags = _init_tables(repo)

    def is_orient_test(t: ast.AST) -> bool:
        return isinstance(t, ast.Compare) and "self.window_orientations[" in norm(t.left) and len(t.ops) == 1

    def count(stmts, key: str, lst: str) -> int:
        n = 0
        for st in stmts:
            if isinstance(st, ast.Expr) and isinstance(st.value, ast.Call) and isinstance(st.value.func, ast.Attribute) \
                    and st.value.func.attr == "append" and norm(st.value.func.value) == lst:
                n += 1
            elif isinstance(st, ast.If):
                if is_orient_test(st.test):
                    n += count(_dispatch_arm(st, key, "per-window list"), key, lst)
                elif isinstance(st.test, ast.Constant):
                    n += count(st.body if st.test.value else st.orelse, key, lst)
                else:
                    arms = []
                    cur = st
                    while isinstance(cur, ast.If):
                        arms.append(cur.body)
                        if cur.orelse and len(cur.orelse) == 1 and isinstance(cur.orelse[0], ast.If):
                            cur = cur.orelse[0]
                        else:
                            arms.append(cur.orelse)
                            cur = None
                    live = [a for a in arms if not (a and isinstance(a[-1], ast.Raise))]
                    counts = {count(a, key, lst) for a in live}
                    if len(counts) > 1:
                        raise AnalysisError("R3.8: arms of `if %s` append to %s a different number of times" % (short(st.test, 40), lst))
                    n += counts.pop() if counts else 0
        return n

    for lp in [n for n in walk_no_nested(f.node) if isinstance(n, ast.For)]:
        # a per-window expansion loop: `for i, x in enumerate(self.<parameter>)` appending to a private list
        if not (isinstance(lp.iter, ast.Call) and norm(lp.iter.func) == "enumerate" and lp.iter.args and is_self_attr(lp.iter.args[0])):
            continue
        if any("_window_reversals" in norm(x) for x in ast.walk(lp)):
            # the reference expansion itself (R3.2): every *other* list it fills must get as many entries as the flags
            first = next((x for x in lp.body if isinstance(x, ast.If)), None)
            if first is None:
                continue
            others = {norm(c.func.value) for c in ast.walk(lp) if isinstance(c, ast.Call) and isinstance(c.func, ast.Attribute)
                      and c.func.attr in ("append", "extend") and is_self_attr(c.func.value) and c.func.value.attr != "_window_reversals"}
            for lst in sorted(others):
                for key in ("directional", "before", "after"):
                    n_got = 0
                    for st in _dispatch_arm(first, key, "orientation expansion"):
                        c = st.value if isinstance(st, ast.Expr) else None
                        if isinstance(c, ast.Call) and isinstance(c.func, ast.Attribute) and norm(c.func.value) == lst:
                            n_got += len(c.args[0].elts) if c.func.attr == "extend" and isinstance(c.args[0], (ast.List, ast.Tuple)) else 1
                    construct = "%s for %r" % (lst, key)
                    if n_got == len(flags[key]):
                        rr.ok(f, construct, "%d entr%s, as many as reversal flags" % (n_got, "y" if n_got == 1 else "ies"), lp.lineno)
                    else:
                        rr.bad(f, construct, "an orientation %r contributes %d entr%s to %s but %d reversal flag(s): later windows are paired with "
                               "the wrong mix weight / name" % (key, n_got, "y" if n_got == 1 else "ies", lst, len(flags[key])), lp.lineno)
            continue
        lists = {norm(c.func.value) for st in lp.body for c in ast.walk(st)
                 if isinstance(c, ast.Call) and isinstance(c.func, ast.Attribute) and c.func.attr == "append" and is_self_attr(c.func.value)
                 and c.func.value.attr.startswith("_")}
        if not lists:
            continue
        if len(lists) != 1:
            raise AnalysisError("R3.8: expansion loop at line %d appends to %s" % (lp.lineno, sorted(lists)))
        lst = lists.pop()
        for key in ("directional", "before", "after"):
            want = len(flags[key])
            got = count(lp.body, key, lst)
            construct = "%s for %r" % (lst, key)
            if got == want:
                rr.ok(f, construct, "%d entr%s, as many as reversal flags" % (got, "y" if got == 1 else "ies"), lp.lineno)
            else:
                rr.bad(f, construct, "an orientation %r contributes %d entr%s to %s but %d window(s) to the reversal flags: every later "
                       "window is paired with the wrong kernel / radius / arguments" % (key, got, "y" if got == 1 else "ies", lst, want), lp.lineno)
    return rr


MULTI = "vectorizers/multi_token_cooccurence_vectorizer.py"


def r3_9(repo: Repo) -> RuleResult:
    """The multiset kernels cut their windows themselves instead of calling window_at_index.  The same table must hold:
    reversal flag set = the window *before* the position - a slice of the document list that ends at (and includes)
    the current multiset, nearest first (reversed); flag clear = the slice that starts at the current multiset."""
    rr = RuleResult("R3.9", "multiset kernels: a set reversal flag selects the slice ending at the position (reversed), a clear one the slice starting at it", floor=2)
    for f in [g for g in repo.module(MULTI).all_funcs if g.is_njit]:
        ifs = [n for n in walk_no_nested(f.node) if isinstance(n, ast.If) and "window_reversals[" in norm(n.test)]
        for n in ifs:
            t = n.test
            neg = False
            while isinstance(t, ast.UnaryOp) and isinstance(t.op, ast.Not):
                t, neg = t.operand, not neg
            if not (isinstance(t, ast.Subscript) and norm(t.value) == "window_reversals"):
                raise AnalysisError("R3.9: reversal test `%s` not recognised in %s" % (norm(n.test), f.key))
            arm_set, arm_clear = (n.orelse, n.body) if neg else (n.body, n.orelse)

            def shape(stmts):
                sl = [x for s_ in stmts for x in ast.walk(s_) if isinstance(x, ast.Subscript) and isinstance(x.slice, ast.Slice)]
                rev = any(isinstance(x, ast.Call) and isinstance(x.func, ast.Attribute) and x.func.attr == "reverse" for s_ in stmts for x in ast.walk(s_)) \
                    or any(isinstance(x.slice.step, ast.UnaryOp) for x in sl if x.slice.step is not None)
                return sl, rev

            (sl_s, rev_s), (sl_c, rev_c) = shape(arm_set), shape(arm_clear)
            if len(sl_s) != 1 or len(sl_c) != 1:
                raise AnalysisError("R3.9: window slices of %s not recognised" % f.key)
            # the position variable: the lower bound of the forward slice
            pos_forward = norm(sl_c[0].slice.lower) if sl_c[0].slice.lower is not None else None
            ends_at = sl_s[0].slice.upper is not None and pos_forward is not None and norm(sl_s[0].slice.upper) == "%s + 1" % pos_forward
            construct = "window selection on window_reversals[...]"
            if ends_at and rev_s and not rev_c:
                rr.ok(f, construct, "flag set: [.. : %s + 1] reversed; flag clear: [%s : ..]" % (pos_forward, pos_forward), n.lineno)
            else:
                rr.bad(f, construct, "with the reversal flag set the kernel takes `%s`%s and with it clear `%s`%s: 'before' and 'after' windows are "
                       "exchanged relative to the flags and column blocks the estimator sets up" % (norm(sl_s[0]), " reversed" if rev_s else "", norm(sl_c[0]), " reversed" if rev_c else ""), n.lineno)
    return rr


NGC = "vectorizers/ngram_token_cooccurence_vectorizer.py"


def r3_10(repo: Repo) -> RuleResult:
    """For an n-gram row item the 'after' window starts after the n-gram's *last* token and the 'before' window ends
    before its *first* token.  The kernels express both through one anchor that depends on the reversal flag (0 / 1):
    with the flag 0 it must be the index of the n-gram's last token (slice upper bound - 1), with the flag 1 the index
    of its first token (slice lower bound) - whatever the loop variable stands for."""
    rr = RuleResult("R3.10", "n-gram kernels anchor the 'after' window at the n-gram's last token and the 'before' window at its first", floor=2)
    wai = repo.func(WK, "window_at_index")
    for f in [g for g in repo.module(NGC).all_funcs if g.is_njit]:
        grams = [c for c in repo.calls_in(f) if norm(c.func) == "array_to_tuple" and c.args and isinstance(c.args[0], ast.Subscript)
                 and isinstance(c.args[0].slice, ast.Slice)]
        wins = [c for c in repo.calls_in(f) if wai in repo.resolve_call(f, c)]
        if not grams or not wins:
            continue
        sl = grams[0].args[0].slice
        lo, hi = sym.poly(sl.lower) if sl.lower is not None else {}, sym.poly(sl.upper)
        for c in wins:
            b = repo.bind_args(wai, c)
            anchor = b.get(wai.params[2])
            flags = [x for x in ast.walk(anchor) if isinstance(x, ast.Subscript) and "revers" in norm(x.value)]
            construct = "window_at_index(..., %s, ...)" % short(anchor, 50)
            if not flags:
                raise AnalysisError("R3.10: the window anchor `%s` of %s does not depend on a reversal flag" % (norm(anchor), f.key))
            key = norm(flags[0])
            a0 = sym.poly(sym.substitute(anchor, {key: ast.Constant(value=0)}))
            a1 = sym.poly(sym.substitute(anchor, {key: ast.Constant(value=1)}))
            last = sym.sub(hi, {(): 1})
            if a0 == last and a1 == lo:
                rr.ok(f, construct, "flag 0 -> %s (last token of the n-gram), flag 1 -> %s (its first token)" % (sym.show(a0), sym.show(a1)), c.lineno)
            else:
                rr.bad(f, construct, "with the reversal flag 0 the anchor is `%s` (last token of the n-gram is `%s`), with 1 it is `%s` (first token is `%s`): "
                       "for n-grams longer than 2 the 'before' window is anchored inside the n-gram, counts the n-gram's own tokens as context and "
                       "drops the farthest context token" % (sym.show(a0), sym.show(last), sym.show(a1), sym.show(lo)), c.lineno)
    return rr


def r3_11(repo: Repo) -> RuleResult:
    """Each window's kernel is called with the defaults overridden by *that window's* arguments only.  The packing
    loops over the per-window argument dicts; a container it updates per window and packs from must be created inside
    the loop body - one created before the loop carries a key set for window i into every later window."""
    rr = RuleResult("R3.11", "per-window kernel argument packs are built from a container created for that window", floor=2)
    base = repo.cls(BASE_FILE, "BaseCooccurrenceVectorizer")
    seen = set()
    for c in [c for c in exported_estimators(repo) if base in repo.mro(c)]:
        setter = repo.resolve_method(c, "_set_full_kernel_args")
        if setter in seen:
            continue
        seen.add(setter)
        loops = [n for n in walk_no_nested(setter.node) if isinstance(n, ast.For) and "_kernel_args" in norm(n.iter)]
        if not loops:
            raise AnalysisError("R3.11: loop over the per-window kernel arguments not found in %s" % setter.key)
        for lp in loops:
            body_nodes = [x for st in lp.body for x in ast.walk(st)]
            made_here = {t.id for x in body_nodes if isinstance(x, (ast.Assign, ast.AnnAssign))
                         for t in (x.targets if isinstance(x, ast.Assign) else [x.target]) if isinstance(t, ast.Name)}
            mutated = []
            for x in body_nodes:
                if isinstance(x, ast.Call) and isinstance(x.func, ast.Attribute) and x.func.attr in ("update", "setdefault", "pop", "append", "extend") \
                        and isinstance(x.func.value, ast.Name):
                    mutated.append((x.func.value.id, x.lineno, "%s.%s(...)" % (x.func.value.id, x.func.attr)))
                if isinstance(x, (ast.Assign, ast.AugAssign)):
                    for t in (x.targets if isinstance(x, ast.Assign) else [x.target]):
                        if isinstance(t, ast.Subscript) and isinstance(t.value, ast.Name):
                            mutated.append((t.value.id, x.lineno, "%s[...] = ..." % t.value.id))
            carried = [m for m in mutated if m[0] not in made_here]
            if carried:
                name, line, what = carried[0]
                rr.bad(setter, "%s: %s" % (setter.qualname, what), "`%s` is created before the loop over the windows and updated inside it: an argument given for one "
                       "window stays set for every later window that does not give it" % name, line)
            else:
                rr.ok(setter, "%s: loop over %s" % (setter.qualname, norm(lp.iter)), "containers updated per window (%s) are created in the loop body"
                      % (", ".join(sorted({m[0] for m in mutated})) or "none"), lp.lineno)
    return rr


RULES = [r3_1, r3_2, r3_3, r3_4, r3_5, r3_6, r3_7, r3_8, r3_9, r3_10, r3_11]
CLAIM = (
    "R3.1 precision flow: no absolute timestamp is narrowed to float32 before the time difference is formed; R3.2 the three tables "
    "(orientation -> reversal flags, orientation -> column prefixes, reversal flag -> before/after in window_at_index) agree; R3.3 "
    "positional kernel / window argument packing matches the parameter order of every function in each class's registry; R3.4 "
    "window slices have non-negative lower bounds (clamp or range proof); R3.5 window_at_index takes exactly window_size neighbours adjacent to the index on the chosen side, nearest first; R3.6 the stored weight and the window total it is divided by both derive from the mix-weighted kernels (backward slices), with a zero-total guard; R3.7 kernel parameters fitted from the data (the mean time gap) are accumulated in an attribute that the same function re-initialises on every path; R3.8 every per-window configuration list (kernel and window functions, their arguments, radii) expands each orientation to as many entries as it has reversal flags (the dispatch is evaluated per orientation); R3.9 in the multiset kernels, which cut their windows themselves, a set reversal flag selects the slice ending at the position (reversed) and a clear flag the slice starting at it; R3.10 the n-gram kernels anchor the 'after' window at the n-gram's last token and the 'before' window at its first (the anchor expression is evaluated symbolically for reversal flag 0 and 1 against the bounds of the n-gram slice); R3.11 the per-window kernel argument packs are built from a container created inside the loop over the windows (nothing set for one window carries into the next)."
)
NOT_DECIDED = "the numerical definition itself: kernel formulas, per-occurrence sums, window normalisation totals, the transpose identity."
