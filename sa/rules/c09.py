"""C09 - byte-pair encodings (structural clauses)."""
from __future__ import annotations

import ast
from typing import Optional, Dict, List, Set

from .. import sym
from ..model import AnalysisError, Func, Repo, short, walk_no_nested
from ..report import RuleResult
from .c01 import r1_5
from .c10 import r10_1
from .common import parents_map, enclosing_stmt, expand_locals, norm

MG = "vectorizers/mixed_gram_vectorizer.py"


def r9_1(repo: Repo) -> RuleResult:
    return r10_1(repo, "R9.1", files={MG}, floor=19)


def _next_sibling(f: Func, st: ast.stmt) -> Optional[ast.stmt]:
    for parent in ast.walk(f.node):
        for fld in ("body", "orelse", "finalbody"):
            v = getattr(parent, fld, None)
            if isinstance(v, list):
                for i, x in enumerate(v):
                    if x is st:
                        return v[i + 1] if i + 1 < len(v) else None
    return None


def r9_2(repo: Repo) -> RuleResult:
    rr = RuleResult("R9.2", "every decode site uses the test `code <= mcc` and the offset `code - mcc - 1`; the encoder starts at mcc + 1", floor=7)
    m = repo.module(MG)
    # readers: conditional expressions / if statements choosing between chr(x)/[x] and table[x - mcc - 1]
    readers = 0
    for f in m.all_funcs:
        for n in walk_no_nested(f.node):
            cond = body = None
            if isinstance(n, ast.IfExp):
                cond, other = n.test, n.orelse
            elif isinstance(n, ast.If) and len(n.body) == 1 and isinstance(n.body[0], ast.Return) and n.orelse \
                    and isinstance(n.orelse[0], ast.Return):
                cond, other = n.test, n.orelse[0].value
            elif isinstance(n, ast.If) and len(n.body) == 1 and isinstance(n.body[0], ast.Return) and not n.orelse:
                # `if c: return A` followed by `return B` in the same block (no-else-return style)
                nxt = _next_sibling(f, n)
                if not isinstance(nxt, ast.Return) or nxt.value is None:
                    continue
                cond, other = n.test, nxt.value
            else:
                continue
            if isinstance(cond, ast.UnaryOp) and isinstance(cond.op, ast.Not):
                # `if not (code <= mcc): return table[...]` followed by / else `return chr(code)`: the table arm is the taken one
                cond = cond.operand
                if isinstance(n, ast.IfExp):
                    other = n.body
                elif n.orelse:
                    other = n.body[0].value
                else:
                    other = n.body[0].value
            if not (isinstance(cond, ast.Compare) and len(cond.ops) == 1 and "max_char_code" in norm(cond.comparators[0])):
                continue
            subs = [s for s in ast.walk(other) if isinstance(s, ast.Subscript) and "max_char_code" in norm(s.slice)]
            if not subs:
                continue  # pair_length style (table keyed by the code itself) or the encoder's 0-mapping
            readers += 1
            x = norm(cond.left)
            mcc = norm(cond.comparators[0])
            construct = "decode `%s`" % short(subs[0], 50)
            problems = []
            if not isinstance(cond.ops[0], ast.LtE):
                problems.append("test is `%s`, not `%s <= %s`" % (norm(cond), x, mcc))
            want = sym.poly(ast.parse("%s - (%s) - 1" % (x, mcc), mode="eval").body)
            if sym.poly(subs[0].slice) != want:
                problems.append("offset is `%s`, not `%s - %s - 1`" % (norm(subs[0].slice), x, mcc))
            if problems:
                rr.bad(f, construct, "; ".join(problems) + ": codes are looked up one entry off / the first learned token is unreachable", n.lineno)
            else:
                rr.ok(f, construct, "`%s <= %s` else table[%s - %s - 1]" % (x, mcc, x, mcc), n.lineno)
    if readers < 5:
        raise AnalysisError("R9.2: only %d decode sites recognised (5 confirmed by hand)" % readers)
    # writers: new_code = max_char_code + 1 ; new_code += 1 once per merge
    for name in ("bpe_train", "bpe_encode"):
        f = repo.func(MG, name)
        # the code counter is the variable handed to the contraction kernel as its `new_code`
        counter = None
        for c in repo.calls_in(f):
            for t in repo.resolve_call(f, c):
                if isinstance(t, Func) and "new_code" in t.params:
                    b = repo.bind_args(t, c)
                    if isinstance(b.get("new_code"), ast.Name):
                        counter = b["new_code"].id
        if counter is None:
            raise AnalysisError("R9.2: code counter not found in %s" % name)
        mcc = [p_ for p_ in f.params if "max_char_code" in p_]
        inits = [n for n in walk_no_nested(f.node) if isinstance(n, ast.Assign) and norm(n.targets[0]) == counter]
        incs = [n for n in walk_no_nested(f.node) if isinstance(n, ast.AugAssign) and norm(n.target) == counter]
        ok = (
            len(inits) == 1
            and bool(mcc)
            and sym.poly(inits[0].value) == sym.poly(ast.parse("%s + 1" % mcc[0], mode="eval").body)
            and len(incs) == 1
            and isinstance(incs[0].op, ast.Add)
            and norm(incs[0].value) == "1"
        )
        if ok:
            rr.ok(f, "new_code", "starts at max_char_code + 1, advanced by one per merge", inits[0].lineno)
        else:
            rr.bad(f, "new_code", "the code counter does not start at max_char_code + 1 / advance by exactly one per merge", f.node.lineno)
    return rr


def r9_3(repo: Repo) -> RuleResult:
    rr = RuleResult("R9.3", "at most max_vocab_size tokens are learned: one append per iteration of `while len(tokens) < vocab_size`", floor=1)
    f = repo.func(MG, "bpe_train")
    loops = [n for n in walk_no_nested(f.node) if isinstance(n, ast.While)]
    if len(loops) != 1:
        raise AnalysisError("R9.3: bpe_train no longer has a single training loop")
    lp = loops[0]
    t = lp.test
    # the token list is the first element of the returned tuple
    rets = [n for n in walk_no_nested(f.node) if isinstance(n, ast.Return) and isinstance(n.value, ast.Tuple)]
    if not rets or not isinstance(rets[0].value.elts[0], ast.Name):
        raise AnalysisError("R9.3: bpe_train does not return its token list first")
    tok = rets[0].value.elts[0].id
    budget = f.params[1]
    ok_test = isinstance(t, ast.Compare) and len(t.ops) == 1 and isinstance(t.ops[0], ast.Lt) \
        and norm(t.left) == "len(%s)" % tok and norm(t.comparators[0]) == budget
    appends = [n for n in ast.walk(lp) if isinstance(n, ast.Call) and norm(n.func) == "%s.append" % tok]
    outside = [n for n in walk_no_nested(f.node) if isinstance(n, ast.Call) and norm(n.func) in ("%s.append" % tok, "%s.extend" % tok)
               and not any(n is x for x in ast.walk(lp))]
    if ok_test and len(appends) == 1 and not outside:
        rr.ok(f, "training loop", "guard len(tokens) < vocab_size, one append per iteration", lp.lineno)
    else:
        rr.bad(f, "training loop", "the vocabulary can grow past vocab_size (guard `%s`, %d appends in the loop, %d outside)"
               % (norm(t), len(appends), len(outside)), lp.lineno)
    # the public parameter is validated before training
    ft = repo.func(MG, "BytePairEncodingVectorizer.fit_transform")
    train_line = [c.lineno for c in repo.calls_in(ft) if norm(c.func) == "bpe_train"]
    checks = [n for n in walk_no_nested(ft.node) if isinstance(n, ast.If) and "self.max_vocab_size <= 0" in norm(n.test)
              and any(isinstance(s, ast.Raise) for s in n.body)]
    if checks and train_line and checks[0].lineno < train_line[0]:
        rr.ok(ft, "max_vocab_size validation", "max_vocab_size >= 1 enforced before bpe_train", checks[0].lineno)
    else:
        rr.bad(ft, "max_vocab_size validation", "max_vocab_size is not validated before training", ft.node.lineno)
    return rr


def r9_4(repo: Repo) -> RuleResult:
    rr = r1_5(repo)
    rr.rule = "R9.4"
    for i in rr.instances:
        i.rule = "R9.4"
    return rr


def r9_5(repo: Repo) -> RuleResult:
    rr = RuleResult("R9.5", "every learned token is recorded together with its pair and its length; the merge list that is replayed is the one that was learned", floor=3)
    f = repo.func(MG, "bpe_train")
    rets = [n for n in walk_no_nested(f.node) if isinstance(n, ast.Return) and isinstance(n.value, ast.Tuple)]
    if not rets or len(rets[0].value.elts) < 4 or not all(isinstance(e, ast.Name) for e in rets[0].value.elts[:4]):
        raise AnalysisError("R9.5: bpe_train does not return (tokens, code_list, encodings, max_char_code) by name")
    tok, codes, enc, mcc = [e.id for e in rets[0].value.elts[:4]]
    from .common import parents_map, enclosing_stmt

    pm = parents_map(f.node)

    def block_of(call):
        st = enclosing_stmt(call, pm)
        parent = pm[id(st)]
        for fld in ("body", "orelse", "finalbody"):
            b = getattr(parent, fld, None)
            if isinstance(b, list) and any(st is x for x in b):
                return b
        return None

    t_apps = [n for n in walk_no_nested(f.node) if isinstance(n, ast.Call) and norm(n.func) == "%s.append" % tok]
    c_apps = [n for n in walk_no_nested(f.node) if isinstance(n, ast.Call) and norm(n.func) == "%s.append" % codes]
    problems = []
    for a in t_apps:
        b = block_of(a)
        mates = [c for c in c_apps if block_of(c) is b]
        if len(mates) != 1:
            problems.append("a token is appended (line %d) without its pair being appended to the merge list in the same block" % a.lineno)
        else:
            # the token string is built from the very pair that is recorded
            pair = norm(mates[0].args[0])
            if pair not in norm(a.args[0]):
                problems.append("the token appended at line %d is not built from the recorded pair `%s`" % (a.lineno, pair))
    if len(c_apps) != len(t_apps):
        problems.append("merge list and token list are appended %d vs %d times" % (len(c_apps), len(t_apps)))
    if problems:
        rr.bad(f, "token / pair bookkeeping", "; ".join(problems), f.node.lineno)
    else:
        rr.ok(f, "token / pair bookkeeping", "%d paired appends to %s and %s" % (len(t_apps), tok, codes), f.node.lineno)
    # the fitted max_char_code is the running maximum over the training characters: every update sits in the loop
    # nest that visits each character of each training string, and raises mcc to that character's code
    from .common import rel_of

    upd = [n for n in walk_no_nested(f.node) if isinstance(n, ast.Assign) and norm(n.targets[0]) == mcc]
    strings = f.params[0]

    def char_loops():
        out = []
        for outer in [n for n in walk_no_nested(f.node) if isinstance(n, ast.For)]:
            it = outer.iter.args[0] if isinstance(outer.iter, ast.Call) and norm(outer.iter.func) == "enumerate" and outer.iter.args else outer.iter
            if norm(it) != strings:
                continue
            ovars = {x.id for x in ast.walk(outer.target) if isinstance(x, ast.Name)}
            for inner in [n for n in ast.walk(outer) if isinstance(n, ast.For) and n is not outer]:
                it2 = inner.iter.args[0] if isinstance(inner.iter, ast.Call) and norm(inner.iter.func) == "enumerate" and inner.iter.args else inner.iter
                if isinstance(it2, ast.Name) and it2.id in ovars:
                    out.append(inner)
        return out

    cl = char_loops()
    ok = bool(upd) and bool(cl)
    for u in upd:
        inside = [lp for lp in cl if any(u is x for x in ast.walk(lp))]
        if not inside:
            ok = False
            continue
        cvars = {x.id for x in ast.walk(inside[0].target) if isinstance(x, ast.Name)}
        val = expand_locals(u.value, f, 2)
        from_char = any(isinstance(x, ast.Call) and norm(x.func) == "ord" and x.args and isinstance(x.args[0], ast.Name) and x.args[0].id in cvars for x in ast.walk(val))
        is_max = isinstance(u.value, ast.Call) and norm(u.value.func) in ("max", "np.maximum") and mcc in {norm(a) for a in u.value.args}
        guarded = any(isinstance(g, ast.If) and rel_of(g.test) == ("lt", mcc, norm(u.value)) and any(u is x for x in g.body) for g in ast.walk(inside[0]))
        if not (from_char and (is_max or guarded)):
            ok = False
    if ok and mcc in f.params:
        rr.ok(f, "max_char_code", "returned value is the parameter raised to the largest training character", upd[0].lineno)
    else:
        rr.bad(f, "max_char_code", "the max_char_code handed back to the vectorizer is not the running maximum `if c > max: max = c` over the training characters", f.node.lineno)
    # the vectorizer stores them and replays exactly those
    ft = repo.func(MG, "BytePairEncodingVectorizer.fit_transform")
    tr = repo.func(MG, "BytePairEncodingVectorizer.transform")
    stores = [n for n in walk_no_nested(ft.node) if isinstance(n, ast.Assign) and isinstance(n.targets[0], ast.Tuple) and isinstance(n.value, ast.Call)
              and norm(n.value.func) == "bpe_train"]
    if not stores:
        raise AnalysisError("R9.5: fit_transform does not unpack bpe_train's result")
    tg = [norm(x) for x in stores[0].targets[0].elts]
    enc_all = repo.func(MG, "bpe_encode_all")
    calls = [c for c in repo.calls_in(tr) if enc_all in repo.resolve_call(tr, c)]
    b = repo.bind_args(enc_all, calls[0]) if calls else {}
    want = {"code_list": tg[1], "max_char_code": tg[3]}
    got = {k: norm(v) for k, v in b.items() if k in want}
    if got == want:
        rr.ok(tr, "replay arguments", "transform replays %s with %s" % (tg[1], tg[3]), calls[0].lineno)
    else:
        rr.bad(tr, "replay arguments", "transform encodes with %s but fit stored the merge list / character limit in %s" % (got, want), tr.node.lineno)
    return rr


# --------------------------------------------------------------------------- R9.6
import copy as _copy


def _slice_names(fn: ast.FunctionDef, seeds: Set[str]) -> Set[str]:
    """Names that can influence the seed names (data and control), flow-insensitively."""
    sl = set(seeds)
    changed = True
    while changed:
        changed = False
        for n in ast.walk(fn):
            tg: Set[str] = set()
            src: Set[str] = set()
            if isinstance(n, ast.Assign):
                for t in n.targets:
                    base = t
                    while isinstance(base, ast.Subscript):
                        src |= {x.id for x in ast.walk(base.slice) if isinstance(x, ast.Name)}
                        base = base.value
                    if isinstance(base, ast.Name):
                        tg.add(base.id)
                    elif isinstance(base, ast.Tuple):
                        tg |= {x.id for x in ast.walk(base) if isinstance(x, ast.Name)}
                src |= {x.id for x in ast.walk(n.value) if isinstance(x, ast.Name)}
            elif isinstance(n, ast.AugAssign):
                base = n.target
                while isinstance(base, ast.Subscript):
                    base = base.value
                if isinstance(base, ast.Name):
                    tg.add(base.id)
                src |= {x.id for x in ast.walk(n.value) if isinstance(x, ast.Name)}
            elif isinstance(n, (ast.If, ast.While)):
                # control dependence: the test matters if the body writes a slice name
                body_t: Set[str] = set()
                for s_ in n.body + n.orelse:
                    for m in ast.walk(s_):
                        if isinstance(m, ast.Assign):
                            for t in m.targets:
                                b = t
                                while isinstance(b, ast.Subscript):
                                    b = b.value
                                if isinstance(b, ast.Name):
                                    body_t.add(b.id)
                        elif isinstance(m, ast.AugAssign):
                            b = m.target
                            while isinstance(b, ast.Subscript):
                                b = b.value
                            if isinstance(b, ast.Name):
                                body_t.add(b.id)
                        elif isinstance(m, (ast.Continue, ast.Break)):
                            body_t.add("<flow>")
                if body_t & (sl | {"<flow>"}):
                    tg = set(sl) & body_t or {"<flow>"}
                    src = {x.id for x in ast.walk(n.test) if isinstance(x, ast.Name)}
            elif isinstance(n, ast.For):
                tg = {x.id for x in ast.walk(n.target) if isinstance(x, ast.Name)}
                src = {x.id for x in ast.walk(n.iter) if isinstance(x, ast.Name)}
            if (tg & sl or "<flow>" in tg) and not src <= sl:
                sl |= src
                changed = True
    return sl


class _Prune(ast.NodeTransformer):
    def __init__(self, keep: Set[str]):
        self.keep = keep

    def _targets(self, node):
        out = set()
        tl = node.targets if isinstance(node, ast.Assign) else [node.target]
        for t in tl:
            b = t
            while isinstance(b, ast.Subscript):
                b = b.value
            if isinstance(b, ast.Name):
                out.add(b.id)
            else:
                out |= {x.id for x in ast.walk(b) if isinstance(x, ast.Name)}
        return out

    def visit_Assign(self, node):
        return node if self._targets(node) & self.keep else None

    visit_AugAssign = visit_Assign

    def visit_If(self, node):
        self.generic_visit(node)
        if not node.body and not node.orelse:
            return None
        if not node.body:
            node.body = [ast.Pass()]
        return node

    def visit_Expr(self, node):
        return None if isinstance(node.value, ast.Constant) else node


def _skeleton(f: Func) -> str:
    fn = _copy.deepcopy(f.node)
    rets = [n for n in ast.walk(fn) if isinstance(n, ast.Return) and n.value is not None]
    out_expr = rets[-1].value
    if isinstance(out_expr, ast.Tuple):
        out_expr = out_expr.elts[0]
        for r in rets:
            if isinstance(r.value, ast.Tuple):
                r.value = r.value.elts[0]
    seeds = {x.id for x in ast.walk(out_expr) if isinstance(x, ast.Name)}
    keep = _slice_names(fn, seeds)
    fn = _Prune(keep).visit(fn)
    ast.fix_missing_locations(fn)
    # alpha-rename locals in order of first binding
    order: List[str] = []
    for n in ast.walk(fn):
        if isinstance(n, ast.Name) and isinstance(n.ctx, ast.Store) and n.id not in order:
            order.append(n.id)
    params = [a.arg for a in fn.args.args]
    mapping = {nm: "v%d" % i for i, nm in enumerate(sorted(order, key=lambda z: order.index(z))) if nm not in params}
    for i, p_ in enumerate(params):
        mapping[p_] = "p%d" % i
    for n in ast.walk(fn):
        if isinstance(n, ast.Name) and n.id in mapping:
            n.id = mapping[n.id]
    return "\n".join(norm(s_) for s_ in fn.body if not (isinstance(s_, ast.Expr) and isinstance(s_.value, ast.Constant)))


def r9_6(repo: Repo) -> RuleResult:
    rr = RuleResult("R9.6", "the encoder's contraction kernel scans exactly like the trainer's (the merge list is replayed the way it was learned)", floor=1)
    enc = repo.func(MG, "contract_pair")
    trn = repo.func(MG, "contract_and_count_pairs")
    a, b = _skeleton(enc), _skeleton(trn)
    # the trainer takes the pair-count table as an extra parameter: align parameter numbering on names
    pa = enc.params
    pb = [p_ for p_ in trn.params if p_ in pa]
    if pa != pb:
        raise AnalysisError("R9.6: the two contraction kernels no longer share their leading parameters")
    import re

    def renumber(txt: str, f: Func) -> str:
        # parameters not shared with the sibling are dropped from the numbering
        shared = [p_ for p_ in f.params if p_ in pa]
        for i, p_ in enumerate(f.params):
            txt = re.sub(r"\bp%d\b" % i, "P_%s" % (p_ if p_ in shared else "extra"), txt)
        return txt

    a, b = renumber(a, enc), renumber(b, trn)
    if a == b:
        rr.ok(enc, "contract_pair vs contract_and_count_pairs", "same scan skeleton once the trainer's pair-count bookkeeping is sliced away (%d statements)" % len(a.splitlines()), enc.node.lineno)
    else:
        import difflib

        d = [l for l in difflib.unified_diff(b.splitlines(), a.splitlines(), lineterm="", n=0) if l[:1] in "+-" and l[:3] not in ("+++", "---")]
        rr.bad(enc, "contract_pair vs contract_and_count_pairs",
               "the encoder no longer contracts a pair the way the trainer does (first differences: %s): strings are re-encoded differently from "
               "the encodings fit_transform returned whenever the two scans disagree (e.g. on runs of a repeated code)" % d[:4], enc.node.lineno)
    return rr


def r9_7(repo: Repo) -> RuleResult:
    from .c10 import r10_6

    return r10_6(repo, "R9.7", {MG}, floor=3)


def r9_8(repo: Repo) -> RuleResult:
    """Every merge that is recorded in the merge list must also have been applied to the training arrays that
    fit_transform hands back - otherwise transform, which replays the whole list, re-encodes the training strings
    differently.  Path rule on the CFG of bpe_train: from each `merge_list.append(pair)` every path to the return
    passes through a contraction call; tests whose outcome is fixed by an earlier edge of the same path (leaving
    `while len(tokens) < vocab_size` makes `len(tokens) >= vocab_size` true) are followed on their feasible edge only."""
    from ..cfg import CFG
    from .common import rel_under

    rr = RuleResult("R9.8", "every merge recorded by bpe_train is applied to the training arrays before they are returned", floor=1)
    f = repo.func(MG, "bpe_train")
    rets = [n for n in walk_no_nested(f.node) if isinstance(n, ast.Return) and isinstance(n.value, ast.Tuple) and len(n.value.elts) >= 3]
    if len(rets) != 1:
        raise AnalysisError("R9.8: return of bpe_train not recognised")
    codes = norm(rets[0].value.elts[1])
    g = CFG(f.node)
    pm = parents_map(f.node)
    apply_nodes = set()
    for c in repo.calls_in(f):
        tg = [t.name for t in repo.resolve_call(f, c) if isinstance(t, Func)]
        if any(t in ("contract_and_count_pairs", "contract_pair") for t in tg):
            nid = g.node_for(enclosing_stmt(c, pm))
            if nid is not None:
                apply_nodes.add(nid)
            # a loop over the training arrays whose body contracts: reaching the loop applies the merge to every array
            # (with no array at all there is nothing to apply it to)
            from .common import ancestors

            for a in ancestors(c, pm):
                if isinstance(a, ast.For):
                    hid = g.node_for(a)
                    if hid is not None:
                        apply_nodes.add(hid)
                    break
    if not apply_nodes:
        raise AnalysisError("R9.8: no contraction call in bpe_train")
    recs = [n for n in g.nodes if n.kind == "stmt" and isinstance(n.ast, ast.Expr) and isinstance(n.ast.value, ast.Call)
            and norm(n.ast.value.func) == "%s.append" % codes]
    ret_id = g.node_for(rets[0])
    if not recs:
        raise AnalysisError("R9.8: no `%s.append(...)` in bpe_train" % codes)

    def escapes(start: int) -> Optional[List[int]]:
        """A feasible path from start to the return that avoids every contraction call, or None."""
        stack = [(start, frozenset(), (start,))]
        seen = set()
        while stack:
            n, facts, path = stack.pop()
            if (n, facts) in seen:
                continue
            seen.add((n, facts))
            if n == ret_id:
                return list(path)
            node = g.nodes[n]
            # statements that change a quantity a fact speaks about invalidate it
            if node.kind == "stmt" and isinstance(node.ast, ast.AST):
                changed = {x.id for x in ast.walk(node.ast) if isinstance(x, ast.Name) and isinstance(x.ctx, ast.Store)}
                changed |= {norm(c.func.value) for c in ast.walk(node.ast) if isinstance(c, ast.Call) and isinstance(c.func, ast.Attribute)
                            and c.func.attr in ("append", "extend", "pop") }
                facts = frozenset(fc for fc in facts if not any(ch in str(fc) for ch in changed))
            for t, lab in g.succ[n]:
                if t in apply_nodes:
                    continue
                nf = facts
                if node.kind == "test" and isinstance(node.ast, ast.AST) and lab in ("true", "false"):
                    r_true, r_false = rel_under(node.ast, "true"), rel_under(node.ast, "false")
                    if lab == "true" and r_false is not None and r_false in facts:
                        continue  # infeasible: the opposite is known
                    if lab == "false" and r_true is not None and r_true in facts:
                        continue
                    r = r_true if lab == "true" else r_false
                    if r is not None:
                        nf = facts | {r}
                stack.append((t, nf, path + (t,)))
        return None

    for rec in recs:
        construct = "%s.append(...)" % codes
        if any(a is f.node for a in []):
            pass
        esc = escapes(rec.id)
        if esc is None:
            rr.ok(f, construct, "every feasible path from the recording of a merge to the return applies it (line %d)" % rec.ast.lineno, rec.ast.lineno)
        else:
            lines = [getattr(g.nodes[i].ast, "lineno", 0) for i in esc if isinstance(g.nodes[i].ast, ast.AST)]
            rr.bad(f, construct, "a merge recorded at line %d can reach the return without being applied to the training arrays (path through lines %s): "
                   "when the vocabulary budget ends the loop, fit_transform returns encodings that lack the last learned code while transform, which "
                   "replays the whole merge list, uses it" % (rec.ast.lineno, lines[:8]), rec.ast.lineno, path=["line %d" % l for l in lines[:12]])
    return rr


RULES = [r9_1, r9_2, r9_3, r9_4, r9_5, r9_6, r9_7, r9_8]
CLAIM = (
    "R9.1 definite assignment in every kernel of mixed_gram_vectorizer.py (the empty / one-character string clause); "
    "R9.2 all decode sites agree on `code <= mcc` and offset `code - mcc - 1`, both encoders start at mcc + 1 and advance "
    "by one per merge (symbolic); R9.3 the vocabulary budget loop shape; R9.4 the out-of-range character mapping; R9.5 bookkeeping pairing: token and pair are appended together, the returned max_char_code is the running maximum, and transform replays exactly the stored merge list and limit; R9.6 sibling agreement: the encoder's contraction kernel equals the trainer's once the pair-count bookkeeping is sliced away (backward slice from the returned code array, alpha-renamed); R9.7 every np.empty buffer / placeholder list of the BPE and LZ kernels is stored on every iteration of its filling loop (an empty string keeps no placeholder); R9.8 path rule on bpe_train: from every recording of a merge each feasible path to the return passes through a contraction call (tests decided by an earlier edge of the path are followed on their feasible edge only)."
)
NOT_DECIDED = (
    "losslessness for arbitrary strings, equality of transform and fit_transform encodings, and correctness of the "
    "incremental pair counts - statements about values."
)
