"""C05 - the learned vocabulary is exactly the tokens meeting every pruning constraint."""
from __future__ import annotations

import ast
from typing import Dict, List, Optional, Set, Tuple

from ..agree import collect_sites
from ..cfg import CFG
from ..model import AnalysisError, Cls, Func, Repo, is_self_attr, short, walk_no_nested
from ..report import RuleResult
from .common import enclosing_stmt, expand_locals, exported_estimators, names_in, norm, parents_map, tainted_names

PP = "vectorizers/preprocessing.py"
ANCHOR_FILES = {PP, "vectorizers/ngram_vectorizer.py", "vectorizers/ngram_token_cooccurence_vectorizer.py"}
PRE = ["preprocess_token_sequences", "preprocess_timed_token_sequences", "preprocess_multi_token_sequences", "preprocess_tree_sequences"]
INFRA = {"token_dictionary", "token_frequencies", "token_doc_frequencies", "total_tokens", "total_documents"}
ALIASES = {"excluded_tokens": "ignored_tokens", "ignored_tokens": "ignored_tokens"}
SORTED_DICT_RETURNS = {"construct_token_dictionary_and_frequency": 0, "prune_token_dictionary": 0}


def _order_kind(repo: Repo, f: Func, e: ast.AST, depth: int = 0) -> str:
    """'sorted' | 'unordered' | 'param:<p>' | 'unknown' - the iteration order of an expression."""
    if depth > 8:
        return "unknown"
    if isinstance(e, ast.Call):
        fn = norm(e.func)
        canon = repo.canonical(f.module, e.func)
        if fn == "sorted" or canon in ("numpy.unique", "numpy.sort"):
            # the property speaks of *token* order: a key function (str, len, ...) or reverse=True is another order
            if fn == "sorted" and any(k.arg in ("key", "reverse") and not (isinstance(k.value, ast.Constant) and k.value.value in (None, False)) for k in e.keywords):
                return "sorted-by-key"
            return "sorted"
        if fn in ("set", "frozenset"):
            return "unordered"
        if fn in ("list", "tuple", "enumerate", "reversed_no") and e.args:
            return _order_kind(repo, f, e.args[0], depth + 1)
        if isinstance(e.func, ast.Attribute) and e.func.attr in ("keys", "items", "values"):
            return _order_kind(repo, f, e.func.value, depth + 1)
        if fn == "dict" and e.args and isinstance(e.args[0], ast.Call) and norm(e.args[0].func) == "zip":
            return _order_kind(repo, f, e.args[0].args[0], depth + 1)
        for t in repo.resolve_call(f, e):
            if isinstance(t, Func) and t.name in SORTED_DICT_RETURNS:
                return "sorted"
        return "unknown"
    if isinstance(e, (ast.ListComp, ast.GeneratorExp)):
        if len(e.generators) == 1:
            return _order_kind(repo, f, e.generators[0].iter, depth + 1)
        return "unknown"
    if isinstance(e, (ast.SetComp, ast.Set)):
        return "unordered"
    if isinstance(e, ast.Subscript) and isinstance(e.slice, ast.Slice):
        return _order_kind(repo, f, e.value, depth + 1)
    if isinstance(e, ast.Name):
        defs = [n for n in walk_no_nested(f.node) if isinstance(n, ast.Assign) and any(
            (isinstance(t, ast.Name) and t.id == e.id) or (isinstance(t, ast.Tuple) and any(isinstance(x, ast.Name) and x.id == e.id for x in t.elts))
            for t in n.targets)]
        if not defs:
            return "param:%s" % e.id if e.id in f.params else "unknown"
        kinds = set()
        for d in defs:
            tgt = d.targets[0]
            if isinstance(tgt, ast.Tuple):
                idx = [i for i, x in enumerate(tgt.elts) if isinstance(x, ast.Name) and x.id == e.id][0]
                k = "unknown"
                if isinstance(d.value, ast.Call):
                    for t in repo.resolve_call(f, d.value):
                        if isinstance(t, Func) and SORTED_DICT_RETURNS.get(t.name) == idx:
                            k = "sorted"
                kinds.add(k)
            else:
                # self-referential filters (x = [.. for .. in enumerate(x) ..]) keep the order of the other definitions
                if e.id in names_in(d.value) and isinstance(d.value, (ast.ListComp,)):
                    src = _order_kind(repo, f, d.value.generators[0].iter, depth + 1) if not (e.id in names_in(d.value.generators[0].iter)) else "self"
                    if src == "self":
                        continue
                    kinds.add(src)
                else:
                    kinds.add(_order_kind(repo, f, d.value, depth + 1))
        if e.id in f.params:
            kinds.add("param:%s" % e.id)
        if "unordered" in kinds:
            return "unordered"
        kinds.discard("sorted") if len(kinds) > 1 and all(k == "sorted" or k.startswith("param:") for k in kinds) else None
        if not kinds:
            return "sorted"
        if len(kinds) == 1:
            return kinds.pop()
        if all(k.startswith("param:") or k == "sorted" for k in kinds):
            return sorted(k for k in kinds if k.startswith("param:"))[0]
        return "unknown"
    return "unknown"


def r5_1(repo: Repo) -> RuleResult:
    rr = RuleResult("R5.1", "token indices are assigned in sorted token order (no set / unordered source on the way)", floor=2)
    fit_funcs: List[Func] = []
    for c in exported_estimators(repo):
        for e in ("fit", "fit_transform"):
            for f in repo.reachable_from(c, e):
                if f.file in ANCHOR_FILES and f not in fit_funcs and f.name != "__add__":
                    fit_funcs.append(f)
    for f in fit_funcs:
        for n in walk_no_nested(f.node):
            src = None
            if isinstance(n, ast.Call) and norm(n.func) == "dict" and n.args and isinstance(n.args[0], ast.Call) and norm(n.args[0].func) == "zip" \
                    and len(n.args[0].args) == 2 and isinstance(n.args[0].args[1], ast.Call) and norm(n.args[0].args[1].func) in ("range", "np.arange"):
                src = n.args[0].args[0]
            if isinstance(n, ast.DictComp) and isinstance(n.generators[0].iter, ast.Call) and norm(n.generators[0].iter.func) == "enumerate":
                src = n.generators[0].iter.args[0]
            if src is None:
                continue
            kind = _order_kind(repo, f, src)
            construct = "index assignment over `%s`" % short(src, 40)
            if kind == "sorted":
                rr.ok(f, construct, "source order derives from sorted(...)", n.lineno)
            elif kind.startswith("param:"):
                # every fit-path caller must hand over a dictionary whose order is sorted
                p = kind[6:]
                bad_callers = []
                n_callers = 0
                for g in fit_funcs:
                    for call in repo.calls_in(g):
                        if f in repo.resolve_call(g, call):
                            b = repo.bind_args(f, call)
                            if p in b:
                                n_callers += 1
                                k2 = _order_kind(repo, g, b[p])
                                if k2 != "sorted":
                                    bad_callers.append("%s:%d (%s)" % (g.qualname, call.lineno, k2))
                if bad_callers or not n_callers:
                    rr.bad(f, construct, "iteration order comes from parameter `%s`, which %s" % (p, "is not provably in sorted order at " + ", ".join(bad_callers) if bad_callers else "has no analysed caller"), n.lineno)
                else:
                    rr.ok(f, construct, "order inherited from parameter `%s`, sorted at all %d fit-path call sites" % (p, n_callers), n.lineno)
            elif kind == "sorted-by-key":
                rr.bad(f, construct, "indices are assigned in the order of sorted(..., key=/reverse=...), not in the tokens' own sorted order: numeric tokens "
                       "sort as strings (10 before 2), so the dictionary is not the documented one", n.lineno)
            elif kind == "unordered":
                rr.bad(f, construct, "indices are assigned by iterating a set / unordered collection: the dictionary depends on hash order, "
                       "not on sorted token order", n.lineno)
            else:
                raise AnalysisError("R5.1: cannot classify the iteration order of `%s` in %s" % (norm(src), f.key))
    return rr


def r5_2(repo: Repo) -> RuleResult:
    rr = RuleResult("R5.2", "every pruning parameter of every estimator reaches the pruning call", floor=80)
    prune = repo.func(PP, "prune_token_dictionary")
    prune_params = [p for p in prune.params if p not in INFRA]
    # (3) inside prune: every parameter influences the returned vocabulary
    rets = [n for n in walk_no_nested(prune.node) if isinstance(n, ast.Return)]
    ret_names = set()
    for r in rets:
        ret_names |= names_in(r.value)
    for p in prune_params:
        t = tainted_names(prune, {p})
        # updates through method calls (tokens_to_prune.update(...)) propagate as well
        changed = True
        while changed:
            changed = False
            for n in walk_no_nested(prune.node):
                if isinstance(n, ast.Call) and isinstance(n.func, ast.Attribute) and n.func.attr in ("update", "add", "append", "extend") \
                        and isinstance(n.func.value, ast.Name) and n.func.value.id not in t and any(names_in(a) & t for a in n.args):
                    t.add(n.func.value.id)
                    t = tainted_names(prune, t)
                    changed = True
        if t & ret_names:
            rr.ok(prune, "prune(%s)" % p, "flows into the returned vocabulary", prune.node.lineno)
        else:
            rr.bad(prune, "prune(%s)" % p, "parameter `%s` has no def-use path to the returned dictionary: the constraint is silently ignored" % p, prune.node.lineno)
    # (1) each preprocess_* forwards what it accepts
    for name in PRE:
        f = repo.func(PP, name)
        calls = [c for c in repo.calls_in(f) if prune in repo.resolve_call(f, c)]
        if len(calls) != 1:
            raise AnalysisError("R5.2: %s calls prune_token_dictionary %d times" % (name, len(calls)))
        b = repo.bind_args(prune, calls[0])
        own = [p for p in f.params if p not in ("token_sequences", "tree_sequences", "flat_sequence", "token_dictionary", "masking")]
        forwarded = {norm(v) for v in b.values()}
        for p in own:
            if p in forwarded:
                rr.ok(f, "%s(%s)" % (name, p), "forwarded to prune_token_dictionary", calls[0].lineno)
            else:
                rr.bad(f, "%s(%s)" % (name, p), "parameter `%s` is accepted but not forwarded to prune_token_dictionary" % p, calls[0].lineno)
    # (2) each estimator binds its constructor pruning parameters at the fit-path preprocessing call
    vocab = set(prune_params) | {"excluded_tokens", "min_tree_occurrences", "max_tree_occurrences", "min_tree_frequency", "max_tree_frequency"}
    pre_funcs = {repo.func(PP, n) for n in PRE}
    for c in exported_estimators(repo):
        ctor = [p for p in repo.ctor_params(c) if p in vocab]
        if not ctor:
            continue
        sites = [s for e in ("fit", "fit_transform") for s in collect_sites(repo, c, e) if s.callee in pre_funcs]
        if not sites:
            raise AnalysisError("R5.2: %s has pruning parameters but no preprocessing call on its fit path" % c.name)
        for s in sites[:1] if len({id(x.call) for x in sites}) == 1 else sites:
            passed = {norm(v) for k, v in s.raw.items()}
            for p in ctor:
                construct = "%s.%s -> %s" % (c.name, p, s.callee.name)
                if "self.%s" % p in passed:
                    rr.ok(s.caller, construct, "bound at the %s preprocessing call" % s.entry, s.line)
                else:
                    rr.bad(s.caller, construct, "constructor parameter `%s` is not passed to %s on the %s path: the constraint is never applied"
                           % (p, s.callee.name, s.entry), s.line)
    # (4) second-stage pruning of n-grams: every frequency / count bound of the estimator is passed again
    second = {"max_unique_tokens", "min_frequency", "max_frequency", "min_occurrences", "max_occurrences",
              "min_document_frequency", "max_document_frequency", "min_document_occurrences", "max_document_occurrences"}
    n_second = 0
    for file, fn in (("vectorizers/ngram_vectorizer.py", "NgramVectorizer.fit"), ("vectorizers/ngram_token_cooccurence_vectorizer.py", "NgramCooccurrenceVectorizer._process_n_grams")):
        f = repo.func(file, fn)
        calls = [c for c in repo.calls_in(f) if prune in repo.resolve_call(f, c)]
        if len(calls) != 1:
            raise AnalysisError("R5.2: %s calls prune_token_dictionary %d times" % (fn, len(calls)))
        b = repo.bind_args(prune, calls[0])
        ctor = set(repo.ctor_params(f.cls))
        for p in sorted(second & ctor):
            n_second += 1
            if p in b and norm(b[p]) == "self.%s" % p:
                rr.ok(f, "n-gram stage prune(%s)" % p, "bound to self.%s" % p, calls[0].lineno)
            else:
                rr.bad(f, "n-gram stage prune(%s)" % p, "the n-gram pruning stage does not apply `%s` (got `%s`)" % (p, norm(b[p]) if p in b else "default"), calls[0].lineno)
    if n_second < 18:
        raise AnalysisError("R5.2: second-stage pruning bindings found: %d (18 confirmed)" % n_second)
    return rr


def r5_3(repo: Repo) -> RuleResult:
    """The bound comparisons are located by their bound operand (a min_* / max_* parameter, or the (k+1)-th
    largest frequency for the top-k step); the other names are free."""
    rr = RuleResult("R5.3", "bound comparisons are strict with the right polarity (a token exactly on the bound is kept)", floor=5)
    f = repo.func(PP, "prune_token_dictionary")
    bounds = {"min_frequency": "min", "max_frequency": "max", "min_document_frequency": "min", "max_document_frequency": "max"}
    # the top-k threshold: np.sort(<freqs>)[-max_unique_tokens - 1], through a local or written in the comparison
    TOPK = "<top-k threshold>"

    def is_topk(e):
        return isinstance(e, ast.Subscript) and "max_unique_tokens" in norm(e.slice) and "sort" in norm(e.value)

    topk_names = set()
    for n in walk_no_nested(f.node):
        if isinstance(n, ast.Assign) and isinstance(n.targets[0], ast.Name) and is_topk(n.value):
            topk_names.add(n.targets[0].id)

    def bound_of(e):
        t = norm(e)
        if t in bounds:
            return t
        if is_topk(e) or t in topk_names:
            return TOPK
        return None

    found = {}
    for n in walk_no_nested(f.node):
        if isinstance(n, ast.Compare) and len(n.ops) == 1 and not isinstance(n.ops[0], (ast.Is, ast.IsNot, ast.In, ast.NotIn, ast.Eq, ast.NotEq)):
            bl, br = bound_of(n.left), bound_of(n.comparators[0])
            if br is not None and bl is None:
                found.setdefault(br, []).append((n, n.ops[0], False))
            elif bl is not None and br is None and not isinstance(n.comparators[0], ast.Constant):
                found.setdefault(bl, []).append((n, n.ops[0], True))  # bound on the left: operator is mirrored
    if TOPK not in found:
        raise AnalysisError("R5.3: top-k threshold `np.sort(...)[-max_unique_tokens - 1]` not found in prune_token_dictionary")
    bounds[TOPK] = "topk"
    for b, kind in bounds.items():
        sites = [x for x in found.get(b, []) if "len(" not in norm(x[0])]
        if not sites:
            raise AnalysisError("R5.3: no comparison against `%s` found in prune_token_dictionary (unrecognised form)" % b)
        for n, op, mirrored in sites:
            mirror = {ast.Lt: ast.Gt, ast.Gt: ast.Lt, ast.LtE: ast.GtE, ast.GtE: ast.LtE}
            eff = mirror[type(op)] if mirrored else type(op)
            # prune-set form: value < min / value > max ; top-k keep form: value > threshold
            want = {"min": ast.Lt, "max": ast.Gt, "topk": ast.Gt}[kind]
            construct = "comparison with %s" % (b if kind != "topk" else "the top-k threshold")
            if eff is want:
                rr.ok(f, construct, "`%s`" % norm(n), n.lineno)
            elif eff in (ast.Lt, ast.Gt) :
                raise AnalysisError("R5.3: `%s` is in keep-form / unrecognised polarity; cannot decide" % norm(n))
            else:
                rr.bad(f, construct, "`%s`: a token sitting exactly on the bound is %s" % (
                    norm(n), "pruned" if kind != "topk" else "kept although it ties with a dropped one"), n.lineno)
    return rr


def r5_4(repo: Repo) -> RuleResult:
    rr = RuleResult("R5.4", "a supplied token_dictionary bypasses pruning (used as given)", floor=4)
    prune = repo.func(PP, "prune_token_dictionary")
    for name in PRE:
        f = repo.func(PP, name)
        g = CFG(f.node)
        pm = parents_map(f.node)
        for c in [c for c in repo.calls_in(f) if prune in repo.resolve_call(f, c)]:
            nid = g.node_for(enclosing_stmt(c, pm))
            guards = [(norm(g.nodes[t].ast), lab) for t, lab in g.guards_of(nid)]
            if ("token_dictionary is None", "true") in guards:
                rr.ok(f, "prune call", "dominated by `token_dictionary is None`", c.lineno)
            else:
                rr.bad(f, "prune call", "pruning also runs when a token_dictionary is supplied", c.lineno)
    return rr


def _array_precision(repo: Repo, f: Func, ret_pos: int) -> str:
    """'float32' if the array returned at position ret_pos went through .astype(np.float32) (and only weak Python
    scalars after that), else 'float64'."""
    rets = [n for n in walk_no_nested(f.node) if isinstance(n, ast.Return) and n.value is not None]
    e = rets[0].value
    if isinstance(e, ast.Tuple):
        e = e.elts[ret_pos]
    seen = set()
    todo = [e]
    f32 = False
    while todo:
        x = todo.pop()
        for n in ast.walk(x):
            if isinstance(n, ast.Call) and isinstance(n.func, ast.Attribute) and n.func.attr == "astype" and n.args \
                    and repo.canonical(f.module, n.args[0]) in ("numpy.float32", "numpy.single"):
                f32 = True
            if isinstance(n, ast.Name) and n.id not in seen:
                seen.add(n.id)
                for m in walk_no_nested(f.node):
                    if isinstance(m, ast.Assign) and any(isinstance(t, ast.Name) and t.id == n.id for t in m.targets):
                        todo.append(m.value)
    return "float32" if f32 else "float64"


def _scalar_kind(repo: Repo, f: Func, e: ast.AST) -> str:
    """'weak' (a Python scalar: takes the array's precision under NumPy's promotion rules), 'strong64' (a NumPy float64
    scalar / 0-d result: forces the comparison into double precision) or 'f32'."""
    for n in ast.walk(e):
        if isinstance(n, ast.Call):
            canon = repo.canonical(f.module, n.func) or ""
            if canon in ("numpy.float32", "numpy.single"):
                return "f32"
            if canon.startswith("numpy"):
                # float(np.clip(...)) brings the value back to a Python float
                return "strong64"
    return "weak"


def r5_5(repo: Repo) -> RuleResult:
    rr = RuleResult("R5.5", "a bound compared with float32 frequencies stays a Python scalar (so the comparison is made in the frequencies' own precision)", floor=2)
    f = repo.func(PP, "prune_token_dictionary")
    cons = repo.func(PP, "construct_token_dictionary_and_frequency")
    tok_prec = _array_precision(repo, cons, 1)
    doc_prec = _array_precision(repo, repo.func(PP, "construct_document_frequency"), 0)
    rr.facts["token_frequency_precision"] = tok_prec
    rr.facts["document_frequency_precision"] = doc_prec
    arrays = {"min_frequency": tok_prec, "max_frequency": tok_prec, "min_document_frequency": doc_prec, "max_document_frequency": doc_prec}
    for b, prec in arrays.items():
        assigns = [n for n in walk_no_nested(f.node) if isinstance(n, ast.Assign) and any(isinstance(t, ast.Name) and t.id == b for t in n.targets)]
        for a in assigns:
            kind = "weak"
            v = a.value
            # float(...) around anything gives a Python float again
            if isinstance(v, ast.Call) and isinstance(v.func, ast.Name) and v.func.id == "float":
                kind = "weak"
            else:
                kind = _scalar_kind(repo, f, v)
            construct = "%s = %s" % (b, short(v, 50))
            if prec == "float32" and kind == "strong64":
                rr.bad(f, construct,
                       "the frequencies compared with `%s` are float32, and this assignment makes the bound a NumPy float64 scalar: the "
                       "comparison is then made in double precision, where the float32-rounded frequency of a token occurring exactly the "
                       "bound differs from the bound - such a token is pruned (a Python float would be compared in float32 and tie exactly)" % b,
                       a.lineno)
            else:
                rr.ok(f, construct, "%s bound against %s frequencies" % (kind, prec), a.lineno, nontrivial=prec == "float32")
    return rr


def r5_6(repo: Repo) -> RuleResult:
    """The bounds are `occurrences / total` (one division).  A token sitting exactly on a bound is kept only if its
    frequency is computed the same way - an integer count divided once by the total.  A frequency accumulated as a
    sum of k fractions 1/n differs from k/n in the last bit for many (k, n), and the strict comparison then prunes it."""
    rr = RuleResult("R5.6", "frequency tables are an integer count divided once by the total (never a sum of fractions)", floor=3)
    names = ("construct_document_frequency", "construct_timed_document_frequency", "construct_token_dictionary_and_frequency")
    for nm in names:
        f = repo.func(PP, nm)
        rets = [n for n in walk_no_nested(f.node) if isinstance(n, ast.Return) and n.value is not None]
        if len(rets) != 1:
            raise AnalysisError("R5.6: %s has %d return statements" % (nm, len(rets)))
        comps = rets[0].value.elts if isinstance(rets[0].value, ast.Tuple) else [rets[0].value]
        divs = [c for c in comps if isinstance(expand_locals(c, f, 3), ast.BinOp) and isinstance(expand_locals(c, f, 3).op, ast.Div)]
        frac = []
        for n in walk_no_nested(f.node):
            if isinstance(n, ast.AugAssign) and isinstance(n.op, (ast.Add, ast.Sub)):
                v = expand_locals(n.value, f, 3)
                if any(isinstance(x, ast.BinOp) and isinstance(x.op, ast.Div) for x in ast.walk(v)):
                    frac.append(n)
        if frac:
            rr.bad(f, "frequency table", "`%s` accumulates fractions (`%s`): the sum of k copies of 1/n is not k/n in floating point, so a token "
                   "occurring in exactly the bound number of documents falls on the wrong side of the strict comparison for many (k, n)"
                   % (short(frac[0], 50), norm(expand_locals(frac[0].value, f, 3))), frac[0].lineno)
        elif not divs:
            rr.bad(f, "frequency table", "the returned frequencies are `%s`, not a count divided by the total" % short(rets[0].value, 60), rets[0].lineno)
        else:
            rr.ok(f, "frequency table", "`%s`: counts divided once by the total" % norm(expand_locals(divs[0], f, 3))[:70], rets[0].lineno)
    return rr


RULES = [r5_1, r5_2, r5_3, r5_4, r5_5, r5_6]
CLAIM = (
    "R5.1 every index assignment on the fit path of the vocabulary code iterates a source whose order derives from sorted(...) "
    "(order-kind propagation through comprehensions, dict order and call sites); R5.2 completeness of the constraint plumbing: "
    "constructor parameter -> preprocessing call -> prune call -> returned dictionary, for every estimator and every parameter; "
    "R5.3 the five bound comparisons are strict with the right polarity; R5.4 the pruning call is dominated by `token_dictionary is None`; R5.5 precision kinds at the bound comparisons: token frequencies are float32 (traced to their .astype), so the bounds they are compared with must stay Python scalars (NumPy promotion then compares in float32 and a count equal to the bound ties exactly) - a NumPy float64 scalar bound is a violation; R5.6 the three frequency tables are an integer count divided once by the total - no accumulation of fractions."
)
NOT_DECIDED = (
    "the residual double-rounding question (bound computed in double then rounded to float32 vs the float32 division): measured - no "
    "(count, total) pair up to 3000 is mis-pruned with the installed numpy; only the promotion-kind clause R5.5 is armed."
)
