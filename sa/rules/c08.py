"""C08 - Wasserstein embeddings depend only on the measure (structural clauses)."""
from __future__ import annotations

import ast
from typing import Dict, List, Optional, Set, Tuple

from .. import sym
from ..cfg import CFG
from ..model import AnalysisError, Func, Repo, is_self_attr, short, walk_no_nested
from ..report import RuleResult
from .c02 import config_agreement
from .common import ancestors, enclosing_stmt, expand_locals, norm, parents_map, single_defs

LOT = "vectorizers/linear_optimal_transport.py"
KERNELS = ("lot_vectors_sparse_internal", "lot_vectors_dense_internal")


def r8_1(repo: Repo) -> RuleResult:
    rr = RuleResult("R8.1", "every distribution passes L1 normalisation (under row_sum > 0) before the solver", floor=2)
    tp = repo.func(LOT, "transport_plan")
    for name in KERNELS:
        f = repo.func(LOT, name)
        g = CFG(f.node)
        pm = parents_map(f.node)
        calls = [c for c in repo.calls_in(f) if tp in repo.resolve_call(f, c)]
        if len(calls) != 1:
            raise AnalysisError("R8.1: %s calls transport_plan %d times" % (name, len(calls)))
        b = repo.bind_args(tp, calls[0])
        p = norm(b["p"])
        target = g.node_for(enclosing_stmt(calls[0], pm))
        normalisers = []
        sum_name = None
        for n in g.nodes:
            a = n.ast
            if n.kind != "stmt":
                continue
            if isinstance(a, ast.AugAssign) and norm(a.target) == p and isinstance(a.op, ast.Div):
                normalisers.append(n.id)
                sum_name = norm(a.value)
            if isinstance(a, ast.Assign) and norm(a.targets[0]) == p and isinstance(a.value, ast.BinOp) and isinstance(a.value.op, ast.Div) \
                    and norm(a.value.left) == p:
                normalisers.append(n.id)
                sum_name = norm(a.value.right)
        construct = "transport_plan(%s, ...)" % p
        if not normalisers:
            rr.bad(f, construct, "`%s` reaches the solver without being divided by its sum: the embedding changes when the row of weights is rescaled" % p, calls[0].lineno)
            continue
        sd = single_defs(f)
        ok_sum = sum_name in sd and norm(sd[sum_name]) in ("%s.sum()" % p, "np.sum(%s)" % p)
        if not g.must_pass(normalisers, target):
            rr.bad(f, construct, "some path reaches the solver without the division of `%s` by its sum" % p, calls[0].lineno)
            continue
        guards = [(norm(g.nodes[t].ast), lab) for t, lab in g.guards_of(normalisers[0])]
        ok_guard = any(t in ("%s > 0.0" % sum_name, "%s > 0" % sum_name) and lab == "true" for t, lab in guards)
        # nothing may rescale / re-bind p between the normalisation and the call
        later = [n.id for n in g.nodes if n.kind == "stmt" and isinstance(n.ast, (ast.Assign, ast.AugAssign))
                 and any(norm(t) == p for t in (n.ast.targets if isinstance(n.ast, ast.Assign) else [n.ast.target]))
                 and n.id not in normalisers and n.id in g.reachable(normalisers[0], avoid=[target])
                 and target in g.reachable(n.id, avoid=normalisers)]
        if not ok_sum:
            rr.bad(f, construct, "`%s` is divided by `%s`, which is not its own sum" % (p, sum_name), calls[0].lineno)
        elif not ok_guard:
            rr.bad(f, construct, "the division by `%s` is not guarded by `%s > 0`" % (sum_name, sum_name), calls[0].lineno)
        elif later:
            rr.bad(f, construct, "`%s` is modified again after normalisation and before the solver" % p, calls[0].lineno)
        else:
            rr.ok(f, construct, "every path: %s = %s.sum(); if %s > 0: %s /= %s -> solver" % (sum_name, p, sum_name, p, sum_name), calls[0].lineno)
    return rr


def _covers(c: ast.AST, need: "sym.Poly", size: str) -> bool:
    """Is the block count `c` one of the spellings of ceil-or-more of need / size?
    X // B + 1, ceil(X / B), (X + B - 1) // B, (X - 1) // B + 1 with X == need (as polynomials)."""
    B = sym.poly(ast.parse(size, mode="eval").body)
    one = {(): 1}

    def is_b(e):
        return sym.poly(e) == B

    # strip int(...) / np.ceil / math.ceil
    inner = c
    if isinstance(inner, ast.Call) and norm(inner.func) == "int" and len(inner.args) == 1:
        inner = inner.args[0]
    if isinstance(inner, ast.Call) and norm(inner.func) in ("np.ceil", "numpy.ceil", "math.ceil", "ceil") and len(inner.args) == 1:
        q = inner.args[0]
        return isinstance(q, ast.BinOp) and isinstance(q.op, ast.Div) and is_b(q.right) and sym.poly(q.left) == need
    if isinstance(c, ast.BinOp) and isinstance(c.op, ast.Add):
        for a, b in ((c.left, c.right), (c.right, c.left)):
            if norm(b) == "1" and isinstance(a, ast.BinOp) and isinstance(a.op, ast.FloorDiv) and is_b(a.right):
                x = sym.poly(a.left)
                if x == need or x == sym.sub(need, one):
                    return True
    if isinstance(c, ast.BinOp) and isinstance(c.op, ast.FloorDiv) and is_b(c.right):
        if sym.poly(c.left) == sym.sub(sym._add(need, B), one):
            return True
    return False


def _block_loops(repo: Repo):
    """(function, loop, count text, size text, covering count expression or None, extent text, candidate texts) for block
    loops: `for i in range(K)` whose body computes a start `base + i * B` and an end `min(E, start + B)`."""
    out = []
    for f in repo.module(LOT).all_funcs:
        if f.cls is not None and f.cls.name == "WassersteinVectorizerOld":
            continue
        defs: Dict[str, List[ast.AST]] = {}
        for n in walk_no_nested(f.node):
            if isinstance(n, ast.Assign) and len(n.targets) == 1 and isinstance(n.targets[0], ast.Name):
                defs.setdefault(n.targets[0].id, []).append(n)
        for lp in [n for n in walk_no_nested(f.node) if isinstance(n, ast.For)]:
            it = lp.iter
            if not (isinstance(it, ast.Call) and norm(it.func) in ("range", "numba.prange", "prange") and len(it.args) == 1 and isinstance(lp.target, ast.Name)):
                continue
            i = lp.target.id
            size = start_name = None
            base = None
            for st in lp.body:
                if isinstance(st, ast.Assign) and isinstance(st.targets[0], ast.Name):
                    p = sym.poly(st.value)
                    for m, c in p.items():
                        if c == 1 and len(m) == 2 and i in m and size is None:
                            size = [x for x in m if x != i][0]
                            start_name = st.targets[0].id
                            base = {k: v for k, v in p.items() if k != m}
            if size is None:
                continue
            count = it.args[0]
            cands = [count] if not isinstance(count, ast.Name) else [d.value for d in defs.get(count.id, []) if d.lineno < lp.lineno]
            # the extent the blocks must cover: the other operand of min(start + B, E), E taken relative to the base
            want_end = sym._add(sym.poly(ast.Name(id=start_name, ctx=ast.Load())), sym.poly(ast.parse(size, mode="eval").body))
            extent = None
            for c in ast.walk(lp):
                if isinstance(c, ast.Call) and norm(c.func) == "min" and len(c.args) == 2 and not c.keywords:
                    for a, b in ((c.args[0], c.args[1]), (c.args[1], c.args[0])):
                        if sym.poly(a) == want_end:
                            extent = b
            good = None
            if extent is not None:
                need = sym.sub(sym.poly(extent), base or {})
                for c in cands:
                    if _covers(c, need, size):
                        good = c
                ext_txt = sym.show(need)
            else:
                ext_txt = None
                for c in cands:
                    if isinstance(c, ast.BinOp) and isinstance(c.op, ast.Add) and norm(c.right) == "1" and isinstance(c.left, ast.BinOp) and isinstance(c.left.op, ast.FloorDiv):
                        good = c
            out.append((f, lp, norm(count), size, good, ext_txt, [norm(c) for c in cands]))
    return out


def _guarded_size(repo: Repo, f: Func, size: str, before_line: int, depth: int = 0) -> Tuple[Optional[bool], str]:
    """Is the divisor provably >= 1?  (True/False/None=configuration, explanation)."""
    try:
        e = ast.parse(size, mode="eval").body
    except SyntaxError:
        return None, "unparsed"
    if isinstance(e, ast.Constant) and isinstance(e.value, int):
        return e.value >= 1, "constant %d" % e.value
    if is_self_attr(e):
        return None, "configuration value self.%s (user-chosen, validated positive by contract)" % e.attr
    if isinstance(e, ast.Name):
        defs = [n for n in walk_no_nested(f.node) if isinstance(n, ast.Assign) and any(isinstance(t, ast.Name) and t.id == e.id for t in n.targets)]
        if not defs:
            if e.id in f.params:
                d = f.defaults.get(e.id)
                # a parameter: every repository call site must pass a guarded value
                verdicts = []
                for g in repo.all_funcs():
                    for call in repo.calls_in(g):
                        if f in repo.resolve_call(g, call):
                            b = repo.bind_args(f, call)
                            if e.id in b:
                                verdicts.append(_guarded_size(repo, g, norm(b[e.id]), call.lineno, depth + 1) if depth < 2 else (None, "?"))
                            elif d is not None:
                                verdicts.append(_guarded_size(repo, f, norm(d), 0, depth + 1))
                if verdicts and all(v[0] is not False for v in verdicts):
                    return (True if all(v[0] for v in verdicts) else None), "parameter, guarded at its %d call site(s)" % len(verdicts)
                if verdicts:
                    return False, "parameter `%s` receives an unguarded value: %s" % (e.id, [v[1] for v in verdicts if v[0] is False][0])
                return None, "parameter without analysed call sites"
            return None, "unknown name"
        # the definition(s) that can reach the loop: those before it in the same branch structure
        reaching = [d for d in defs if d.lineno < before_line] or defs
        pm = parents_map(f.node)
        # keep the nearest definition per enclosing branch: use all reaching ones conservatively grouped by branch
        results = []
        for d in reaching:
            v = d.value
            if isinstance(v, ast.Call) and norm(v.func) == "max" and any(isinstance(a, ast.Constant) and isinstance(a.value, int) and a.value >= 1 for a in v.args):
                results.append((True, "max(%s, ...) at line %d" % ([a.value for a in v.args if isinstance(a, ast.Constant)][0], d.lineno)))
            else:
                results.append((False, "`%s = %s` (line %d) can be 0" % (e.id, short(v, 50), d.lineno)))
        return results
    if isinstance(e, ast.Call) and norm(e.func) == "max" and any(isinstance(a, ast.Constant) and isinstance(a.value, int) and a.value >= 1 for a in e.args):
        return True, "max(>=1, ...)"
    return None, "expression `%s`" % size


def r8_2(repo: Repo) -> RuleResult:
    rr = RuleResult("R8.2", "row blocks / chunks partition [0, n) and their size (a divisor) is guarded to be >= 1", floor=14)
    for f, lp, count, size, div, extent, cands in _block_loops(repo):
        i = norm(lp.target)
        if div is None:
            rr.bad(f, "block loop `for %s in range(%s)` with size `%s`" % (i, count, size),
                   "the number of blocks is `%s`: that is not enough blocks of size %s to cover %s rows in general (accepted: N // B + 1, "
                   "ceil(N / B), (N + B - 1) // B) - the rows of the last, partial block are never processed"
                   % (" / ".join(cands) or count, size, extent or "all"), lp.lineno)
            continue
        pm = parents_map(f.node)
        # start = i*B (+ base) ; end = min(N, start + B)
        starts = [s for s in lp.body if isinstance(s, ast.Assign) and isinstance(s.targets[0], ast.Name)
                  and sym.coeff_of(sym.poly(s.value), i)[0] is None or
                  (isinstance(s, ast.Assign) and isinstance(s.targets[0], ast.Name) and _is_scaled(s.value, i, size))]
        starts = [s for s in lp.body if isinstance(s, ast.Assign) and isinstance(s.targets[0], ast.Name) and _is_scaled(s.value, i, size)]
        construct = "block loop `for %s in range(%s)` with size `%s`" % (i, count, size)
        part_ok = None
        if starts:
            st = starts[0].targets[0].id
            # the end bound may be a named local or sit directly in the inner range(...) / slice
            ends = [c for c in ast.walk(lp) if isinstance(c, ast.Call) and norm(c.func) == "min" and len(c.args) == 2 and not c.keywords]
            want = sym.poly(ast.parse("%s + %s" % (st, size), mode="eval").body)
            part_ok = any(any(sym.poly(a) == want for a in e.args) for e in ends)
        else:
            part_ok = None  # cursor-style loop (generator input): partition follows from the cursor idiom, see R12.1
        # divisor guard: the definition of `size` that reaches this loop
        verdict = _guarded_size(repo, f, size, lp.lineno)
        if isinstance(verdict, list):
            # several definitions of the size in this function: use the one in the same branch as the loop (nearest preceding)
            near = _nearest_def(f, size, lp, pm)
            verdict = near if near is not None else (verdict[-1] if verdict else (None, "no definition"))
        ok, why = verdict
        nest_problem = _nested_offset_problem(f, lp, starts[0] if starts else None, size, pm)
        if nest_problem:
            rr.bad(f, construct, nest_problem, lp.lineno)
        elif part_ok is False:
            rr.bad(f, construct, "block bounds are not start = %s*%s, end = min(n, start + %s): blocks overlap or leave gaps" % (i, size, size), lp.lineno)
        elif ok is False:
            rr.bad(f, construct, "the block size divides (`// %s`) but is not guarded to be >= 1: %s - a small memory_size makes transform raise "
                   "ZeroDivisionError where fit (which uses max(1, ...)) succeeds" % (size, why), lp.lineno)
        else:
            rr.ok(f, construct, "%s; size %s" % ("partition start=i*B, end=min(n, start+B)" if part_ok else "cursor-driven blocks", why), lp.lineno,
                  nontrivial=ok is not None)
    return rr


def _nested_offset_problem(f: Func, lp: ast.For, start_stmt: Optional[ast.Assign], size: str, pm) -> Optional[str]:
    """A chunk loop nested in a block loop slices either the whole array - then its positions must be absolute
    (chunk start = block start + j * B) - or the block itself - then they must be block-relative.  Mixing the two
    reads the rows of the first block again for every later block."""
    if start_stmt is None:
        return None
    outer = None
    for a in ancestors(lp, pm):
        if isinstance(a, ast.For) and isinstance(a.target, ast.Name):
            o_i = a.target.id
            for st in a.body:
                if isinstance(st, ast.Assign) and isinstance(st.targets[0], ast.Name):
                    for m, c in sym.poly(st.value).items():
                        if c == 1 and len(m) == 2 and o_i in m:
                            outer = (a, st.targets[0].id)
            if outer:
                break
    if outer is None:
        return None
    o_loop, o_start = outer
    j = lp.target.id
    cs = start_stmt.targets[0].id
    p = sym.poly(start_stmt.value)
    base = {k: v for k, v in p.items() if not (len(k) == 2 and j in k)}
    absolute = base == sym.poly(ast.Name(id=o_start, ctx=ast.Load()))
    relative = base == {}
    if not (absolute or relative):
        return None
    # arrays sliced with the chunk start inside the chunk loop
    assigned_in_outer = set()
    for st in ast.walk(o_loop):
        if isinstance(st, ast.Assign):
            for t in st.targets:
                for x in ast.walk(t):
                    if isinstance(x, ast.Name):
                        assigned_in_outer.add(x.id)
    for n in ast.walk(lp):
        if isinstance(n, ast.Subscript) and isinstance(n.slice, ast.Slice) and n.slice.lower is not None and norm(n.slice.lower) == cs:
            root = n.value
            while isinstance(root, (ast.Subscript, ast.Attribute, ast.Call)):
                root = root.value if not isinstance(root, ast.Call) else root.func
            if not isinstance(root, ast.Name):
                continue
            whole = root.id not in assigned_in_outer  # the array exists before the block loop: whole-array coordinates
            if whole and relative:
                return ("`%s` slices the whole array `%s` with the block-relative chunk start `%s = %s`: the offset of the enclosing block "
                        "(`%s`) is lost, so every block after the first re-reads the rows of the first block" % (short(n, 40), root.id, cs, norm(start_stmt.value), o_start))
            if not whole and absolute:
                return ("`%s` slices the per-block array `%s` with the absolute chunk start `%s = %s`: positions run past the block"
                        % (short(n, 40), root.id, cs, norm(start_stmt.value)))
    return None


def nested_offsets(repo: Repo, rule: str) -> RuleResult:
    """The nested-chunk clause of R8.2 as a rule of its own (used by C12: which rows a chunk reads must not depend on
    the block it sits in beyond that block's offset)."""
    rr = RuleResult(rule, "a chunk loop nested in a block loop addresses the whole array absolutely (block start + j * B) or the block relatively", floor=2)
    for f, lp, count, size, div, extent, cands in _block_loops(repo):
        pm = parents_map(f.node)
        if not any(isinstance(a, ast.For) for a in ancestors(lp, pm)):
            continue
        i = norm(lp.target)
        starts = [s_ for s_ in lp.body if isinstance(s_, ast.Assign) and isinstance(s_.targets[0], ast.Name) and _is_scaled(s_.value, i, size)]
        if not starts:
            continue
        problem = _nested_offset_problem(f, lp, starts[0], size, pm)
        construct = "nested chunk loop `for %s in range(%s)`" % (i, count)
        if problem:
            rr.bad(f, construct, problem, lp.lineno)
        else:
            rr.ok(f, construct, "`%s = %s`" % (starts[0].targets[0].id, norm(starts[0].value)), lp.lineno)
    return rr


def _is_scaled(e: ast.AST, i: str, size: str) -> bool:
    p = sym.poly(e)
    for m, c in p.items():
        if c == 1 and len(m) == 2 and i in m and size in m:
            return True
    return False


def _nearest_def(f: Func, name: str, lp: ast.For, pm) -> Optional[Tuple[Optional[bool], str]]:
    """The definition of `name` that dominates the loop syntactically: the closest preceding
    assignment that is in a block enclosing the loop."""
    enclosing = set(id(a) for a in ancestors(lp, pm)) | {id(lp)}
    best = None
    for n in walk_no_nested(f.node):
        if isinstance(n, ast.Assign) and any(isinstance(t, ast.Name) and t.id == name for t in n.targets) and n.lineno < lp.lineno:
            parent = pm.get(id(n))
            if id(parent) in enclosing or isinstance(parent, ast.FunctionDef):
                if best is None or n.lineno > best.lineno:
                    best = n
    if best is None:
        return None
    v = best.value
    if isinstance(v, ast.Call) and norm(v.func) == "max" and any(isinstance(a, ast.Constant) and isinstance(a.value, int) and a.value >= 1 for a in v.args):
        return True, "max(%s, ...) at line %d" % ([a.value for a in v.args if isinstance(a, ast.Constant)][0], best.lineno)
    return False, "`%s = %s` (line %d) can be 0" % (name, short(v, 50), best.lineno)


class _Canon(ast.NodeTransformer):
    pass


def _facts(repo: Repo, f: Func) -> Set[str]:
    """Fact set of a LOT kernel after its prologue: calls to repository functions with bound arguments and
    their dominating guards, plus the truncation and the final rescaling.  Locals are written L0, L1, ... in the
    order in which the pipeline first mentions them, so the comparison does not depend on how each kernel names
    its per-row arrays (parameters keep their names: they are the kernels' shared interface)."""
    import copy

    g = CFG(f.node)
    pm = parents_map(f.node)
    local_names = set()
    for n in walk_no_nested(f.node):
        if isinstance(n, ast.Assign):
            for t in n.targets:
                for x in ast.walk(t):
                    if isinstance(x, ast.Name):
                        local_names.add(x.id)
        elif isinstance(n, ast.For):
            for x in ast.walk(n.target):
                if isinstance(x, ast.Name):
                    local_names.add(x.id)
    local_names -= set(f.params)

    class RowSize(ast.NodeTransformer):
        # the size of the row's support is spelled through whichever per-row array is at hand
        def visit_Subscript(self, node):
            self.generic_visit(node)
            if isinstance(node.value, ast.Attribute) and node.value.attr == "shape" and isinstance(node.value.value, ast.Name) \
                    and node.value.value.id in local_names and isinstance(node.slice, ast.Constant) and node.slice.value == 0:
                return ast.copy_location(ast.Name(id="ROW_SIZE", ctx=ast.Load()), node)
            return node

    numbering: Dict[str, str] = {}

    class Number(ast.NodeTransformer):
        def visit_Name(self, node):
            if node.id in local_names:
                if node.id not in numbering:
                    numbering[node.id] = "L%d" % len(numbering)
                return ast.copy_location(ast.Name(id=numbering[node.id], ctx=node.ctx), node)
            return node

    def txt(e: ast.AST) -> str:
        return norm(Number().visit(RowSize().visit(copy.deepcopy(e))))

    raw = []
    for c in repo.calls_in(f):
        tg = [t for t in repo.resolve_call(f, c) if isinstance(t, Func)]
        if tg:
            b = repo.bind_args(tg[0], c)
            parts = ("call", tg[0].name, sorted(b.items()))
        elif repo.canonical(f.module, c.func) in ("numpy.argsort", "numpy.sign", "numpy.sqrt", "numpy.abs"):
            parts = ("expr", None, c)
        else:
            continue
        st = enclosing_stmt(c, pm)
        nid = g.node_for(st)
        guards = [(g.nodes[t].ast, lab) for t, lab in g.guards_of(nid) if g.nodes[t].kind == "test"]
        raw.append((c.lineno, c.col_offset, parts, guards))
    facts = set()
    for _, _, parts, guards in sorted(raw, key=lambda r: (r[0], r[1])):
        gs = sorted("%s%s" % ("" if lab in ("true", "iter") else "not ", txt(t)) for t, lab in sorted(guards, key=lambda x: x[0].lineno))
        if parts[0] == "call":
            name = "%s(%s)" % (parts[1], ", ".join("%s=%s" % (k, txt(v)) for k, v in parts[2]))
        else:
            name = txt(parts[2])
        facts.add("%s | %s" % (name, "; ".join(gs)))
    return facts


def r8_3(repo: Repo) -> RuleResult:
    rr = RuleResult("R8.3", "the sparse and the dense LOT kernel agree on the per-row pipeline", floor=1)
    a, b = (repo.func(LOT, n) for n in KERNELS)
    fa, fb = _facts(repo, a), _facts(repo, b)
    if len(fa) < 6:
        raise AnalysisError("R8.3: only %d pipeline facts extracted from %s" % (len(fa), a.key))
    if fa == fb:
        rr.ok(b, "sparse vs dense kernel", "%d pipeline facts (callee, bound arguments, guards) equal" % len(fa), b.node.lineno)
    else:
        rr.bad(b, "sparse vs dense kernel", "the two kernels differ: only sparse %s; only dense %s" % (sorted(fa - fb), sorted(fb - fa)), b.node.lineno)
    return rr


def r8_4(repo: Repo) -> RuleResult:
    return config_agreement(
        repo, "R8.4", "spherical_vectors is passed on the transform path wherever it is on the fit path",
        only_params={"spherical_vectors"}, floor=3,
    )


def r8_5(repo: Repo) -> RuleResult:
    """Every input format must reach the same kernels with the same configuration.  The estimators' own fit / transform
    bodies dispatch on the format (sparse matrix / lists / generator) and on whether reference vectors are supplied;
    a local that one arm of that dispatch forgets to assign makes that combination raise UnboundLocalError while the
    same data in another format is embedded."""
    from .common import definite_assignment_over, exported_estimators

    rr = RuleResult("R8.5", "in fit / transform of the transport estimators every local read is assigned on every path of the format / reference dispatch", floor=4)
    classes = [c for c in exported_estimators(repo) if c.module.path == LOT]
    return definite_assignment_over(
        repo, rr, classes, ("fit", "transform", "fit_transform"),
        "that combination of input format and supplied reference raises UnboundLocalError where the same data in another format is embedded",
        only_file=LOT)


DRIVERS = ("lot_vectors_sparse", "lot_vectors_dense", "lot_vectors_dense_generator", "sinkhorn_vectors_sparse")
_DRIVER_CALLS = {"sklearn.utils.extmath.randomized_svd", "sklearn.utils.extmath.svd_flip", "numpy.memmap"}


def _driver_facts(repo: Repo, f: Func) -> List[str]:
    import copy

    local = set()
    for n in walk_no_nested(f.node):
        if isinstance(n, ast.Assign):
            for t in n.targets:
                local |= {x.id for x in ast.walk(t) if isinstance(x, ast.Name)}
        elif isinstance(n, ast.For):
            local |= {x.id for x in ast.walk(n.target) if isinstance(x, ast.Name)}
    local -= set(f.params)
    numbering: Dict[str, str] = {}

    class Number(ast.NodeTransformer):
        def visit_Name(self, node):
            if node.id in local:
                numbering.setdefault(node.id, "L%d" % len(numbering))
                return ast.copy_location(ast.Name(id=numbering[node.id], ctx=node.ctx), node)
            return node

    out = []
    for c in sorted(repo.calls_in(f), key=lambda c_: (c_.lineno, c_.col_offset)):
        canon = repo.canonical(f.module, c.func)
        if canon not in _DRIVER_CALLS:
            continue
        cc = copy.deepcopy(c)
        short_name = canon.rsplit(".", 1)[1]
        if short_name == "randomized_svd" and cc.args:
            cc.args = cc.args[1:]  # the matrix itself is what the drivers differ in
            out.append("%s(<matrix>, %s)" % (short_name, ", ".join([norm(Number().visit(a)) for a in cc.args] + ["%s=%s" % (k.arg, norm(Number().visit(k.value))) for k in cc.keywords])))
        elif short_name == "svd_flip":
            # positional roles relative to the unpacking of the preceding randomized_svd are what matter: keep the
            # order of the names as numbered at their first mention (the u, s, v unpacking precedes this call)
            out.append("%s(%s)" % (short_name, ", ".join(norm(Number().visit(a)) for a in cc.args)))
        else:
            out.append("%s(%s)" % (short_name, ", ".join([norm(Number().visit(a)) for a in cc.args] + ["%s=%s" % (k.arg, norm(Number().visit(k.value))) for k in cc.keywords])))
    return out


def r8_6(repo: Repo) -> RuleResult:
    """The four fit-side drivers (sparse / dense / generator input, Sinkhorn) carry their own copies of the same
    tail: SVD of the embedded rows (single block, or block-wise through a memmap), sign fixing, components.  Whatever
    the input format, that tail must be the same computation with the same configuration."""
    rr = RuleResult("R8.6", "the fit-side drivers of the four input formats run the same SVD / sign-fixing / scratch-file steps with the same arguments", floor=3)
    ref = repo.func(LOT, DRIVERS[0])
    fr = _driver_facts(repo, ref)
    if len(fr) < 4:
        raise AnalysisError("R8.6: only %d SVD / memmap steps recognised in %s" % (len(fr), ref.key))
    for nm in DRIVERS[1:]:
        f = repo.func(LOT, nm)
        ff = _driver_facts(repo, f)
        construct = "%s vs %s" % (nm, DRIVERS[0])
        if ff == fr:
            rr.ok(f, construct, "%d steps equal (randomized_svd / svd_flip / memmap with their arguments)" % len(ff), f.node.lineno)
        else:
            import difflib

            d = [l for l in difflib.unified_diff(fr, ff, lineterm="", n=0) if l[:1] in "+-" and l[:3] not in ("+++", "---")]
            rr.bad(f, construct, "the drivers differ in their SVD tail (%s first, then %s): %s - the embedding of the same distributions depends on "
                   "the input format that carried them" % (DRIVERS[0], nm, d[:4]), f.node.lineno)
    return rr


RULES = [r8_1, r8_2, r8_3, r8_4, r8_5, r8_6]
CLAIM = (
    "R8.1 in both LOT kernels every path to the solver divides the row distribution by its own sum under `row_sum > 0` "
    "(must-pass-through + edge dominance); R8.2 every block / chunk loop of linear_optimal_transport.py has bounds start = i*B, "
    "end = min(n, start + B) and a divisor B guarded by max(>=1, ...) (or a configuration value), traced through parameters to "
    "call sites; R8.3 sparse and dense kernels have equal fact sets after their prologues; R8.4 spherical_vectors agreement; "
    "R8.5 definite assignment (CFG dataflow) in fit / transform of the transport estimators and the non-compiled functions they "
    "reach: no arm of the input-format / reference-vector dispatch leaves a local that is read later unassigned; R8.6 the four fit-side drivers (sparse, dense, generator, Sinkhorn) run the same randomized_svd / svd_flip / memmap steps with the same arguments (locals numbered in pipeline order)."
)
NOT_DECIDED = (
    "invariance under permutation, zero padding and splitting of support points, equality of equal distributions, and the isometry "
    "claim - properties of the optimal-transport values."
)
