"""C20 - histogram / KDE rows: the bookkeeping clauses only (bin adjacency when the range is widened, one row per
sequence from that sequence and the fitted bins / grid / bandwidth).  Bin membership and density values are computed
by pandas and scikit-learn on run-time floating point edges and are not decided."""
from __future__ import annotations

import ast
from typing import Dict, List, Optional, Tuple

from ..model import AnalysisError, Func, Repo, is_self_attr, short, walk_no_nested
from ..report import RuleResult
from .common import kw, norm, parents_map, rel_of

VEC = "vectorizers/_vectorizers.py"
KDE = "vectorizers/kde_vectorizer.py"


def _interval_calls(f: Func) -> List[Tuple[ast.Call, ast.If]]:
    pm = parents_map(f.node)
    out = []
    for n in walk_no_nested(f.node):
        if isinstance(n, ast.Call) and norm(n.func).endswith("Interval") and kw(n, "left") is not None and kw(n, "right") is not None:
            cur = n
            guard = None
            while id(cur) in pm:
                cur = pm[id(cur)]
                if isinstance(cur, ast.If):
                    guard = cur
                    break
            out.append((n, guard))
    return out


def _edge_forms(f: Func) -> Dict[str, str]:
    """Canonical names of the four inner/outer edges as written in f: first.left, first.right, last.left, last.right."""
    lst = None
    for n in walk_no_nested(f.node):
        if isinstance(n, ast.Assign) and isinstance(n.value, ast.Call) and norm(n.value.func).endswith(".to_list") and isinstance(n.targets[0], ast.Name):
            lst = n.targets[0].id
    if lst is None:
        raise AnalysisError("R20.1: interval list of %s not recognised" % f.qualname)
    last_names = {"-1", "len(%s) - 1" % lst}
    for n in walk_no_nested(f.node):
        if isinstance(n, ast.Assign) and isinstance(n.targets[0], ast.Name) and norm(n.value) == "len(%s) - 1" % lst:
            last_names.add(n.targets[0].id)
    forms = {}
    for side in ("left", "right"):
        forms["%s[0].%s" % (lst, side)] = "first.%s" % side
        for ln in last_names:
            forms["%s[%s].%s" % (lst, ln, side)] = "last.%s" % side
    # local aliases of the first / last bin (`first = lst[0]`, `first, last = lst[0], lst[-1]`); a pd.Interval is
    # immutable, so an alias is a snapshot of the slot at the line where it is taken
    forms["__alias__"] = {}
    for n in walk_no_nested(f.node):
        if not isinstance(n, ast.Assign):
            continue
        pairs = []
        if isinstance(n.targets[0], ast.Name):
            pairs = [(n.targets[0], n.value)]
        elif isinstance(n.targets[0], ast.Tuple) and isinstance(n.value, ast.Tuple) and len(n.targets[0].elts) == len(n.value.elts):
            pairs = list(zip(n.targets[0].elts, n.value.elts))
        for t, v in pairs:
            if not isinstance(t, ast.Name):
                continue
            which = "first" if norm(v) == "%s[0]" % lst else "last" if norm(v) in {"%s[%s]" % (lst, ln) for ln in last_names} else None
            if which:
                for side in ("left", "right"):
                    forms["%s.%s" % (t.id, side)] = "%s.%s" % (which, side)
                forms["__alias__"][t.id] = (which, n.lineno)
    forms["__list__"] = lst
    return forms


def _canon(e: ast.AST, forms: Dict[str, str], rng: str) -> str:
    t = norm(e)
    if t in forms:
        return forms[t]
    if t == "%s[0]" % rng:
        return "range.low"
    if t == "%s[1]" % rng:
        return "range.high"
    if t.split(".")[0] in ("first", "last", "range"):
        return "?" + t  # a local that merely carries one of the canonical names is not that edge
    return t


def r20_1(repo: Repo) -> RuleResult:
    """A gap-free, non-overlapping partition of the absolute range needs the added or widened outer bins to share
    their inner edge with the bins learned from the data and to end at the range limits."""
    rr = RuleResult("R20.1", "outlier bins / widened outer bins meet the learned bins edge to edge and end at the absolute range", floor=5)
    for fn, mode in (("add_outier_bins", "add"), ("expand_boundaries", "widen")):
        f = repo.func(VEC, fn)
        rng = f.params[1]
        forms = _edge_forms(f)
        calls = _interval_calls(f)
        if len(calls) != 2:
            raise AnalysisError("R20.1: expected two pd.Interval constructions in %s, found %d" % (fn, len(calls)))
        want = {
            ("add", "low"): ("range.low", "first.left"), ("add", "high"): ("last.right", "range.high"),
            ("widen", "low"): ("range.low", "first.right"), ("widen", "high"): ("last.left", "range.high"),
        }
        want_guard = {"low": ("lt", "range.low", "first.left"), "high": ("lt", "last.right", "range.high")}
        for call, guard in calls:
            l, r_ = _canon(kw(call, "left"), forms, rng), _canon(kw(call, "right"), forms, rng)
            side = "low" if l == "range.low" or r_.startswith("first") else "high"
            construct = "%s: %s bin" % (fn, "lower" if side == "low" else "upper")
            if (l, r_) != want[(mode, side)]:
                rr.bad(f, construct, "the bin is (%s, %s] where a gap-free partition needs (%s, %s]: values between the two edges are %s"
                       % (l, r_, want[(mode, side)][0], want[(mode, side)][1], "counted twice or not at all"), call.lineno)
                continue
            g = rel_of(guard.test) if guard is not None else None
            if g is not None:
                g = (g[0],) + tuple(_canon(ast.parse(x, mode="eval").body, forms, rng) for x in g[1:]) if g[0] in ("lt", "le") else g
            if g == want_guard[side]:
                rr.ok(f, construct, "(%s, %s] under `%s`" % (l, r_, norm(guard.test)), call.lineno)
            else:
                rr.bad(f, construct, "the bin is added under `%s`, not exactly when the learned bins stop short of the range limit"
                       % (norm(guard.test) if guard is not None else "no test"), call.lineno)
        # where the new bins go
        lst = forms["__list__"]
        if mode == "widen":
            pm = parents_map(f.node)
            okp = True
            for call, _ in calls:
                st = pm.get(id(call))
                tgt = norm(st.targets[0]) + ".left" if isinstance(st, ast.Assign) and isinstance(st.targets[0], ast.Subscript) else ""
                side_low = _canon(kw(call, "left"), forms, rng) == "range.low"
                if forms.get(tgt) != ("first.left" if side_low else "last.left"):
                    okp = False
            (rr.ok if okp else rr.bad)(f, "%s: positions" % fn, "the widened bins replace the first and the last bin" if okp else
                                       "a widened bin is not stored over the bin it widens: a bin is lost or duplicated", f.node.lineno)
            # freshness: with a single learned bin the first and the last bin are one slot, so the upper widening must
            # start from what the lower widening stored there; an alias taken before a store into the list and read
            # after it still holds the bin as it was
            stores = sorted(n.lineno for n in walk_no_nested(f.node) if isinstance(n, ast.Assign) and isinstance(n.targets[0], ast.Subscript)
                            and norm(n.targets[0].value) == lst)
            stale = []
            for call, guard in calls:
                for x in ast.walk(call):
                    if isinstance(x, ast.Name) and x.id in forms["__alias__"]:
                        taken = forms["__alias__"][x.id][1]
                        if any(taken < s_ < call.lineno for s_ in stores):
                            stale.append((x.id, taken, call.lineno))
            if stale:
                a, t0, t1 = stale[0]
                rr.bad(f, "%s: freshness" % fn, "`%s` was read from the list at line %d, before a widened bin is stored into the list, and is used at line %d "
                       "for the other widening: when a single bin was learned both ends are one slot and the first widening is overwritten "
                       "(the bins no longer reach that range limit)" % (a, t0, t1), t1)
            else:
                rr.ok(f, "%s: freshness" % fn, "each widening reads the list as the previous one left it", f.node.lineno)
        if mode == "add":
            ins = [n for n in walk_no_nested(f.node) if isinstance(n, ast.Call) and norm(n.func) == "%s.insert" % lst]
            app = [n for n in walk_no_nested(f.node) if isinstance(n, ast.Call) and norm(n.func) == "%s.append" % lst]
            ok = len(ins) == 1 and norm(ins[0].args[0]) == "0" and len(app) == 1
            (rr.ok if ok else rr.bad)(f, "%s: positions" % fn, "lower outlier bin inserted first, upper appended last" if ok else
                                      "the outlier bins are not inserted at the front / appended at the end: the bins are no longer increasing", f.node.lineno)
    return rr


def r20_2(repo: Repo) -> RuleResult:
    """One histogram row per sequence, computed from that sequence and the fitted bins."""
    rr = RuleResult("R20.2", "HistogramVectorizer.transform fills row i from sequence i with the fitted bins", floor=3)
    c = repo.module(VEC).classes.get("HistogramVectorizer")
    if c is None:
        raise AnalysisError("R20.2: HistogramVectorizer not found")
    tr = repo.resolve_method(c, "transform")
    vt = repo.resolve_method(c, "_vector_transform")
    loops = [n for n in walk_no_nested(tr.node) if isinstance(n, ast.For)]
    if not loops:
        # a vectorised transform (all values cut at once, counted through flat positions row * n_bins + code): the
        # clause that remains checkable is the one about the no-bin code
        codes = [x for x in walk_no_nested(tr.node) if isinstance(x, ast.Attribute) and x.attr == "codes"]
        if not codes:
            raise AnalysisError("R20.2: HistogramVectorizer.transform has neither a row loop nor a code-based count")
        filtered = any(isinstance(x, ast.Compare) and len(x.ops) == 1 and (
            (isinstance(x.ops[0], ast.GtE) and norm(x.comparators[0]) == "0") or (isinstance(x.ops[0], ast.Gt) and norm(x.comparators[0]) == "-1")
            or (isinstance(x.ops[0], ast.NotEq) and norm(x.comparators[0]) == "-1")) for x in walk_no_nested(tr.node))
        if filtered:
            rr.ok(tr, "counting", "flat positions built from bin codes after the no-bin code -1 is filtered out", tr.node.lineno)
        else:
            rr.bad(tr, "counting", "flat positions `row * n_bins + code` are built from pd.cut's codes without removing the code -1 of values that fall "
                   "in no bin: such a value is counted in the last bin of the *previous* row (or raises for the first row), so a row depends on "
                   "its neighbours", tr.node.lineno)
        rr.floor = 1
        return rr
    if len(loops) != 1 or not (isinstance(loops[0].iter, ast.Call) and norm(loops[0].iter.func) == "enumerate" and isinstance(loops[0].target, ast.Tuple)):
        raise AnalysisError("R20.2: row loop of HistogramVectorizer.transform not recognised")
    i, seq = (norm(x) for x in loops[0].target.elts)
    stores = [s for s in loops[0].body if isinstance(s, ast.Assign) and isinstance(s.targets[0], ast.Subscript)]
    ok = len(stores) == 1 and norm(stores[0].targets[0].slice).split(",")[0].strip("( ") == i \
        and any(isinstance(x, ast.Call) and is_self_attr(x.func, "_vector_transform") and x.args and norm(x.args[0]) == seq for x in ast.walk(stores[0].value)) \
        and norm(loops[0].iter.args[0]) == tr.params[1]
    (rr.ok if ok else rr.bad)(tr, "row loop", "result[%s] = self._vector_transform(%s) for every (i, seq) of X" % (i, seq) if ok else
                              "row %s of the result is not computed from sequence %s of the input alone" % (i, seq), loops[0].lineno)
    cuts = [x for x in walk_no_nested(vt.node) if isinstance(x, ast.Call) and norm(x.func).endswith("cut")]
    ok2 = len(cuts) == 1 and len(cuts[0].args) >= 2 and {n.id for n in ast.walk(cuts[0].args[0]) if isinstance(n, ast.Name)} - {"np", "numpy", "pd"} == {vt.params[1]} \
        and is_self_attr(cuts[0].args[1], "bin_intervals_")
    (rr.ok if ok2 else rr.bad)(vt, "binning", "pd.cut(<the sequence>, self.bin_intervals_)" if ok2 else
                               "the sequence is not cut with the fitted bin_intervals_", vt.node.lineno)
    # counting: either the categorical's own value_counts(), or its integer codes - but then the code -1 that pd.cut
    # gives to a value outside every bin must be filtered out before the codes are used as positions
    codes = [x for x in walk_no_nested(vt.node) if isinstance(x, ast.Attribute) and x.attr == "codes"]
    if codes:
        txt = " ".join(norm(x) for x in walk_no_nested(vt.node) if isinstance(x, ast.Compare))
        filtered = any(isinstance(x, ast.Compare) and len(x.ops) == 1 and (
            (isinstance(x.ops[0], (ast.GtE,)) and norm(x.comparators[0]) == "0") or (isinstance(x.ops[0], ast.Gt) and norm(x.comparators[0]) == "-1")
            or (isinstance(x.ops[0], ast.NotEq) and norm(x.comparators[0]) == "-1")) for x in walk_no_nested(vt.node))
        if filtered:
            rr.ok(vt, "counting", "bin codes used as positions after the out-of-range code -1 is filtered out", vt.node.lineno)
        else:
            rr.bad(vt, "counting", "the bin codes of pd.cut are used as positions without removing the code -1 of values that fall in no bin: "
                   "position -1 is the last bin, so out-of-range values are counted there instead of being dropped", vt.node.lineno)
    else:
        vc = [x for x in walk_no_nested(vt.node) if isinstance(x, ast.Call) and isinstance(x.func, ast.Attribute) and x.func.attr == "value_counts"]
        (rr.ok if vc else rr.bad)(vt, "counting", "value_counts() of the categorical (values in no bin are not counted)" if vc else
                                  "the cut result is not counted by value_counts() nor through its codes: unrecognised", vt.node.lineno)
    return rr


def r20_3(repo: Repo) -> RuleResult:
    """A KDE row depends on its own sample only: the estimator is created or re-fitted inside the row loop on that
    sample alone, with the fitted bandwidth, and evaluated on the fitted grid."""
    rr = RuleResult("R20.3", "KDEVectorizer.transform fits a density on each sample alone (fitted bandwidth) and evaluates it on the fitted grid", floor=3)
    c = repo.module(KDE).classes.get("KDEVectorizer")
    if c is None:
        raise AnalysisError("R20.3: KDEVectorizer not found")
    tr = repo.resolve_method(c, "transform")
    loops = [n for n in walk_no_nested(tr.node) if isinstance(n, ast.For)]
    if len(loops) != 1 or not isinstance(loops[0].target, ast.Tuple):
        raise AnalysisError("R20.3: row loop of KDEVectorizer.transform not recognised")
    lp = loops[0]
    i, sample = (norm(x) for x in lp.target.elts)
    # the estimator may be built once or per row (fit() discards earlier state); what matters is the fitted bandwidth
    ctor = [x for x in walk_no_nested(tr.node) if isinstance(x, ast.Call) and norm(x.func).endswith("KernelDensity")]
    bw = kw(ctor[0], "bandwidth") if ctor else None
    ok = len(ctor) == 1 and bw is not None and is_self_attr(bw, "bandwidth_")
    (rr.ok if ok else rr.bad)(tr, "estimator", "KernelDensity(bandwidth=self.bandwidth_)" if ok else
                              "the density estimator is not built with the fitted bandwidth_ (got `%s`)" % (norm(bw) if bw is not None else "no bandwidth"), lp.lineno)
    fits = [x for s in lp.body for x in ast.walk(s) if isinstance(x, ast.Call) and isinstance(x.func, ast.Attribute) and x.func.attr == "fit"]
    ok2 = len(fits) == 1 and fits[0].args and {n.id for n in ast.walk(fits[0].args[0]) if isinstance(n, ast.Name)} == {sample}
    (rr.ok if ok2 else rr.bad)(tr, "fit", "fitted on `%s` alone" % sample if ok2 else "the per-row density is not fitted on the row's own sample alone", lp.lineno)
    sc = [x for s in lp.body for x in ast.walk(s) if isinstance(x, ast.Call) and isinstance(x.func, ast.Attribute) and x.func.attr == "score_samples"]
    stores = [s for s in lp.body if isinstance(s, ast.Assign) and isinstance(s.targets[0], ast.Subscript) and norm(s.targets[0].slice) == i]
    ok3 = len(sc) == 1 and sc[0].args and any(is_self_attr(n, "evaluation_grid_") for n in ast.walk(sc[0].args[0])) and len(stores) == 1
    (rr.ok if ok3 else rr.bad)(tr, "evaluation", "score_samples(self.evaluation_grid_...) stored in row %s" % i if ok3 else
                               "the density is not evaluated on the fitted grid and stored in the row of its own sample", lp.lineno)
    return rr


RULES = [r20_1, r20_2, r20_3]
CLAIM = (
    "bookkeeping clauses only: R20.1 add_outier_bins adds (range.low, first.left] in front and (last.right, range.high] at the end, "
    "expand_boundaries widens the outer bins to (range.low, first.right] and (last.left, range.high], each exactly under the test "
    "that the learned bins stop short of that limit, and each widening reads the list as the previous one left it (no snapshot of a bin taken before a store is used after it - with one learned bin both ends are one slot); R20.2 HistogramVectorizer.transform fills row i from sequence i, cut with "
    "the fitted bins and counted by value_counts() (or through the bin codes with the no-bin code -1 filtered out); R20.3 KDEVectorizer.transform builds its KernelDensity with the fitted bandwidth, fits it inside the row loop "
    "on the row's sample alone, evaluates it on the fitted grid and stores it in that row."
)
NOT_DECIDED = (
    "that the learned bins themselves are increasing and gap-free (pandas interval_range / from_breaks on data-dependent edges), bin "
    "membership of a value (open/closed ends, values equal to the training minimum), conservation of the counts, non-negativity and "
    "order-independence of the densities (scikit-learn): run-time facts of third-party code."
)
