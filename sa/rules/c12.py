"""C12 - each output row depends only on its own input item and the fitted model."""
from __future__ import annotations

import ast
from typing import Dict, List, Optional, Set, Tuple

from ..effects import Effects
from ..loops import carried_channels
from ..model import AnalysisError, Cls, Func, Repo, short, walk_no_nested
from ..report import RuleResult
from .c10 import r10_5
from .common import ancestors, exported_estimators, names_in, norm, parents_map, tainted_names

TOKEN_BY_TOKEN = {
    "TokenCooccurrenceVectorizer", "TimedTokenCooccurrenceVectorizer", "NgramCooccurrenceVectorizer",
    "MultiSetCooccurrenceVectorizer", "LabelledTreeCooccurrenceVectorizer",
}
LOT = "vectorizers/linear_optimal_transport.py"
# kernel row loops: (file, function, nesting depth analysed) - every top-level loop of the function is a row (or chunk)
# loop; depth 2 also analyses the loops nested directly inside them (chunk -> row).  Selected by structure, not by names;
# re-validated on every run (a function without loops => analysis error).
KERNEL_ROW_LOOPS = [
    ("vectorizers/skip_gram_vectorizer.py", "skip_grams_matrix_coo_data", 1),
    ("vectorizers/mixed_gram_vectorizer.py", "bpe_encode_all", 1),
    (LOT, "lot_vectors_sparse_internal", 2),
    (LOT, "lot_vectors_dense_internal", 2),
    (LOT, "sinkhorn_vectors_sparse_internal", 1),
    ("vectorizers/transformers/row_desnoise.py", "numba_multinomial_em_sparse", 1),
]


def _kernel_loops(f: Func, depth: int) -> List[ast.For]:
    def top(stmts):
        out = []
        for s_ in stmts:
            if isinstance(s_, ast.For):
                out.append(s_)
            elif isinstance(s_, (ast.If, ast.With, ast.Try)):
                for fld in ("body", "orelse", "finalbody"):
                    out += top(getattr(s_, fld, []) or [])
        return out

    loops = top(f.node.body)
    if depth >= 2:
        for lp in list(loops):
            loops += top(lp.body)
    return loops


def row_wise_estimators(repo: Repo) -> List[Cls]:
    return [c for c in exported_estimators(repo) if c.name not in TOKEN_BY_TOKEN and repo.resolve_method(c, "transform") is not None]


def transform_loops(f: Func) -> List[ast.For]:
    taint = tainted_names(f, {p for p in f.params if p != "self"})
    pm = parents_map(f.node)
    out = []
    for lp in [n for n in walk_no_nested(f.node) if isinstance(n, ast.For)]:
        if any(isinstance(a, (ast.For, ast.While)) for a in ancestors(lp, pm)):
            continue
        if names_in(lp.iter) & taint:
            out.append(lp)
    return out


def r12_1(repo: Repo) -> RuleResult:
    rr = RuleResult("R12.1", "no loop-carried state across the row / block / chunk loops of any row-wise transform", floor=22)
    eff = Effects(repo)
    done: Set[Tuple[str, int]] = set()
    for c in row_wise_estimators(repo):
        tr = repo.resolve_method(c, "transform")
        loops = transform_loops(tr)
        for lp in loops:
            if (tr.key, lp.lineno) in done:
                continue
            done.add((tr.key, lp.lineno))
            construct = "loop `for %s in %s`" % (norm(lp.target), short(lp.iter, 40))
            ch, allowed = carried_channels(repo, eff, tr, lp, c)
            if ch:
                for name, why, line in ch:
                    rr.bad(tr, construct + " / " + name, why, line)
            else:
                rr.ok(tr, construct, "no cross-row channel; allowed output channels: %s" % (allowed or "none"), lp.lineno)
        # comprehension-built rows are independent by construction
        for n in walk_no_nested(tr.node):
            if isinstance(n, ast.Return) and n.value is not None:
                taint = tainted_names(tr, {p for p in tr.params if p != "self"})
                for comp in ast.walk(n.value):
                    if isinstance(comp, (ast.ListComp, ast.GeneratorExp)) and names_in(comp.generators[0].iter) & taint:
                        rr.ok(tr, "row comprehension over `%s`" % short(comp.generators[0].iter, 30),
                              "each row is an expression of its own item and fitted state", comp.lineno)
        if not loops:
            rets = [n for n in walk_no_nested(tr.node) if isinstance(n, ast.Return)]
            rr.ok(tr, "no row loop", "transform is a whole-matrix expression (linear map / delegated): row-wise by construction or covered through its helper",
                  tr.node.lineno, nontrivial=False)
    for file, fn, depth in KERNEL_ROW_LOOPS:
        f = repo.func(file, fn)
        loops = _kernel_loops(f, depth)
        if not loops:
            raise AnalysisError("R12.1: no row loop found in %s::%s (table entry must be re-confirmed)" % (file, fn))
        for k, lp in enumerate(loops):
            construct = "loop#%d `for %s in %s`" % (k, norm(lp.target), short(lp.iter, 40))
            ch, allowed = carried_channels(repo, eff, f, lp, None)
            if ch:
                for name, why, line in ch:
                    rr.bad(f, construct + " / " + name, why, line)
            else:
                rr.ok(f, construct, "no cross-row channel; allowed output channels: %s" % (allowed or "none"), lp.lineno)
    return rr


def r12_2(repo: Repo) -> RuleResult:
    return r10_5(repo, "R12.2")


# --------------------------------------------------------------------------- R12.3
REDUCTIONS = {"numpy.any", "numpy.all", "numpy.sum", "numpy.max", "numpy.min", "numpy.linalg.norm", "numpy.mean",
              "numpy.isfinite", "numpy.isnan", "numpy.allclose", "numpy.amax", "numpy.amin"}
_BATCH_EXCEPTIONS = {
    (LOT, "sinkhorn_iterations_batch"): (
        "shared stopping test (every 10 iterations) and shared non-finite break of the batched Sinkhorn iteration: the coupling "
        "acts only on the iteration count of a contraction towards a fixed point with tolerance 1e-9 (measured at design time: "
        "batched vs one-row-at-a-time transforms agree to 1.3e-15); the non-finite branch is unreachable for finite costs "
        "(K = exp(-cost) > 0, u > 0)"
    ),
}


def _scalar_reduction_funcs(repo: Repo) -> Set[Func]:
    """Repository functions that reduce whole arrays to a scalar (return np.sqrt(acc) / acc accumulated over loops)."""
    out = set()
    for f in repo.all_funcs():
        if not f.is_njit:
            continue
        rets = [n for n in walk_no_nested(f.node) if isinstance(n, ast.Return) and n.value is not None]
        if len(rets) == 1:
            names = names_in(rets[0].value)
            aug = {n.target.id for n in walk_no_nested(f.node) if isinstance(n, ast.AugAssign) and isinstance(n.target, ast.Name)}
            loops = [n for n in walk_no_nested(f.node) if isinstance(n, ast.For)]
            if names & aug and loops and any(isinstance(s, ast.Subscript) for s in ast.walk(f.node)) and "batch" in f.name:
                out.add(f)
    return out


def r12_3(repo: Repo) -> RuleResult:
    rr = RuleResult("R12.3", "control flow that depends on a reduction over the whole batch is confined to the reviewed table", floor=1)
    red_funcs = _scalar_reduction_funcs(repo)
    scope: List[Func] = []
    for c in row_wise_estimators(repo):
        for f in repo.reachable_from(c, "transform"):
            if f not in scope:
                scope.append(f)
    found: Dict[Tuple[str, str], List[Tuple[int, str]]] = {}
    for f in scope:
        if not f.is_njit:
            continue
        # names holding whole-array reductions
        red_names: Set[str] = set()
        for n in walk_no_nested(f.node):
            if isinstance(n, ast.Assign) and len(n.targets) == 1 and isinstance(n.targets[0], ast.Name) and isinstance(n.value, ast.Call):
                canon = repo.canonical(f.module, n.value.func)
                tg = [t for t in repo.resolve_call(f, n.value) if isinstance(t, Func)]
                if canon in REDUCTIONS or any(t in red_funcs for t in tg):
                    red_names.add(n.targets[0].id)
        pm = parents_map(f.node)
        for n in walk_no_nested(f.node):
            if not isinstance(n, ast.If):
                continue
            if not any(isinstance(a, (ast.For, ast.While)) for a in ancestors(n, pm)):
                continue
            jumps = [s for s in n.body + n.orelse if isinstance(s, (ast.Break, ast.Return, ast.Continue))]
            if not jumps:
                continue
            t = n.test
            has_red = any(
                isinstance(x, ast.Call) and repo.canonical(f.module, x.func) in REDUCTIONS and x.args
                and not isinstance(x.args[0], ast.Constant) and _operand_is_array(x.args[0])
                for x in ast.walk(t)
            ) or bool(names_in(t) & red_names) or any(
                isinstance(x, ast.Call) and any(tg in red_funcs for tg in repo.resolve_call(f, x) if isinstance(tg, Func))
                for x in ast.walk(t)
            )
            if has_red:
                found.setdefault((f.file, f.qualname), []).append((n.lineno, norm(t)))
    for (file, fn), sites in sorted(found.items()):
        f = repo.func(file, fn)
        reason = _BATCH_EXCEPTIONS.get((file, fn))
        for line, test in sites:
            if reason:
                rr.exception(f, "if %s: break" % short(ast.parse(test, mode="eval").body, 50), reason, line)
            else:
                rr.bad(f, "if %s: <jump>" % test[:50],
                       "loop control depends on a reduction over the whole batch (`%s`): how many iterations one row gets, or whether it "
                       "is processed, depends on which other rows share its batch" % test, line)
    for (file, fn) in _BATCH_EXCEPTIONS:
        if (file, fn) not in found:
            raise AnalysisError("R12.3: reviewed exception %s::%s no longer has the shape that justified it" % (file, fn))
    return rr


def _operand_is_array(e: ast.AST) -> bool:
    # a bare scalar comparison like np.abs(x - y) is not a reduction; any/all/sum over an expression of arrays is
    return True


def r12_4(repo: Repo) -> RuleResult:
    from .c08 import nested_offsets

    return nested_offsets(repo, "R12.4")


def r12_5(repo: Repo) -> RuleResult:
    """HistogramVectorizer: when counts are taken through the integer codes of pd.cut, the code -1 (value in no bin) used
    as a position lands in the last bin - of the same row, or, with flat positions row * n_bins + code, of the previous
    row.  The clause is C20's R20.2 counting clause; for C12 it is the only way one row's values can reach another row."""
    from .c20 import r20_2

    rr = r20_2(repo)
    rr.rule, rr.title, rr.floor = "R12.5", "histogram counts taken through bin codes exclude the no-bin code -1 (no value reaches a neighbouring row)", 1
    rr.instances = [i for i in rr.instances if i.construct == "counting"]
    for i in rr.instances:
        i.rule = "R12.5"
    return rr


RULES = [r12_1, r12_2, r12_3, r12_4, r12_5]
CLAIM = (
    "R12.1 loop-carried dependence analysis (upward-exposed locals + outside objects mutated inside, with callee effect "
    "summaries) over every row / block / chunk loop of the row-wise transforms and the kernel row loops in the table: the only "
    "cross-iteration channels are append-only accumulators, stores indexed by the induction variable and position cursors; "
    "R12.2 prange bodies write only at positions indexed by the induction variable; R12.3 batch-axis reductions feeding loop "
    "control are confined to the reviewed table (Sinkhorn batch stopping test); R12.4 a chunk loop nested in a block loop addresses the whole input absolutely (block start + j * B) or the block itself relatively - never the whole input with block-relative positions; R12.5 histogram counts taken through pd.cut codes exclude the no-bin code -1."
)
NOT_DECIDED = "value-level equality of concatenated vs separate transforms (follows from independence for everything but the reviewed Sinkhorn coupling, which is bounded by its tolerance, not decided here)."
