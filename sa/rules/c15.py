"""C15 - labelled-tree co-occurrence: the structural clauses only (walk / weight pairing, relabelling, orientation algebra,
node removal).  The equality of entries with kernel-weighted walk counts itself is numerical and is not decided."""
from __future__ import annotations

import ast
from typing import Dict, List, Optional, Set

from .. import sym
from ..model import AnalysisError, Func, Repo, short, walk_no_nested
from ..report import RuleResult
from .common import norm, parents_map, single_defs

TREE = "vectorizers/tree_token_cooccurrence.py"
PP = "vectorizers/preprocessing.py"


def _dispatch_arm(first_if: ast.If, key: str) -> Optional[List[ast.stmt]]:
    """Statements an if / elif chain on string constants executes for orientation `key` (None when it raises)."""
    cur: Optional[ast.stmt] = first_if
    while isinstance(cur, ast.If):
        t = cur.test
        truth = None
        if isinstance(t, ast.Compare) and len(t.ops) == 1:
            c = t.comparators[0]
            if isinstance(c, ast.Constant) and isinstance(c.value, str):
                if isinstance(t.ops[0], ast.Eq):
                    truth = key == c.value
                elif isinstance(t.ops[0], ast.NotEq):
                    truth = key != c.value
            elif isinstance(c, (ast.Tuple, ast.List, ast.Set)) and all(isinstance(e, ast.Constant) for e in c.elts):
                vals = [e.value for e in c.elts]
                if isinstance(t.ops[0], ast.In):
                    truth = key in vals
                elif isinstance(t.ops[0], ast.NotIn):
                    truth = key not in vals
        if truth is None:
            raise AnalysisError("R15.1: orientation dispatch test `%s` is not a comparison with orientation constants" % norm(t))
        if truth:
            return cur.body
        if cur.orelse and len(cur.orelse) == 1 and isinstance(cur.orelse[0], ast.If):
            cur = cur.orelse[0]
        else:
            return cur.orelse
    return []


def _is_T(e: ast.AST, m: str) -> bool:
    return (isinstance(e, ast.Attribute) and e.attr == "T" and norm(e.value) == m) or \
        (isinstance(e, ast.Call) and isinstance(e.func, ast.Attribute) and e.func.attr == "transpose" and norm(e.func.value) == m and not e.args)


def r15_1(repo: Repo) -> RuleResult:
    """With M the aligned 'after' count matrix: 'after' returns M, 'before' its transpose, 'symmetric' M + M^T and
    'directional' the side-by-side concatenation [M^T, M] (the order R1.7 checks the labels against)."""
    rr = RuleResult("R15.1", "orientation algebra of the tree vectorizer: after = M, before = M^T, symmetric = M + M^T, directional = [M^T, M]", floor=4)
    f = repo.func(TREE, "sequence_tree_skip_grams")
    param = f.params[-1] if "window_orientation" not in f.params else "window_orientation"
    rets = [n for n in walk_no_nested(f.node) if isinstance(n, ast.Return) and isinstance(n.value, ast.Name)]
    if len(rets) != 1:
        raise AnalysisError("R15.1: sequence_tree_skip_grams does not return its matrix by name")
    m = rets[0].value.id
    firsts = [n for n in f.node.body if isinstance(n, ast.If) and param in norm(n.test) and any(isinstance(x, ast.Constant) and isinstance(x.value, str) for x in ast.walk(n.test))]
    if len(firsts) != 1:
        raise AnalysisError("R15.1: orientation dispatch on `%s` not found at the top level of sequence_tree_skip_grams" % param)
    from .common import flatten_dispatch

    for key in ("after", "before", "symmetric", "directional"):
        arm = flatten_dispatch([firsts[0]], key, param)
        stmts = [s for s in arm if not isinstance(s, ast.Pass)]
        if any(isinstance(s, ast.Raise) for s in stmts):
            rr.bad(f, "orientation %r" % key, "the documented orientation %r is rejected" % key, firsts[0].lineno)
            continue
        got = None
        if not stmts:
            got = "M"
        elif len(stmts) == 1:
            s0 = stmts[0]
            if isinstance(s0, ast.Assign) and norm(s0.targets[0]) == m:
                v = s0.value
                if _is_T(v, m):
                    got = "M^T"
                elif isinstance(v, ast.BinOp) and isinstance(v.op, ast.Add) and {("T" if _is_T(x, m) else norm(x)) for x in (v.left, v.right)} == {"T", m}:
                    got = "M + M^T"
                elif isinstance(v, ast.Call) and norm(v.func).endswith("hstack") and v.args and isinstance(v.args[0], (ast.List, ast.Tuple)):
                    parts = ["M^T" if _is_T(x, m) else ("M" if norm(x) == m else "?") for x in v.args[0].elts]
                    got = "[%s]" % ", ".join(parts)
            elif isinstance(s0, ast.AugAssign) and norm(s0.target) == m and isinstance(s0.op, ast.Add) and _is_T(s0.value, m):
                got = "M + M^T"
        want = {"after": "M", "before": "M^T", "symmetric": "M + M^T", "directional": "[M^T, M]"}[key]
        if got == want:
            rr.ok(f, "orientation %r" % key, "returns %s" % got, firsts[0].lineno)
        else:
            rr.bad(f, "orientation %r" % key, "returns %s where the definition requires %s" % (got or "an unrecognised expression", want), firsts[0].lineno)
    return rr


def r15_2(repo: Repo) -> RuleResult:
    """count = sum_k w[k-1] * A^k for k = 1..window: the first term pairs weights[0] with A itself, the loop runs over
    range(1, window_size), raises the walk matrix by one step *before* adding it, and pairs it with weights[i]."""
    rr = RuleResult("R15.2", "k-step walks are paired with the k-th kernel weight (A^1 with w[0], then multiply-before-add with w[i])", floor=3)
    f = repo.func(TREE, "build_tree_skip_grams")
    a = f.params[1]
    loops = [n for n in walk_no_nested(f.node) if isinstance(n, ast.For)]
    if len(loops) != 1 or not isinstance(loops[0].target, ast.Name):
        raise AnalysisError("R15.2: the walk loop of build_tree_skip_grams not recognised")
    lp = loops[0]
    i = lp.target.id
    sd_pre = {}
    for st in f.node.body:
        if st is lp:
            break
        if isinstance(st, ast.Assign) and isinstance(st.targets[0], ast.Name):
            sd_pre[st.targets[0].id] = st.value
    # the accumulator: the name augmented inside the loop
    augs = [s for st in lp.body for s in ast.walk(st) if isinstance(s, ast.AugAssign) and isinstance(s.op, ast.Add) and isinstance(s.target, ast.Name)]
    steps = [s for s in lp.body if isinstance(s, ast.Assign) and isinstance(s.value, ast.BinOp) and isinstance(s.value.op, ast.MatMult)]
    if len(augs) != 1 or len(steps) != 1:
        raise AnalysisError("R15.2: expected one `walk = walk @ A` and one `count += walk * w[i]` in the loop")
    acc, walk = augs[0].target.id, norm(steps[0].targets[0])
    w_name = None
    for x in ast.walk(augs[0].value):
        if isinstance(x, ast.Subscript) and norm(x.slice) == i:
            w_name = norm(x.value)
    # (1) initial term
    init = sd_pre.get(acc)
    ok1 = isinstance(init, ast.BinOp) and isinstance(init.op, ast.Mult) and {norm(init.left), norm(init.right)} == {a, "%s[0]" % w_name} \
        and norm(sd_pre.get(walk, ast.Constant(value=None))) == a
    (rr.ok if ok1 else rr.bad)(f, "first term", ("%s = %s * %s[0], %s = %s" % (acc, a, w_name, walk, a)) if ok1 else
                               "the one-step term is not `%s * %s[0]` with the walk matrix starting at `%s` (got %s = %s, %s = %s)"
                               % (a, w_name, a, acc, norm(init) if init is not None else None, walk, norm(sd_pre[walk]) if walk in sd_pre else None), lp.lineno)
    # (2) range
    it = lp.iter
    ok2 = isinstance(it, ast.Call) and norm(it.func) == "range" and len(it.args) == 2 and norm(it.args[0]) == "1" and norm(it.args[1]) == f.params[-1]
    (rr.ok if ok2 else rr.bad)(f, "walk lengths", "range(1, %s): walks of 2..window steps" % f.params[-1] if ok2 else
                               "the loop runs over `%s`, not range(1, %s): a walk length is skipped or a weight beyond the kernel is read" % (norm(it), f.params[-1]), lp.lineno)
    # (3) multiply before add, by A, and the weight index is the loop variable
    sv = steps[0].value
    # the walk matrix must advance on *every* iteration: nothing before the step may leave the iteration early
    early = [x for st in lp.body[: lp.body.index(steps[0])] for x in ast.walk(st) if isinstance(x, (ast.Continue, ast.Break, ast.Return))]
    if early:
        rr.bad(f, "walk step", "an iteration can `%s` (line %d) before `%s = %s @ %s`: the walk matrix then stays at a lower power and every later "
               "weight is paired with walks that are too short (e.g. kernels with an interior zero weight, offset >= 2)"
               % (type(early[0]).__name__.lower(), early[0].lineno, walk, walk, a), early[0].lineno)
    # the add may sit under a test that its own weight is non-zero (skipping a zero term changes nothing)
    top_of_add = [st for st in lp.body if any(x is augs[0] for x in ast.walk(st))][0]
    if top_of_add is not augs[0]:
        from .common import rel_of

        r_ = rel_of(top_of_add.test) if isinstance(top_of_add, ast.If) and not top_of_add.orelse else None
        wi = "%s[%s]" % (w_name, i)
        if not (r_ and ((r_[0] == "ne" and wi in r_[1] and (r_[1] & {"0", "0.0"})) or (r_[0] == "lt" and r_[1] in ("0", "0.0") and r_[2] == wi))):
            raise AnalysisError("R15.2: the accumulation sits under `%s`, not a non-zero test of its own weight" % short(top_of_add, 60))
    ok3 = lp.body.index(steps[0]) < lp.body.index(top_of_add) and {norm(sv.left), norm(sv.right)} == {walk, a} \
        and isinstance(augs[0].value, ast.BinOp) and isinstance(augs[0].value.op, ast.Mult) \
        and {norm(augs[0].value.left), norm(augs[0].value.right)} == {walk, "%s[%s]" % (w_name, i)}
    (rr.ok if ok3 else rr.bad)(f, "loop body", "%s = %s @ %s, then %s += %s * %s[%s]" % (walk, walk, a, acc, walk, w_name, i) if ok3 else
                               "the walk matrix is not raised by one step of `%s` before being added with weight `%s[%s]`: walk length and kernel "
                               "weight are paired off by one" % (a, w_name, i), lp.lineno)
    return rr


def r15_3(repo: Repo) -> RuleResult:
    """Alignment to the global label space: row ids are read out of the collapsed matrix's .row, column ids out of its
    .col, both through the same label map, into an (n_tokens, n_tokens) matrix that is *added* to the running total."""
    rr = RuleResult("R15.3", "per-tree counts are re-indexed rows from .row, columns from .col through one label map and accumulated", floor=2)
    f = repo.func(TREE, "sequence_tree_skip_grams")
    coos = [c for c in repo.calls_in(f) if (repo.canonical(f.module, c.func) or "").endswith("coo_matrix") and c.args and isinstance(c.args[0], ast.Tuple)
            and len(c.args[0].elts) == 2 and isinstance(c.args[0].elts[1], ast.Tuple)]
    if len(coos) != 1:
        raise AnalysisError("R15.3: the re-indexing coo_matrix construction not found")
    tup = coos[0].args[0]
    if not (len(tup.elts) == 2 and isinstance(tup.elts[1], ast.Tuple) and len(tup.elts[1].elts) == 2):
        raise AnalysisError("R15.3: coo_matrix argument is not (data, (rows, cols))")
    sd = single_defs(f)
    r_e, c_e = (sd.get(norm(x), x) for x in tup.elts[1].elts)

    def shape_of(e):
        # [MAP[...x...] for x in <matrix>.row]
        if isinstance(e, ast.ListComp) and len(e.generators) == 1 and isinstance(e.generators[0].iter, ast.Attribute):
            g = e.generators[0]
            elt = norm(e.elt).replace(norm(g.target), "_")
            return g.iter.attr, norm(g.iter.value), elt
        return None

    a, b = shape_of(r_e), shape_of(c_e)
    if a is None or b is None:
        raise AnalysisError("R15.3: row / column re-indexing comprehensions not recognised")
    ok = a[0] == "row" and b[0] == "col" and a[1] == b[1] and a[2] == b[2]
    (rr.ok if ok else rr.bad)(f, "re-indexing", "rows from %s.row, columns from %s.col, both through `%s`" % (a[1], b[1], a[2]) if ok else
                              "rows are re-indexed from `.%s` through `%s` and columns from `.%s` through `%s`: the aligned matrix is transposed or "
                              "mislabelled" % (a[0], a[2], b[0], b[2]), coos[0].lineno)
    pm = parents_map(f.node)
    # accumulation
    target = None
    for n in walk_no_nested(f.node):
        if isinstance(n, ast.Assign) and n.value is coos[0] and isinstance(n.targets[0], ast.Name):
            target = n.targets[0].id
    accs = [n for n in walk_no_nested(f.node) if isinstance(n, ast.AugAssign) and isinstance(n.op, ast.Add)
            and (coos[0] is n.value or (target is not None and norm(n.value) == target))]
    if accs:
        rr.ok(f, "accumulation", "`%s += <re-indexed counts>` inside the loop over trees" % norm(accs[0].target), accs[0].lineno)
    else:
        rr.bad(f, "accumulation", "the re-indexed counts of a tree are not added to the running total with `+=`: only one tree's counts survive", coos[0].lineno)
    return rr


def r15_4(repo: Repo) -> RuleResult:
    """Node removal with edge contraction: the removed node's own successor list (its self-loop dropped) replaces the
    reference to it in every predecessor, its data spliced alongside; its own row is emptied."""
    rr = RuleResult("R15.4", "remove_node splices the removed node's successors (indices and data alike) into each predecessor and empties its row", floor=3)
    f = repo.func(PP, "remove_node")
    node = f.params[1]
    stores = [n for n in walk_no_nested(f.node) if isinstance(n, ast.Assign) and isinstance(n.targets[0], ast.Subscript)]
    splice = [n for n in stores if isinstance(n.targets[0].slice, ast.Slice)]
    if len(splice) != 2:
        raise AnalysisError("R15.4: expected the two splice assignments (rows and data) in remove_node, found %d" % len(splice))
    kinds = {}
    for n in splice:
        base = n.targets[0].value  # adj.rows[i] / adj.data[i]
        fld = base.value.attr if isinstance(base, ast.Subscript) and isinstance(base.value, ast.Attribute) else None
        kinds[fld] = n
    if set(kinds) != {"rows", "data"}:
        raise AnalysisError("R15.4: splice targets are %s" % sorted(map(str, kinds)))
    sl_r, sl_d = kinds["rows"].targets[0].slice, kinds["data"].targets[0].slice
    same_slice = norm(sl_r) == norm(sl_d) and sym.sub(sym.poly(sl_r.upper), sym.poly(sl_r.lower)) == {(): 1}
    (rr.ok if same_slice else rr.bad)(f, "splice position", "both lists replace exactly the one entry at the removed node's position" if same_slice else
                                      "rows and data are spliced at different positions / widths (`%s` vs `%s`): indices and values drift apart" % (norm(sl_r), norm(sl_d)),
                                      kinds["rows"].lineno)
    # what is spliced in: copies of the removed node's own row
    src_r, src_d = norm(kinds["rows"].value), norm(kinds["data"].value)
    origin = {}
    for n in walk_no_nested(f.node):
        if isinstance(n, ast.Assign) and isinstance(n.targets[0], ast.Name) and n.targets[0].id in (src_r, src_d):
            v = n.value
            if isinstance(v, ast.Call) and isinstance(v.func, ast.Attribute) and v.func.attr == "copy" and isinstance(v.func.value, ast.Subscript):
                s_ = v.func.value
                origin[n.targets[0].id] = (s_.value.attr if isinstance(s_.value, ast.Attribute) else None, norm(s_.slice))
    ok = origin.get(src_r) == ("rows", node) and origin.get(src_d) == ("data", node)
    (rr.ok if ok else rr.bad)(f, "spliced successors", "copies of adj.rows[%s] and adj.data[%s]" % (node, node) if ok else
                              "the lists spliced into the predecessors are %s / %s, not copies of the removed node's own row and data" % (origin.get(src_r), origin.get(src_d)),
                              kinds["rows"].lineno)
    empt = [n for n in stores if not isinstance(n.targets[0].slice, ast.Slice) and isinstance(n.value, ast.List) and not n.value.elts]
    flds = {n.targets[0].value.attr for n in empt if isinstance(n.targets[0].value, ast.Attribute)}
    ok2 = flds == {"rows", "data"}
    (rr.ok if ok2 else rr.bad)(f, "removed row", "adj.rows[i] and adj.data[i] emptied for i == %s" % node if ok2 else
                               "the removed node's own row is not emptied in both rows and data (%s)" % sorted(flds), f.node.lineno)
    return rr


RULES = [r15_1, r15_2, r15_3, r15_4]
CLAIM = (
    "structural clauses only: R15.1 the orientation dispatch, evaluated per orientation, returns M for 'after', M^T for "
    "'before', M + M^T for 'symmetric' and [M^T, M] for 'directional'; R15.2 in build_tree_skip_grams the k-step walk matrix "
    "is paired with the k-th kernel weight (first term A * w[0]; loop over range(1, window_size); multiply by A before adding; "
    "weight index = loop variable); R15.3 per-tree counts are re-indexed rows from .row and columns from .col through one label "
    "map and added to the running total; R15.4 remove_node splices copies of the removed node's own successor list and data "
    "into each predecessor at the same one-entry slice and empties the removed row."
)
NOT_DECIDED = (
    "that the entries equal kernel-weighted walk counts (sparse matrix powers, LabelBinarizer collapse in utils.sparse_collapse), "
    "the self-loop handling of remove_node, and the equality with TokenCooccurrenceVectorizer on path graphs - numerical statements."
)
