"""C13 - calls are free of side effects, repeatable, and leave nothing behind."""
from __future__ import annotations

import ast
from typing import Dict, List, Optional, Set, Tuple

from ..agree import _expand
from ..effects import Effects
from ..model import AnalysisError, Cls, Func, Repo, is_self_attr, short, walk_no_nested
from ..report import RuleResult
from .c04 import _AttrFlow, _strip
from .common import ancestors, exported_estimators, norm, parents_map, single_defs

ENTRIES = ("fit", "fit_transform", "transform", "__add__")


# --------------------------------------------------------------------------- R13.1
def r13_1(repo: Repo) -> RuleResult:
    rr = RuleResult("R13.1", "no entry point mutates its data arguments or the objects passed as constructor parameters", floor=50)
    eng = Effects(repo)
    seen: Set[Tuple] = set()
    for c in exported_estimators(repo):
        ctor = set(repo.ctor_params(c))
        for entry in ENTRIES:
            m = repo.resolve_method(c, entry)
            if m is None:
                continue
            s = eng.summary(m, c)
            hits = []
            for mu in s.mutations:
                root = mu.root
                if root.startswith("P:"):
                    what_root = "argument `%s` of %s" % (root[2:], entry)
                elif root.startswith("F:"):
                    what_root = "the object passed as `%s` to %s (kept on self)" % (root.split(".", 1)[1], root[2:].split(".")[0])
                elif root.startswith("A:") and root[2:] in ctor:
                    what_root = "the object passed as constructor parameter `%s`" % root[2:]
                elif root.startswith("A:") and entry == "__add__":
                    # `self` is an operand of the operator: its fitted state is input data here
                    what_root = "the fitted state `%s` of the left operand" % root[2:]
                else:
                    continue
                hits.append((mu, what_root))
            if not hits:
                rr.add(m.file, "%s.%s" % (c.name, entry), "arguments and parameter objects", "ok",
                       "no mutation reaches an argument or a constructor-parameter object (%d internal mutations on private copies)"
                       % len(s.mutations), m.node.lineno)
                continue
            for mu, what_root in hits:
                # the construct is the mutating statement, reported once per (class-independent) site and root kind
                site_file = mu.where.split(":", 1)[0]
                site_fn = mu.where.split(" ", 1)[1]
                key = (site_file, site_fn, mu.what, mu.root.split(":", 1)[0] + ":" + mu.root.split(":", 1)[1].split(".")[-1])
                if key in seen:
                    continue
                seen.add(key)
                line = int(mu.where.split(":", 1)[1].split(" ", 1)[0])
                rr.add(site_file, site_fn, "%s on %s" % (mu.what, mu.root.split(":", 1)[1].split(".")[-1]), "violation",
                       "%s modifies %s%s (first seen from %s.%s%s)"
                       % (mu.what, what_root, " (an element of it)" if mu.level >= 1 else "", c.name, entry,
                          "; via " + " => ".join(x.split(" -> ")[-1] for x in mu.chain) if mu.chain else ""),
                       line, path=list(mu.chain))
    for f in repo.exported_functions():
        s = eng.summary(f, None)
        hits = [mu for mu in s.mutations if mu.root.startswith("P:")]
        if not hits:
            rr.ok(f, "arguments", "no mutation reaches an argument", f.node.lineno)
        for mu in hits:
            site_file = mu.where.split(":", 1)[0]
            site_fn = mu.where.split(" ", 1)[1]
            key = (site_file, site_fn, mu.what, "P:" + mu.root[2:])
            if key in seen:
                continue
            seen.add(key)
            line = int(mu.where.split(":", 1)[1].split(" ", 1)[0])
            rr.add(site_file, site_fn, "%s on %s" % (mu.what, mu.root[2:]), "violation",
                   "%s modifies argument `%s` of the public function %s" % (mu.what, mu.root[2:], f.name), line)
    rr.facts["unresolved_receivers_with_mutator_names"] = _unresolved_mutators(repo)
    return rr


def _unresolved_mutators(repo: Repo) -> List[str]:
    """Soundness-gap listing: method calls whose name is a mutator but whose receiver is
    neither a local name, a parameter nor a self attribute chain (not analysed)."""
    from ..effects import MUTATING_METHODS

    out = []
    for f in repo.all_funcs():
        for c in repo.calls_in(f):
            if isinstance(c.func, ast.Attribute) and c.func.attr in MUTATING_METHODS:
                base = c.func.value
                while isinstance(base, (ast.Attribute, ast.Subscript)):
                    base = base.value
                if not isinstance(base, ast.Name):
                    out.append("%s:%d %s" % (f.file, c.lineno, short(c, 60)))
    return out


# --------------------------------------------------------------------------- R13.2
# reviewed carried attributes: (class, attr) -> reason (+ re-validation in _revalidate)
_CARRIED = {
    ("LabelledTreeCooccurrenceVectorizer", "token_label_dictionary_"):
        "re-assigned from the return value of preprocess_tree_sequences called with the attribute itself as the fixed "
        "token_dictionary: the returned dictionary is that dictionary (mask entry re-appended at the same last index), idempotent",
    ("LabelledTreeCooccurrenceVectorizer", "token_index_dictionary_"):
        "the inverse of the dictionary above, recomputed from it on every call: idempotent",
    ("DistributionVectorizer", "data_dimension_"):
        "written by _validate_data only under `not hasattr(self, 'data_dimension_')`; fit always runs _validate_data first, "
        "so transform never writes it on a fitted estimator",
}


def _revalidate(repo: Repo, c: Cls, attr: str) -> bool:
    if c.name == "LabelledTreeCooccurrenceVectorizer":
        tr = repo.resolve_method(c, "transform")
        for n in walk_no_nested(tr.node):
            if isinstance(n, ast.Assign) and isinstance(n.targets[0], ast.Tuple) and isinstance(n.value, ast.Call) \
                    and norm(n.value.func) == "preprocess_tree_sequences":
                tg = [norm(x) for x in n.targets[0].elts]
                if "self." + attr in tg:
                    t = repo.func("vectorizers/preprocessing.py", "preprocess_tree_sequences")
                    bound = repo.bind_args(t, n.value)
                    return norm(bound.get("token_dictionary")) == "self.token_label_dictionary_" and tg.index("self." + attr) in (1, 2)
        return False
    if c.name == "DistributionVectorizer":
        vd = repo.resolve_method(c, "_validate_data")
        pm = parents_map(vd.node)
        for n in walk_no_nested(vd.node):
            if isinstance(n, ast.Assign) and is_self_attr(n.targets[0], attr):
                guards = [a for a in ancestors(n, pm) if isinstance(a, ast.If)]
                if not any("not hasattr(self, '%s')" % attr in norm(g.test) or 'not hasattr(self, "%s")' % attr in norm(g.test) for g in guards):
                    return False
        fit = repo.resolve_method(c, "fit")
        return any(isinstance(x, ast.Call) and is_self_attr(x.func, "_validate_data") for x in walk_no_nested(fit.node))
    return False


def r13_2(repo: Repo) -> RuleResult:
    rr = RuleResult("R13.2", "transform carries no state into later calls (no attribute is both read-before-written and written by transform)", floor=20)
    eng = Effects(repo)
    writers = 0
    for c in exported_estimators(repo):
        tr = repo.resolve_method(c, "transform")
        if tr is None:
            continue
        flow = _AttrFlow(repo, c)
        needs, writes = flow.summary(tr)
        needs = {_strip(n) for n in needs}  # a read under a condition is still a read
        # all writes (also conditional ones) made by transform-reachable methods
        all_writes: Set[str] = set()
        for g in repo.reachable_from(c, "transform"):
            owner = g.cls or (g.parent.cls if g.parent else None)
            if owner is None or owner not in repo.mro(c):
                continue
            for n in walk_no_nested(g.node):
                if is_self_attr(n) and isinstance(n.ctx, ast.Store):
                    all_writes.add(n.attr)
        if all_writes:
            writers += 1
        mutated = {mu.root[2:] for mu in eng.summary(tr, c).mutations if mu.root.startswith("A:")}
        carried = sorted((needs & all_writes) | (needs & mutated))
        if not carried:
            rr.add(tr.file, "%s.transform" % c.name, "carried attributes", "ok",
                   "reads %d attribute(s), writes %s, mutates in place %s: none is carried"
                   % (len(needs), sorted(all_writes) or "none", sorted(mutated) or "none"), tr.node.lineno,
                   nontrivial=bool(all_writes or mutated))
            continue
        for a in carried:
            reason = _CARRIED.get((c.name, a))
            how = "re-assigned" if a in all_writes else "mutated in place"
            if reason and _revalidate(repo, c, a):
                rr.add(tr.file, "%s.transform" % c.name, "self.%s" % a, "exception", reason, tr.node.lineno)
            else:
                rr.add(tr.file, "%s.transform" % c.name, "self.%s" % a, "violation",
                       "transform reads self.%s and it is also %s on the transform path: what a call returns can depend on "
                       "the calls made before it" % (a, how), tr.node.lineno)
    rr.facts["classes_with_transform_writers"] = writers
    return rr


# --------------------------------------------------------------------------- R13.3
TEMP_MAKERS = {"tempfile.mkdtemp", "tempfile.mkstemp", "tempfile.NamedTemporaryFile", "tempfile.mktemp"}
CLEANERS = {"shutil.rmtree", "os.rmdir", "os.removedirs"}


def r13_3(repo: Repo) -> RuleResult:
    rr = RuleResult("R13.3", "every temporary directory / file is released on all exits, exceptional ones included", floor=4)
    for f in repo.all_funcs():
        pm = None
        for call in repo.calls_in(f):
            canon = repo.canonical(f.module, call.func)
            if canon not in TEMP_MAKERS:
                continue
            pm = pm or parents_map(f.node)
            construct = "%s(...)#%d" % (canon, sum(1 for x in repo.calls_in(f) if repo.canonical(f.module, x.func) == canon and x.lineno < call.lineno))
            anc = ancestors(call, pm)
            ok = None
            # (a) context-managed
            if any(isinstance(a, ast.With) for a in anc) and canon == "tempfile.NamedTemporaryFile":
                ok = "context manager"
            # (b) a try whose finally removes a directory, entered right after the creation: the creating
            # statement is inside the try body or immediately precedes the try in the same block
            from .common import enclosing_stmt

            st = enclosing_stmt(call, pm)
            parent = pm.get(id(st))
            tries = [a for a in anc if isinstance(a, ast.Try) and a.finalbody]
            if parent is not None:
                for fld in ("body", "orelse", "finalbody"):
                    body = getattr(parent, fld, None)
                    if isinstance(body, list) and any(st is s for s in body):
                        i = [k for k, s in enumerate(body) if s is st][0]
                        j = i + 1
                        # plain assignments deriving names from the directory may sit in between
                        while j < len(body) and isinstance(body[j], ast.Assign) and not any(isinstance(x, ast.Call) and
                                repo.canonical(f.module, x.func) in ("numpy.memmap",) for x in ast.walk(body[j])):
                            j += 1
                        if j < len(body) and isinstance(body[j], ast.Try) and body[j].finalbody:
                            tries.append(body[j])
            for t in tries:
                cleans = [x for s in t.finalbody for x in ast.walk(s) if isinstance(x, ast.Call)
                          and repo.canonical(f.module, x.func) in CLEANERS]
                if cleans:
                    ok = "try/finally with %s" % norm(cleans[0].func)
            if ok:
                rr.ok(f, construct, "released by %s" % ok, call.lineno)
            else:
                removes = [x for x in repo.calls_in(f) if repo.canonical(f.module, x.func) in ({"os.remove", "os.unlink"} | CLEANERS)]
                rr.bad(f, construct,
                       "the directory created here is never removed (%s) and nothing is released when the block raises"
                       % ("only the scratch file is, on the success path" if removes else "no clean-up at all"), call.lineno)
    # TemporaryDirectory used without `with` would leak as well
    return rr


# --------------------------------------------------------------------------- R13.4
RNG_CONSUMERS = {
    "sklearn.utils.extmath.randomized_svd": "random_state",
    "sklearn.mixture.GaussianMixture": "random_state",
    "sklearn.decomposition.TruncatedSVD": "random_state",
    "scipy.sparse.linalg.svds_seeded": "random_state",
}


def _derives_from_random_state(e: ast.AST) -> bool:
    s = norm(e)
    return "self.random_state" in s


def r13_4(repo: Repo) -> RuleResult:
    rr = RuleResult("R13.4", "in an estimator with a random_state parameter every RNG consumer on the fit path is seeded from it", floor=12)
    for c in exported_estimators(repo):
        if "random_state" not in repo.ctor_params(c):
            continue
        seen_nodes: Set[int] = set()
        for entry in ("fit", "fit_transform"):
            start = repo.resolve_method(c, entry)
            if start is None:
                continue
            visited: Set[Tuple[int, str]] = set()

            def visit(f: Func, env: Dict[str, ast.AST], depth: int):
                sig = (id(f), "|".join("%s=%s" % (k, norm(v)) for k, v in sorted(env.items())))
                if sig in visited or depth > 4:
                    return
                visited.add(sig)
                defs = single_defs(f)
                for call in repo.calls_in(f):
                    canon = repo.canonical(f.module, call.func)
                    targets = repo.resolve_call(f, call, c)
                    # global numpy RNG
                    if canon and canon.startswith("numpy.random.") and canon not in ("numpy.random.RandomState", "numpy.random.default_rng"):
                        if id(call) not in seen_nodes:
                            seen_nodes.add(id(call))
                            rr.bad(f, "%s(...)" % canon, "%s uses the global numpy RNG although %s has a random_state parameter" % (canon, c.name), call.lineno)
                    kwname = RNG_CONSUMERS.get(canon)
                    if kwname is not None and id(call) not in seen_nodes:
                        seen_nodes.add(id(call))
                        arg = None
                        for k in call.keywords:
                            if k.arg == kwname:
                                arg = k.value
                        construct = "%s(%s=)" % (canon.rsplit(".", 1)[1], kwname)
                        if arg is None:
                            rr.bad(f, construct, "%s is called without %s: the fit is not reproducible from %s.random_state" % (canon, kwname, c.name), call.lineno)
                        else:
                            full = _expand(arg, defs, env)
                            if _derives_from_random_state(full):
                                rr.ok(f, construct, "%s=`%s` derives from self.random_state" % (kwname, short(full, 60)), call.lineno)
                            else:
                                rr.bad(f, construct, "%s=`%s` does not derive from self.random_state" % (kwname, short(full, 60)), call.lineno)
                    # RandomState method calls: receiver must derive from self.random_state
                    if isinstance(call.func, ast.Attribute) and call.func.attr in ("normal", "randint", "uniform", "choice", "permutation", "rand", "randn", "random", "shuffle", "integers") \
                            and not (canon or "").startswith("numpy.random") and id(call) not in seen_nodes:
                        recv = _expand(call.func.value, defs, env)
                        if isinstance(call.func.value, ast.Name) or "random_state" in norm(recv):
                            seen_nodes.add(id(call))
                            construct = "%s.%s(...)" % (norm(call.func.value), call.func.attr)
                            if _derives_from_random_state(recv):
                                rr.ok(f, construct, "generator `%s` derives from self.random_state" % short(recv, 60), call.lineno)
                            elif "random" in norm(recv).lower() or "rng" in norm(recv).lower():
                                rr.bad(f, construct, "generator `%s` does not derive from self.random_state" % short(recv, 60), call.lineno)
                    for t in targets:
                        if isinstance(t, Func):
                            bound = repo.bind_args(t, call)
                            sub = {k: _expand(v, defs, env) for k, v in bound.items() if k not in ("*", "**")}
                            visit(t, sub, depth + 1)

            visit(start, {}, 0)
    return rr


def r13_5(repo: Repo) -> RuleResult:
    """A fit result must not depend on what the estimator object was fitted on before.  An attribute that fit updates
    in place (`self.a += ...`, `/=`, ...) therefore has to be (re)assigned by a plain assignment earlier in the same
    function on every path: an accumulator initialised only in __init__ keeps the previous fit's value."""
    from ..cfg import CFG
    from ..model import is_self_attr, walk_no_nested

    rr = RuleResult("R13.5", "attributes updated in place on a fit path are re-initialised on every path before the update (refitting does not carry state)", floor=3)
    seen: Set[int] = set()
    for c in exported_estimators(repo):
        for entry in ("fit", "fit_transform"):
            for f in repo.reachable_from(c, entry):
                if f.is_njit or f.name == "__init__":
                    continue
                augs = [n for n in walk_no_nested(f.node) if isinstance(n, ast.AugAssign) and is_self_attr(n.target) and id(n) not in seen]
                if not augs:
                    continue
                g = CFG(f.node)
                for n in augs:
                    seen.add(id(n))
                    attr = n.target.attr
                    inits = [x.id for x in g.nodes if x.kind == "stmt" and isinstance(x.ast, ast.Assign)
                             and any(is_self_attr(e, attr) for t in x.ast.targets for e in (t.elts if isinstance(t, (ast.Tuple, ast.List)) else [t]))]
                    construct = "self.%s %s= ..." % (attr, type(n.op).__name__)
                    if inits and g.must_pass(inits, g.node_for(n)):
                        rr.ok(f, construct, "a plain assignment to self.%s precedes the update on every path" % attr, n.lineno)
                    else:
                        rr.bad(f, construct,
                               "self.%s is updated in place but not (re)assigned earlier in %s on every path: a second fit of the same "
                               "estimator object starts from the value the previous fit left, so the model depends on the object's history"
                               % (attr, f.qualname), n.lineno)
    return rr


_MUTATORS = {"append", "extend", "add", "update", "setdefault", "pop", "clear", "insert", "remove", "popitem", "discard"}


def r13_6(repo: Repo) -> RuleResult:
    """Module-level containers are state that outlives every call.  A function on a fit / transform path that writes
    into one (a memo table, a registry filled on the fly) makes what a call returns depend on the calls made before it
    in the same process - e.g. a cache keyed by only some of the arguments hands a later fit the object built for an
    earlier one."""
    from ..model import walk_no_nested

    rr = RuleResult("R13.6", "no function on a fit / transform path writes into a module-level container (process-wide state)", floor=20)
    seen: Set[int] = set()
    for c in exported_estimators(repo):
        for entry in ("fit", "fit_transform", "transform"):
            for f in repo.reachable_from(c, entry):
                if id(f) in seen:
                    continue
                seen.add(id(f))
                # module-level names bound to a container display / constructor
                glob = {k for k, v in f.module.constants.items()
                        if isinstance(v, (ast.Dict, ast.List, ast.Set)) or (isinstance(v, ast.Call) and norm(v.func) in ("dict", "list", "set", "defaultdict", "collections.defaultdict", "OrderedDict"))}
                local = set(f.params)
                for n in walk_no_nested(f.node):
                    if isinstance(n, ast.Assign):
                        for t in n.targets:
                            if isinstance(t, ast.Name):
                                local.add(t.id)
                p = f.parent
                while p is not None:
                    local |= set(p.params)
                    p = p.parent
                writes = []
                for n in walk_no_nested(f.node):
                    tgt = None
                    if isinstance(n, (ast.Assign, ast.AugAssign)):
                        for t in (n.targets if isinstance(n, ast.Assign) else [n.target]):
                            if isinstance(t, ast.Subscript) and isinstance(t.value, ast.Name):
                                tgt = t.value.id
                    elif isinstance(n, ast.Call) and isinstance(n.func, ast.Attribute) and n.func.attr in _MUTATORS and isinstance(n.func.value, ast.Name):
                        tgt = n.func.value.id
                    elif isinstance(n, ast.Global):
                        for nm in n.names:
                            writes.append((nm, n))
                    if tgt is not None and tgt in glob and tgt not in local:
                        writes.append((tgt, n))
                # a memo table whose key names every parameter the cached value depends on is behaviour-preserving
                kept = []
                for nm, n in writes:
                    tgt_sub = None
                    if isinstance(n, ast.Assign) and isinstance(n.targets[0], ast.Subscript) and isinstance(n.targets[0].value, ast.Name):
                        tgt_sub = n.targets[0]
                    if tgt_sub is not None:
                        key_names = {x.id for x in ast.walk(tgt_sub.slice) if isinstance(x, ast.Name)}
                        deps = {x.id for x in ast.walk(n.value) if isinstance(x, ast.Name) and x.id in f.params}
                        if isinstance(n.value, ast.Name):
                            for d in ast.walk(f.node):
                                if isinstance(d, (ast.FunctionDef, ast.Lambda)) and getattr(d, "name", None) == n.value.id:
                                    deps |= {x.id for x in ast.walk(d) if isinstance(x, ast.Name) and x.id in f.params}
                        if deps and deps <= key_names:
                            rr.ok(f, "module-level `%s`" % nm, "memo table keyed by every parameter the cached value depends on (%s)" % sorted(deps), n.lineno)
                            continue
                    kept.append((nm, n))
                writes = kept
                if writes:
                    for nm, n in writes:
                        rr.bad(f, "module-level `%s`" % nm, "`%s` writes into the module-level container `%s`: the value survives the call, so a later fit / "
                               "transform in the same process can be handed what an earlier one left there" % (short(n, 50), nm), n.lineno)
                else:
                    rr.ok(f, "module-level state", "no write to a module-level container", f.node.lineno, nontrivial=False)
    return rr


RULES = [r13_1, r13_2, r13_3, r13_4, r13_5, r13_6]
CLAIM = (
    "R13.1 alias + effect analysis (flow-sensitive abstract interpretation over each CFG, call summaries to a fixed point): no "
    "fit / fit_transform / transform / __add__ / exported function may mutate, directly or through any callee, one of its "
    "data arguments, an element of it, or an object passed as a constructor parameter; R13.2 no attribute is carried by "
    "transform (read before written in a call and written or mutated on the transform path) outside a reviewed, re-validated "
    "table; R13.3 every mkdtemp/mkstemp is released by a try/finally or context manager; R13.4 every RNG consumer on the fit "
    "path of an estimator with random_state is seeded from self.random_state; R13.5 every attribute updated in place on a fit path is "
    "re-initialised by a plain assignment on every path before the update (CFG must-pass-through); R13.6 no function on a fit / transform path "
    "writes into a module-level container (memo tables and the like are process-wide state)."
)
NOT_DECIDED = "bit-level reproducibility of parallel sums; effects of unresolved external calls (assumed pure; the library mutators the repository uses are tabled)."
ASSUMPTIONS = [
    "unknown external calls return fresh objects and mutate nothing; the mutating numpy/scipy/sklearn forms the repository uses are in the tables of sa/effects.py",
    "scipy.sparse.linalg.svds(X, k=1) is deliberately not an RNG consumer: measured during design, 12 same-seed fits agree to 5e-16",
]
