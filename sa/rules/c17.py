"""C17 - information weights (structural clauses)."""
from __future__ import annotations

import ast
from typing import Dict, List, Optional, Set

from ..cfg import CFG
from ..model import AnalysisError, Func, Repo, is_self_attr, short, walk_no_nested
from ..report import RuleResult
from .c10 import r10_2
from .common import enclosing_stmt, expand_locals, norm, parents_map

IW = "vectorizers/transformers/info_weight.py"


def r17_1(repo: Repo) -> RuleResult:
    rr = RuleResult("R17.1", "indices are sorted on every path before the binary-search kernel runs", floor=1)
    f = repo.func(IW, "information_weight")
    kernel = repo.func(IW, "column_weights")
    g = CFG(f.node)
    pm = parents_map(f.node)
    sites = [c for c in repo.calls_in(f) if kernel in repo.resolve_call(f, c)]
    if not sites:
        raise AnalysisError("R17.1: information_weight no longer calls column_weights")
    for call in sites:
        bound = repo.bind_args(kernel, call)
        objs = set()
        for p in ("indptr", "indices", "data"):
            e = bound.get(p)
            if not (isinstance(e, ast.Attribute) and e.attr == p):
                raise AnalysisError("R17.1: argument for %s is not <matrix>.%s" % (p, p))
            objs.add(norm(e.value))
        if len(objs) != 1:
            rr.bad(f, "column_weights(...)", "indptr/indices/data come from different objects: %s" % sorted(objs), call.lineno)
            continue
        obj = objs.pop()
        target = g.node_for(enclosing_stmt(call, pm))
        sorts = []
        rebinds = []
        skip_tests = []  # `if not O.has_sorted_indices:` - the false edge may skip the sort
        for n in g.nodes:
            if n.kind == "stmt" and isinstance(n.ast, ast.Expr) and isinstance(n.ast.value, ast.Call) \
                    and norm(n.ast.value.func) == "%s.sort_indices" % obj:
                sorts.append(n.id)
            elif n.kind == "stmt" and isinstance(n.ast, ast.Assign) and any(norm(t) == obj for t in n.ast.targets):
                v = n.ast.value
                if isinstance(v, ast.Call) and norm(v.func) == "%s.sorted_indices" % obj:
                    sorts.append(n.id)  # O = O.sorted_indices(): a sorted copy
                else:
                    rebinds.append(n.id)
            elif n.kind == "test" and norm(n.ast) in ("not %s.has_sorted_indices" % obj, "%s.has_sorted_indices == False" % obj):
                skip_tests.append(n.id)
        construct = "column_weights(%s.indptr, %s.indices, %s.data)" % (obj, obj, obj)
        ok = bool(sorts) and g.must_pass(sorts + skip_tests, target)
        if ok:
            # every path leaving a skip test through its *true* edge must still sort
            for t in skip_tests:
                for succ, lab in g.succ[t]:
                    if lab == "true" and not g.must_pass(sorts, target, start=succ):
                        ok = False
        if not ok:
            rr.bad(f, construct,
                   "some path reaches the binary-search kernel without sorting `%s`'s indices (sort_indices() / sorted_indices(), "
                   "skippable only when has_sorted_indices is already true): with unsorted column indices np.searchsorted returns "
                   "the wrong position and the weights depend on the storage order" % obj, call.lineno)
            continue
        # the object must not be re-bound between the sort and the call
        stale = [r for r in rebinds if any(r in g.reachable(s) for s in sorts) and target in g.reachable(r)]
        if stale:
            rr.bad(f, construct, "`%s` is re-bound after its indices were sorted and before the kernel call" % obj, call.lineno)
        else:
            rr.ok(f, construct, "every path sorts %s's indices first%s" % (obj, " (or finds has_sorted_indices true)" if skip_tests else ""), call.lineno)
    return rr


def _clamp_state(g: CFG, lvalue: str) -> Dict[int, bool]:
    """Forward must-analysis: at node entry, is `lvalue` known to be the result of
    np.maximum(lvalue, 0) with no later modification?"""
    live = sorted(g.live_nodes())
    IN = {n: True for n in live}
    OUT = {n: True for n in live}
    IN[g.entry] = False
    OUT[g.entry] = False

    def transfer(n, s):
        a = g.nodes[n].ast
        if g.nodes[n].kind != "stmt" or a is None:
            return s
        if isinstance(a, ast.Assign) and any(norm(t) == lvalue for t in a.targets):
            v = a.value
            return (
                isinstance(v, ast.Call)
                and norm(v.func) in ("np.maximum", "numpy.maximum", "np.fmax", "np.clip")
                and len(v.args) >= 2
                and norm(v.args[0]) == lvalue
                and any(isinstance(x, ast.Constant) and x.value in (0, 0.0) for x in v.args[1:])
            )
        if isinstance(a, ast.AugAssign) and norm(a.target) == lvalue:
            return False
        return s

    changed = True
    while changed:
        changed = False
        for n in live:
            if n == g.entry:
                continue
            preds = [p for p, _ in g.pred[n] if p in IN]
            i = all(OUT[p] for p in preds) if preds else False
            o = transfer(n, i)
            if i != IN[n] or o != OUT[n]:
                IN[n], OUT[n] = i, o
                changed = True
    return IN


def r17_2(repo: Repo) -> RuleResult:
    rr = RuleResult("R17.2", "weights are clamped at zero before being raised to a power", floor=1)
    fit = repo.func(IW, "InformationWeightTransformer.fit")
    # fit itself and the helpers of this module it calls (a de-duplicated rescaling helper must clamp as well)
    scope = [fit]
    for c in repo.calls_in(fit):
        for t in repo.resolve_call(fit, c):
            if isinstance(t, Func) and t.file == IW and not t.is_njit and t not in scope and t.name != "information_weight":
                scope.append(t)
    n_power = 0
    for f in scope:
        g = CFG(f.node)
        pm = parents_map(f.node)
        for call in repo.calls_in(f):
            if repo.canonical(f.module, call.func) != "numpy.power" or not call.args:
                continue
            n_power += 1
            b = call.args[0]
            base = norm(b)
            construct = "np.power(%s, ...)" % short(b, 40)
            wrapped = isinstance(b, ast.Call) and norm(b.func) in ("np.maximum", "numpy.maximum", "np.fmax", "np.clip") and len(b.args) >= 2 \
                and any(isinstance(x, ast.Constant) and x.value in (0, 0.0) for x in b.args[1:])
            if wrapped:
                rr.ok(f, construct, "the base is clamped in place", call.lineno)
                continue
            if not isinstance(b, (ast.Name, ast.Attribute)):
                rr.bad(f, construct, "`%s` is raised to a power without the np.maximum(., 0.0) clamp: a negative KL estimate (approximate prior, "
                       "supervised weights) raised to a fractional power is NaN and an odd power keeps it negative" % base, call.lineno)
                continue
            st = enclosing_stmt(call, pm)
            nid = g.node_for(st)
            state = _clamp_state(g, base)
            if state.get(nid, False):
                rr.ok(f, construct, "last write on every path is np.maximum(%s, 0.0)" % base, call.lineno)
            else:
                rr.bad(f, construct,
                       "on some path `%s` reaches np.power without the np.maximum(., 0.0) clamp: a negative KL estimate "
                       "raised to a fractional power is NaN" % base, call.lineno)
    if n_power == 0:
        raise AnalysisError("R17.2: no np.power on the fit path of InformationWeightTransformer (the weight_power step was not found)")
    return rr


def r17_3(repo: Repo) -> RuleResult:
    rr = RuleResult("R17.3", "transform is a single diagonal scaling by the fitted weights", floor=1)
    f = repo.func(IW, "InformationWeightTransformer.transform")
    rets = [n for n in walk_no_nested(f.node) if isinstance(n, ast.Return)]
    data = [p for p in f.positional_params if p != "self"][0]
    for r in rets:
        e = expand_locals(r.value, f, 2)
        ok = (
            isinstance(e, ast.BinOp)
            and isinstance(e.op, (ast.MatMult, ast.Mult))
            and norm(e.left) == data
            and isinstance(e.right, ast.Call)
            and repo.canonical(f.module, e.right.func) in ("scipy.sparse.diags", "scipy.sparse.diags_array")
            and len(e.right.args) == 1
            and is_self_attr(e.right.args[0], "information_weights_")
        )
        if ok:
            rr.ok(f, "return", "`%s`" % short(e), r.lineno)
        else:
            rr.bad(f, "return", "transform returns `%s`, not X @ diags(self.information_weights_)" % short(e), r.lineno)
    # no other statement may touch X
    for n in walk_no_nested(f.node):
        if isinstance(n, (ast.Assign, ast.AugAssign)):
            tg = n.targets if isinstance(n, ast.Assign) else [n.target]
            if any(data in norm(t) for t in tg if not isinstance(t, ast.Name) or t.id == data):
                rr.bad(f, "store", "transform modifies or re-binds its input `%s`" % data, n.lineno)
    return rr


def r17_4(repo: Repo) -> RuleResult:
    rr = r10_2(repo, "R17.4")
    rr.instances = [i for i in rr.instances if i.file == IW]
    rr.floor = 1
    return rr


def _factors(e: ast.AST) -> List[ast.AST]:
    if isinstance(e, ast.BinOp) and isinstance(e.op, ast.Mult):
        return _factors(e.left) + _factors(e.right)
    return [e]


def r17_5(repo: Repo) -> RuleResult:
    """KL(posterior || baseline) is a sum with one term per row.  Whatever the loop shape, a conditional that adds a
    term on one arm only drops that row's term on the other arm: that is sound only when the skipped term is zero,
    i.e. the test is `p > 0` for the very probability p the term multiplies its logarithm with (0 log 0 = 0)."""
    from .common import rel_of

    rr = RuleResult("R17.5", "every row contributes its term to the exact-prior divergence: a term is skipped only when its own probability is zero", floor=1)
    f = repo.func(IW, "column_kl_divergence_exact_prior")
    rets = [n for n in walk_no_nested(f.node) if isinstance(n, ast.Return) and isinstance(n.value, ast.Name)]
    if len(rets) != 1:
        raise AnalysisError("R17.5: the exact-prior kernel does not return its accumulator by name")
    acc = rets[0].value.id

    def adds(stmts) -> List[ast.AugAssign]:
        return [x for st in stmts for x in ast.walk(st) if isinstance(x, ast.AugAssign) and isinstance(x.op, ast.Add) and norm(x.target) == acc]

    if not adds(f.node.body):
        raise AnalysisError("R17.5: no `%s += ...` accumulation found in the exact-prior kernel" % acc)
    for n in walk_no_nested(f.node):
        if not isinstance(n, ast.If):
            continue
        a, b = adds(n.body), adds(n.orelse)
        if not a and not b:
            continue
        construct = "if %s" % short(n.test, 50)
        if a and b:
            rr.ok(f, construct, "both arms add a term", n.lineno)
            continue
        side = a or b
        r = rel_of(n.test)
        # the probability the (single) skipped term is built from
        ok = False
        if a and r is not None and r[0] == "lt" and r[1] in ("0", "0.0"):
            for x in side:
                if any(norm(t) == r[2] or norm(expand_locals(t, f, 3)) == r[2] for t in _factors(x.value)):
                    ok = True
        if ok:
            rr.ok(f, construct, "one-armed, and the test is on the term's own probability (0 log 0 = 0)", n.lineno)
        else:
            rr.bad(f, construct,
                   "a row's term is added only when `%s`; that is not the term's own probability being positive, so rows failing the "
                   "test lose their contribution (an explicitly stored zero count still has posterior mass prior_strength * baseline / norm): "
                   "the weight is no longer the KL divergence and depends on the storage of zeros" % norm(n.test), n.lineno)
    return rr


def r17_6(repo: Repo) -> RuleResult:
    """A column without stored entries has posterior = baseline, so its divergence - its weight - is 0.  The driver
    must therefore either call the kernel for every column or start from a buffer of zeros: a column skipped in a
    buffer initialised to ones keeps the weight 1, depends on whether its zeros are stored, and shifts the mean the
    other weights are normalised by."""
    from .common import ancestors

    rr = RuleResult("R17.6", "every column's weight is written by the kernel (or a skipped column keeps 0, the divergence of an empty column)", floor=1)
    f = repo.func(IW, "column_weights")
    rets = [n for n in walk_no_nested(f.node) if isinstance(n, ast.Return) and isinstance(n.value, ast.Name)]
    if len(rets) != 1:
        raise AnalysisError("R17.6: column_weights does not return its buffer by name")
    buf = rets[0].value.id
    inits = [n for n in walk_no_nested(f.node) if isinstance(n, ast.Assign) and any(isinstance(t, ast.Name) and t.id == buf for t in n.targets)]
    if len(inits) != 1 or not isinstance(inits[0].value, ast.Call):
        raise AnalysisError("R17.6: allocation of `%s` not recognised" % buf)
    init_fn = (repo.canonical(f.module, inits[0].value.func) or norm(inits[0].value.func)).rsplit(".", 1)[-1]
    pm = parents_map(f.node)
    stores = [n for n in walk_no_nested(f.node) if isinstance(n, ast.Assign) and isinstance(n.targets[0], ast.Subscript) and norm(n.targets[0].value) == buf]
    if not stores:
        raise AnalysisError("R17.6: no store into `%s`" % buf)
    for st in stores:
        conds = []
        for a in ancestors(st, pm):
            if isinstance(a, (ast.For, ast.While)):
                break
            if isinstance(a, ast.If):
                conds.append(a)
        construct = "%s[...] = kernel(...)" % buf
        if not conds:
            rr.ok(f, construct, "stored for every column", st.lineno)
        elif init_fn == "zeros":
            rr.ok(f, construct, "conditional (`%s`), skipped columns keep 0 = the divergence of an empty column" % short(conds[0].test, 40), st.lineno)
        else:
            rr.bad(f, construct, "the weight is stored only under `%s` and the buffer starts as np.%s: a skipped column keeps %s instead of 0, "
                   "the Kullback-Leibler divergence of a column whose posterior equals the baseline" % (short(conds[0].test, 40), init_fn, "1" if init_fn == "ones" else "its initial value"), st.lineno)
    return rr


RULES = [r17_1, r17_2, r17_3, r17_4, r17_5, r17_6]
CLAIM = (
    "R17.1 every path of information_weight to the binary-search kernel passes sort_indices() on the very matrix whose "
    "arrays are handed over; R17.2 on every path each weight vector's last write before np.power is np.maximum(., 0.0); "
    "R17.3 transform returns X @ diags(fitted weights) and nothing else; R17.4 the searchsorted position in the exact-prior "
    "kernel is membership-guarded (or the kernel walks its stored entries by position); R17.5 in the exact-prior kernel a "
    "conditional that adds a term of the divergence on one arm only tests that term's own probability (`p > 0`): no row's "
    "contribution is dropped for another reason (explicit zeros keep their prior mass); R17.6 the column driver stores a weight for every "
    "column, or skips columns only in a buffer of zeros."
)
NOT_DECIDED = "the KL identity, finiteness and permutation equivariance of the weights (numerical)."
