"""Self-test of the analyser on in-memory variants of /repo (thorough tier).

Filled in by selftest/corpus.py; see DESIGN.md section 6.
"""
from __future__ import annotations


def run_for(prop: str, seed: int):
    from selftest import runner

    return runner.run_for(prop, seed)
